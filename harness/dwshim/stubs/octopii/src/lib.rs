//! Stub exposing only the StateMachineTrait, textually included from the repo.
use bytes::Bytes;
pub trait StateMachineTrait: Send + Sync {
    fn apply(&self, command: &[u8]) -> std::result::Result<Bytes, String>;
    fn snapshot(&self) -> Vec<u8>;
    fn restore(&self, data: &[u8]) -> std::result::Result<(), String>;
    fn compact(&self) -> std::result::Result<(), String> { Ok(()) }
}
