//! Type-level stub of bincode 1.3: signatures only, bodies never run.
pub type Error = Box<ErrorKind>;
#[derive(Debug)]
pub enum ErrorKind { Custom(String) }
impl std::fmt::Display for ErrorKind { fn fmt(&self, f: &mut std::fmt::Formatter<'_>) -> std::fmt::Result { write!(f, "bincode stub") } }
impl std::error::Error for ErrorKind {}
pub type Result<T> = std::result::Result<T, Error>;
pub fn serialize<T: ?Sized + serde::Serialize>(_value: &T) -> Result<Vec<u8>> { unimplemented!() }
pub fn deserialize<'a, T: serde::Deserialize<'a>>(_bytes: &'a [u8]) -> Result<T> { unimplemented!() }
