#[path = "/repo/distributed-walrus/src/metadata.rs"]
pub mod metadata;
#[path = "/repo/distributed-walrus/src/controller/types.rs"]
pub mod types;
