// Positive example for rule C24.4: every construct below must be classified as a panic site
// (this file is parsed on every run of ./check C24; it is never compiled).
const PREVIEW: usize = 96;

fn preview(line: &str) -> &str {
    let shown = line.len().min(PREVIEW);
    &line[..shown]
}

fn safe_preview(line: &str) -> &str {
    let mut end = line.len().min(PREVIEW);
    while !line.is_char_boundary(end) {
        end -= 1;
    }
    &line[..end]
}

fn after_space(line: &str) -> &str {
    match line.find(' ') {
        Some(i) => &line[i..],
        None => line,
    }
}

fn head(buf: &[u8], n: usize) -> u8 {
    let first = buf[0];
    let part = &buf[..n];
    first + part.len() as u8
}

fn bounded(buf: &[u8], n: usize) -> &[u8] {
    let m = n.min(buf.len());
    &buf[..m]
}

fn must(x: Option<u8>, r: Result<u8, ()>) -> u8 {
    let a = x.unwrap();
    let b = r.expect("present");
    assert!(a != b);
    if a > b {
        panic!("order");
    }
    a / b
}

fn cut(mut s: String, at: usize) -> String {
    s.truncate(at);
    let (l, _r) = s.split_at(at);
    l.to_string()
}

fn pick(nodes: Vec<u64>, h: usize) -> u64 {
    if nodes.is_empty() {
        0
    } else {
        nodes[h % nodes.len()]
    }
}

fn pick_unguarded(nodes: Vec<u64>, h: usize) -> u64 {
    nodes[h % nodes.len()]
}
