#![allow(warnings)]
pub mod wal {
    #[path = "/repo/octopii/src/wal/wal/mod.rs"]
    pub mod wal;
}
