#!/bin/sh
# MANIFEST.setup_cmd: build the analysis tools from files on disk only (offline).
set -e
cd "$(dirname "$0")"
export CARGO_NET_OFFLINE=true
echo "[setup] building tools/mirfacts (rustc_private driver, nightly)"
(cd tools/mirfacts && cargo build --offline 2>&1 | tail -2)
if [ -d tools/astfacts ]; then
  echo "[setup] building tools/astfacts (syn 2)"
  (cd tools/astfacts && cargo build --offline 2>&1 | tail -2)
fi
echo "[setup] priming fact caches (dependency builds) - optional, failures here surface in the checks"
python3 - <<'PY' || true
import sys
sys.path.insert(0, '.')
from rules.core import extract
for c in ('walrus_rust', 'dwshim', 'oshim'):
    try:
        p, info = extract.mir_facts(c)
        print('[setup] facts', c, info)
    except Exception as e:
        print('[setup] facts', c, 'not primed:', str(e)[:300])
PY
echo "[setup] done"
