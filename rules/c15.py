"""C15 - topic entry counts = appended - consumed (in-process clause)."""
import re
from .core import common
from .core.mir import op_local, op_place, strip_generics, callee_name
from .core.cond import all_tests, call_site_of, borrowed_local, const_of, result_edges
from .core.slicing import origins, origin_calls, origin_args
from .core.effects import provenance
from .core.readflags import checkpoint_edges, stateful_edges, guarded
from .core.symexpr import expr, show, strip_refs
from . import fmtfeat

RULES = {
    "C15.6": "the recount's scan accepts every acknowledged entry (= C07.6): the comparisons of Block::read are the header-length sanity test, `entry end > file length` and the "
             "checksum comparison only; an entry rejected at an exact boundary is dropped from the per-block tally and the topic's count is one short after a restart",
    "C15.5": "the recount's raw material counts every entry the recovery scan accepts: in startup_chore's per-unit entry scan (the loop around Block::read on the unit's stub) every "
             "path from the Ok edge of the read to the next iteration or out of the loop increments the per-block entry counter - the same condition that lets the scan accept the "
             "entry's bytes (`used += consumed`) lets it count the entry. A counter that is incremented behind the `offset >= DEFAULT_BLOCK_SIZE` exit leaves the last entry of an "
             "exactly full block uncounted: after a restart the topic's count is one short per such block",
    "C15.1": "who-may-write: the only bodies that take the write lock of Walrus.topic_entry_counts are increment_topic_entry_count, decrement_topic_entry_count and the recovery recount",
    "C15.2": "increments: the only call sites of increment_topic_entry_count are the two append APIs; each is dominated by the Ok edge of the writer call and its delta is the constant 1 "
             "(single append) resp. `batch.len() as u64` of the very slice handed to the writer (batch append); no success return is reachable without passing the increment",
    "C15.3": "decrements: call sites are in read_next (delta = constant 1, guarded by checkpoint, and every consuming path that returns Some(entry) passes exactly such a site) and in "
             "batch_read_for_topic (guarded by checkpoint and start_offset.is_none(); delta = the per-iteration counter that is initialised to 0 and only ever incremented by 1, "
             "the increment dominating the cursor-position update of that iteration); inside the helpers delta is applied with saturating arithmetic to the entry of the given topic",
    "C15.4": "recount after restart uses the whole persisted position (must-depend, backward slices through calls and closure captures): in the recovery recount every index into the "
             "per-block tables and the chain (`take(n)`, `get(n)` with n: usize) and the block handed to the partial-block counter data-depends on the block component of the persisted "
             "position (BlockPos.cur_block_idx), and the partial-block limit depends on BlockPos.cur_block_offset. A recount that ignores a component of the position is wrong for every "
             "history in which that component differs from the value it assumes (e.g. a tail position that is no longer the last block of the chain)"
}

WRITERS = {"walrus::Walrus::increment_topic_entry_count", "walrus::Walrus::decrement_topic_entry_count", "walrus::Walrus::rebuild_topic_entry_counts_after_recovery"}


def check_writers(ctx, facts):
    found = set()
    for name, b in facts.bodies.items():
        if b.j["derived"]:
            continue
        for s in b.calls(re.compile(r"RwLock::(write|try_write)$")):
            pr = provenance(b, s.node["args"][0])
            if any(o.kind == "field" and o.what == ("wal::runtime::walrus::Walrus", "topic_entry_counts") for o in pr):
                F = re.sub(r"::\{closure#\d+\}.*$", "", common.short_fn(name))
                ctx.saw_body(b)
                found.add(F)
                if F in WRITERS:
                    ctx.ok("C15.1", F, "takes the write lock of topic_entry_counts", b.relfile, s.line)
                else:
                    ctx.violate("C15.1", F, "unexpected-writer-of-topic_entry_counts", b.relfile, s.line, "%s writes the entry counts; only %s may" % (F, sorted(WRITERS)))
    ctx.floor("C15.1", "writers of topic_entry_counts", len(found & WRITERS), 3)
    # helper bodies: saturating arithmetic on the entry of the given topic
    for hn, op in (("walrus::Walrus::increment_topic_entry_count", "saturating_add"), ("walrus::Walrus::decrement_topic_entry_count", "saturating_sub")):
        b = facts.body(hn)
        ctx.saw_body(b)
        sites = b.calls(re.compile(r"::%s$" % op))
        wrong = b.calls(re.compile(r"::(saturating_add|saturating_sub|wrapping_add|wrapping_sub|checked_add|checked_sub)$"))
        good = False
        for s in sites:
            src, _, _ = origins(b, s.node["args"][1])
            if "delta" in origin_args(src) or len(origin_args(src)) == 1:
                good = True
        bad_ops = [callee_name(w.node).split("::")[-1] for w in wrong if callee_name(w.node).split("::")[-1] != op]
        # plain Add/Sub on the stored value
        for site, st in b.assigns():
            if st["rv"]["k"] == "bin" and st["rv"]["op"] in ("Add", "Sub", "AddWithOverflow", "SubWithOverflow", "Mul"):
                bad_ops.append(st["rv"]["op"])
        if good and not bad_ops:
            ctx.ok("C15.3" if "decrement" in hn else "C15.2", hn, "applies delta with %s" % op, b.relfile, sites[0].line)
        else:
            ctx.violate("C15.3" if "decrement" in hn else "C15.2", hn, "helper-arithmetic", b.relfile, b.line, "%s does not apply `delta` with %s (found %s)" % (hn, op, bad_ops))
        # keyed by the topic argument
        ent = b.calls(re.compile(r"HashMap::entry$"))
        ok_key = False
        for e in ent:
            src, _, _ = origins(b, e.node["args"][1])
            if "topic" in origin_args(src) or len(origin_args(src)) == 1:
                ok_key = True
        if ok_key:
            ctx.ok("C15.1", hn, "count entry is keyed by the topic argument", b.relfile, ent[0].line)
        else:
            ctx.violate("C15.1", hn, "count-key", b.relfile, b.line, "the count entry updated is not keyed by the function's topic argument")


def net_count_paths(b, wsite, ok_edges, limit=4000):
    """Acyclic paths entry -> return of an append function: on a path through an Ok edge of the writer call the
    increments minus the decrements must be exactly one amount, on every other path nothing.  Returns None if
    that holds, else a description of the first offending path."""
    from .core.symexpr import expr as _e, strip_refs as _sr, show as _sh
    inc = {c.bb: c for c in b.calls(re.compile(r"Walrus::increment_topic_entry_count$"))}
    dec = {c.bb: c for c in b.calls(re.compile(r"Walrus::decrement_topic_entry_count$"))}
    oks = set(ok_edges)
    rets = {bb for bb in b.live_blocks if b.term(bb)["k"] == "return"}
    count = [0]
    bad = [None]

    def amt(c):
        return _sh(_sr(_e(b, c.node["args"][2])), 6)

    def dfs(bb, seen, wrote, net):
        if bad[0] is not None:
            return
        count[0] += 1
        if count[0] > limit:
            bad[0] = "the function has too many paths to enumerate (fail closed)"
            return
        net = list(net)
        if bb in inc:
            net.append(("+", amt(inc[bb])))
        if bb in dec:
            a = amt(dec[bb])
            if ("+", a) in net:
                net.remove(("+", a))
            else:
                net.append(("-", a))
        if bb in rets:
            want = 1 if wrote else 0
            if len(net) != want or any(sg != "+" for sg, _ in net):
                bad[0] = "a path that %s returns with a net count change of %s (line %s)" % (
                    "passes the Ok edge of the write" if wrote else "does not pass the Ok edge of the write", net or "nothing", b.term(bb).get("line"))
            return
        for s_ in b.succ[bb]:
            if s_ in seen or s_ not in b.live_blocks:
                continue
            dfs(s_, seen | {s_}, wrote or (bb, s_) in oks, net)
    dfs(0, {0}, False, [])
    return bad[0]


def check_increments(ctx, facts):
    want = {"walrus_write::append_for_topic": ("Writer::write", "const1"), "walrus_write::batch_append_for_topic": ("Writer::batch_write", "len")}
    seen = {}
    for name, b in facts.bodies.items():
        if b.j["derived"]:
            continue
        for s in b.calls(re.compile(r"Walrus::increment_topic_entry_count$")):
            F = common.short_fn(name)
            ctx.saw_body(b)
            seen.setdefault(F, []).append(s)
            if F not in want:
                ctx.violate("C15.2", F, "unexpected-increment-site", b.relfile, s.line, "%s increments a topic count; only the append APIs may" % F)
                continue
            wname, dk = want[F]
            ws = b.calls(re.compile(wname.replace("::", "::") + "$"))
            if len(ws) != 1:
                ctx.anchor_missing("C15.2", "%s call in %s" % (wname, F))
                continue
            ok_e, err_e = result_edges(b, ws[0])
            if ok_e and any(b.edge_guards(e, s.bb) for e in ok_e):
                ctx.ok("C15.2", F, "increment is dominated by the Ok edge of %s" % wname, b.relfile, s.line)
            else:
                # count-first designs: judged by the net count of every path (below)
                bad = net_count_paths(b, ws[0], ok_e)
                if bad is None:
                    ctx.ok("C15.2", F, "increment precedes %s, and every path on which the write did not succeed takes the same amount out again" % wname, b.relfile, s.line)
                else:
                    ctx.violate("C15.2", F, "increment-not-after-successful-write", b.relfile, s.line,
                                "the count is incremented on a path where %s has not returned Ok, and %s" % (wname, bad))
            # topic argument = same topic as given to the writer lookup
            tsrc, _, _ = origins(b, s.node["args"][1])
            if origin_args(tsrc) == {"col_name"} or len(origin_args(tsrc)) == 1 and not origin_calls(tsrc):
                ctx.ok("C15.2", F, "increment is for the appended topic", b.relfile, s.line)
            else:
                ctx.violate("C15.2", F, "increment-topic", b.relfile, s.line, "the incremented topic is not the function's topic argument")
            d = s.node["args"][2]
            if dk == "const1":
                if const_of(b, d) == 1:
                    ctx.ok("C15.2", F, "delta is the constant 1", b.relfile, s.line)
                else:
                    ctx.violate("C15.2", F, "increment-delta", b.relfile, s.line, "single append increments the count by something other than 1")
            else:
                dsrc, _, _ = origins(b, d, stop_calls=[r"\[T\]>::len$", r"Vec::len$"])
                lens = [o for o in dsrc if o.kind == "call" and o.what.endswith("::len")]
                same = False
                if len(lens) == 1 and len(origin_calls(dsrc)) == 1:
                    a = borrowed_local(b, lens[0].site.node["args"][0])
                    wa = borrowed_local(b, ws[0].node["args"][1])
                    asrc, _, _ = origins(b, lens[0].site.node["args"][0])
                    wsrc, _, _ = origins(b, ws[0].node["args"][1])
                    same = origin_args(asrc) == origin_args(wsrc) and len(origin_args(asrc)) == 1 and not origin_calls(asrc)
                # no arithmetic on the way
                arith = False
                l = op_local(d)
                hops = 0
                while l is not None and hops < 6:
                    hops += 1
                    dd = b.def_rvalue(l)
                    if not dd:
                        break
                    if dd[0] == "rv" and dd[1]["k"] == "bin":
                        arith = True
                    if dd[0] == "rv" and dd[1]["k"] in ("cast", "use"):
                        l = op_local(dd[1]["op"])
                        continue
                    break
                if same and not arith:
                    ctx.ok("C15.2", F, "delta is len() of the slice handed to the writer", b.relfile, s.line)
                else:
                    ctx.violate("C15.2", F, "increment-delta", b.relfile, s.line, "batch append increments the count by something other than batch.len()")
            # every Ok return passes the increment
            ok_rets = []
            for site, st in b.assigns():
                if st["place"]["l"] == 0 and not st["place"]["p"] and st["rv"]["k"] == "agg" and st["rv"].get("variant") == "Ok":
                    ok_rets.append(site.bb)
            if ok_rets and b.must_pass([0], ok_rets, [s.bb]) and 0 not in ok_rets:
                ctx.ok("C15.2", F, "every Ok return passes the increment", b.relfile, s.line)
            else:
                ctx.violate("C15.2", F, "ok-return-without-increment", b.relfile, s.line, "an Ok return is reachable without incrementing the count")
    for F in want:
        if F not in seen:
            ctx.anchor_missing("C15.2", "increment site in " + F)


def position_locals(facts, b):
    """Locals of `b` that a closure of `b` stores into ColReaderInfo cursor fields (role:
    the position reached by the parse loop), found through the closure captures."""
    out = set()
    for clo in facts.closures_of(b, recursive=False):
        ups = set()
        for site, st in clo.assigns():
            p = st["place"]
            if any(isinstance(e, dict) and e.get("o", "").endswith("ColReaderInfo") and e.get("n") in ("cur_block_idx", "cur_block_offset", "tail_block_id", "tail_offset") for e in p["p"]):
                if st["rv"]["k"] != "use":
                    continue
                o = clo.resolve_copy(st["rv"]["op"])
                q = op_place(o)
                if q is None:
                    continue
                q = clo.canon_place(q)
                if q["l"] == 1:
                    for e in q["p"]:
                        if isinstance(e, dict) and "f" in e:
                            ups.add(e["f"])
                            break
        if not ups:
            continue
        for site, st in b.assigns():
            rv = st["rv"]
            if rv["k"] == "agg" and rv.get("akind") == "closure" and rv.get("name") == clo.name:
                for k in ups:
                    l = borrowed_local(b, rv["ops"][k])
                    if l is not None:
                        out.add(l)
    return out


def check_decrements(ctx, facts):
    allowed = {"walrus_read::read_next", "walrus_read::batch_read_for_topic"}
    n_rn = 0
    for name, b in facts.bodies.items():
        if b.j["derived"]:
            continue
        F = common.short_fn(name)
        sites = b.calls(re.compile(r"Walrus::decrement_topic_entry_count$"))
        if not sites:
            continue
        ctx.saw_body(b)
        if F in ("walrus_write::append_for_topic", "walrus_write::batch_append_for_topic"):
            continue   # a roll-back of a count-first increment: C15.2's net-count rule judges every path of these two
        if F not in allowed:
            for s in sites:
                ctx.violate("C15.3", F, "unexpected-decrement-site", b.relfile, s.line, "%s decrements a topic count; only consuming reads may" % F)
            continue
        cp = checkpoint_edges(b)
        if F == "walrus_read::read_next":
            for s in sites:
                n_rn += 1
                if guarded(b, s.bb, cp):
                    ctx.ok("C15.3", F, "decrement guarded by checkpoint", b.relfile, s.line)
                else:
                    ctx.violate("C15.3", F, "decrement-on-peek", b.relfile, s.line, "the count is decremented with checkpoint=false")
                if const_of(b, s.node["args"][2]) == 1:
                    ctx.ok("C15.3", F, "delta is the constant 1", b.relfile, s.line)
                else:
                    ctx.violate("C15.3", F, "decrement-delta", b.relfile, s.line, "read_next decrements by something other than 1")
                # after the decrement only `return Ok(Some(entry))`
                rets = [r for r in b.return_blocks() if r in b.reachable_after(s.bb) or r == s.bb]
                some_blocks = set()
                for site, st in b.assigns():
                    if st["place"]["l"] == 0 and st["rv"]["k"] == "agg" and st["rv"].get("variant") == "Ok":
                        o = b.resolve_copy(st["rv"]["ops"][0])
                        l = op_local(o)
                        d = b.def_rvalue(l) if l is not None else None
                        if d and d[0] == "rv" and d[1]["k"] == "agg" and d[1].get("variant") == "Some":
                            some_blocks.add(site.bb)
                if rets and b.must_pass([s.bb], rets, list(some_blocks)) and some_blocks:
                    ctx.ok("C15.3", F, "every path after the decrement returns Ok(Some(entry))", b.relfile, s.line)
                else:
                    ctx.violate("C15.3", F, "decrement-without-delivery", b.relfile, s.line, "a path decrements the count and does not return an entry")
            # conversely: under checkpoint every Ok(Some) return passes a decrement
            false_edges = []
            for T in all_tests(b):
                if T.kind == "local" and T.true_edge in cp:
                    false_edges.append(T.false_edge)
            dec_blocks = [s.bb for s in sites]
            for site, st in b.assigns():
                if st["place"]["l"] == 0 and st["rv"]["k"] == "agg" and st["rv"].get("variant") == "Ok":
                    o = b.resolve_copy(st["rv"]["ops"][0])
                    l = op_local(o)
                    d = b.def_rvalue(l) if l is not None else None
                    if d and d[0] == "rv" and d[1]["k"] == "agg" and d[1].get("variant") == "Some":
                        reach = b.reachable_from([0], removed_blocks=dec_blocks, removed_edges=false_edges)
                        if site.bb in reach:
                            ctx.violate("C15.3", F, "delivery-without-decrement", b.relfile, site.line, "a consuming read_next can return an entry without decrementing the count")
                        else:
                            ctx.ok("C15.3", F, "consuming Ok(Some) return passes a decrement", b.relfile, site.line)
        else:
            st_edges, _ = stateful_edges(b)
            for s in sites:
                if guarded(b, s.bb, cp) and guarded(b, s.bb, st_edges):
                    ctx.ok("C15.3", F, "decrement guarded by checkpoint and start_offset.is_none()", b.relfile, s.line)
                else:
                    ctx.violate("C15.3", F, "decrement-on-non-consuming-read", b.relfile, s.line, "the batch decrement is reachable for a peek or an offset-addressed read")
                # delta role: counter initialised 0, incremented by 1 only
                dl = op_local(b.resolve_copy(s.node["args"][2]))
                hops = 0
                while dl is not None and b.local_name(dl) is None and hops < 5:
                    hops += 1
                    dd = b.def_rvalue(dl)
                    if dd and dd[0] == "rv" and dd[1]["k"] in ("cast", "use"):
                        dl = op_local(b.resolve_copy(dd[1]["op"]))
                    else:
                        break
                if dl is None:
                    ctx.violate("C15.3", F, "decrement-delta", b.relfile, s.line, "cannot identify the counter passed as delta")
                    continue
                ok_defs = True
                inc_sites = []
                for site, kind, node in b.defs.get(dl, []):
                    if kind != "assign":
                        ok_defs = False
                        continue
                    rv = node["rv"]
                    o = b.resolve_copy(rv["op"]) if rv["k"] == "use" else None
                    if o is not None and o.get("k") == "const" and o.get("val") == 0:
                        continue
                    p = op_place(o) if o else None
                    if p is not None and p["p"]:
                        d2 = b.def_rvalue(p["l"])
                        if d2 and d2[0] == "rv" and d2[1]["k"] == "bin" and d2[1]["op"] in ("AddWithOverflow", "Add") and op_local(b.resolve_copy(d2[1]["a"])) == dl and const_of(b, d2[1]["b"]) == 1:
                            inc_sites.append(site)
                            continue
                    ok_defs = False
                if ok_defs and inc_sites:
                    ctx.ok("C15.3", F, "delta is a counter initialised to 0 and incremented by 1 (%d site(s))" % len(inc_sites), b.relfile, s.line)
                    # once per parsed entry: between two increments the parse position must advance
                    adv = set()
                    for T in all_tests(b):
                        if T.kind == "cmp" and T.op in ("Lt", "Ge"):
                            la = op_local(T.a)
                            cs = call_site_of(b, T.b)
                            if la is not None and cs is not None and callee_name(cs.node).endswith("::len"):
                                for site2, kind2, node2 in b.defs.get(la, []):
                                    if kind2 == "assign" and node2["rv"]["k"] == "use" and op_place(node2["rv"]["op"]) is not None:
                                        adv.add(site2.bb)
                    for nx in b.calls(re.compile(r"Iterator>::next$|::next$")):
                        adv.add(nx.bb)
                    once = True
                    for i1 in inc_sites:
                        for i2 in inc_sites:
                            if not b.must_pass([i1.bb], [i2.bb], list(adv)):
                                once = False
                                ctx.violate("C15.3", F, "entry-counted-twice", b.relfile, i2.line, "the per-entry counter can be incremented twice without the parse position advancing in between")
                    if once and adv:
                        ctx.ok("C15.3", F, "counter increments are separated by an advance of the parse position", b.relfile, inc_sites[0].line, "%d advance sites" % len(adv))
                else:
                    ctx.violate("C15.3", F, "decrement-delta", b.relfile, s.line, "the delta passed to the batch decrement is not a 0-initialised +1 counter")
                # the increment dominates the position updates of the iteration (final_* locals captured by the commit closure)
                pos_locals = position_locals(facts, b)
                n_pos = 0
                for pl in pos_locals:
                    for site, kind, node in b.defs.get(pl, []):
                        if kind != "assign":
                            continue
                        o = b.resolve_copy(node["rv"]["op"]) if node["rv"]["k"] == "use" else None
                        if o is not None and o.get("k") == "const":
                            continue
                        n_pos += 1
                        if any(b.dominates(i.bb, site.bb) for i in inc_sites):
                            pass
                        else:
                            ctx.violate("C15.3", F, "position-update-not-counted", b.relfile, site.line, "the cursor position is advanced on a path that did not count the entry")
                if n_pos:
                    ctx.ok("C15.3", F, "every cursor-position update of the parse loop is dominated by the counter increment", b.relfile, s.line, "%d updates" % n_pos)
    ctx.floor("C15.3", "decrement sites in read_next", n_rn, 2)


def check_recount(ctx, facts):
    from .core.slicing import origins
    from .core.symexpr import expr, show, strip_refs
    b = facts.body("walrus::Walrus::rebuild_topic_entry_counts_after_recovery")
    ctx.saw_body(b)
    F = common.short_fn(b.name)

    tests = [T for T in all_tests(b) if T.kind in ("cmp", "local", "discr", "call")]

    def t_edges(T):
        es = [e for e in (T.true_edge, T.false_edge) if e]
        es += [e for e in getattr(T, "variant_edges", {}).values() if e]
        return es

    def t_operands(T):
        if T.kind == "cmp":
            return [T.a, T.b]
        if T.kind == "local":
            return [T.operand]
        if T.kind == "call":
            return list(T.args)
        return []

    def fields(op, use_bb, depth=0):
        """BlockPos fields the operand depends on: data slice (through calls and closure
        captures) plus control dependences of its definitions that are not shared with the use."""
        src, _, defsites = origins(b, op, follow_all_calls=True)
        out = {o.what[1] for o in src if o.kind == "field" and isinstance(o.what, tuple) and str(o.what[0]).endswith("index::BlockPos")}
        if depth >= 2:
            return out
        for T in tests:
            es = t_edges(T)
            if any(b.edge_guards(e, use_bb) for e in es):
                continue   # governs the use as well: says nothing about this value
            if any(b.edge_guards(e, d.bb) for e in es for d in defsites):
                for o in t_operands(T):
                    out |= fields(o, T.bb, depth + 1)
        return out
    n_idx = n_part = 0
    for c in b.calls(re.compile(r"Iterator>?::take$|::take$|::get$")):
        if len(c.node["args"]) < 2:
            continue
        a = c.node["args"][1]
        l = op_local(a)
        if a.get("k") == "const" or l is None or b.local_ty(l) != "usize":
            continue
        n_idx += 1
        if "cur_block_idx" in fields(a, c.bb):
            ctx.ok("C15.4", F, "table/chain index depends on the persisted block component", b.relfile, c.line)
        else:
            ctx.violate("C15.4", F, "recount-index-ignores-persisted-block", b.relfile, c.line,
                        "an index used to sum the consumed entries does not depend on the block component of the persisted position: the recount is wrong whenever the persisted "
                        "block is not the one this code assumes")
    for c in b.calls(re.compile(r"count_entries_in_block_up_to$")):
        n_part += 1
        fb, fl = fields(c.node["args"][0], c.bb), fields(c.node["args"][1], c.bb)
        if "cur_block_idx" in fb and "cur_block_offset" in fl:
            ctx.ok("C15.4", F, "partial-block count is taken in the persisted block up to the persisted offset", b.relfile, c.line)
        else:
            ctx.violate("C15.4", F, "recount-partial-ignores-persisted-position", b.relfile, c.line,
                        "the partial-block count does not depend on the persisted (block, offset) pair (block: %s, limit: %s)" % (sorted(fb), sorted(fl)))
    # the persisted tail block is looked up in the WHOLE recovered chain: the comparison of a chain block's id
    # with the persisted block id is evaluated per element of an iteration over the chain
    searched = False
    reversed_at = None
    where = None
    bodies = [b] + facts.closures_of(b)
    for c in bodies:
        eqs = []
        for site, st in c.assigns():
            rv = st["rv"]
            if rv["k"] == "bin" and rv["op"] in ("Eq", "Ne"):
                eqs.append((site, rv["a"], rv["b"]))
        for T in all_tests(c):
            if T.kind == "cmp" and T.op in ("Eq", "Ne"):
                eqs.append((T.site if T.site else None, T.a, T.b))
        for site, a, bb_ in eqs:
            sa, sb = show(strip_refs(expr(c, a)), 8), show(strip_refs(expr(c, bb_)), 8)
            if not (sa.endswith(".id") or sb.endswith(".id")):
                continue
            other = sb if sa.endswith(".id") else sa
            if not ("tail_block_id" in other or "cur_block_idx" in other):
                continue
            where = (c, site)
            if c is not b:
                # closure: which call receives it? (in the function or in the closure that creates it)
                for hb_ in bodies:
                    for call in hb_.calls():
                        for a_ in call.node["args"]:
                            d = hb_.def_rvalue(op_local(a_)) if op_local(a_) is not None else None
                            if d and d[0] == "rv" and d[1]["k"] == "agg" and d[1].get("akind") == "closure" and strip_generics(d[1].get("name", "")) == strip_generics(c.name):
                                cn = strip_generics(callee_name(call.node))
                                recv = show(strip_refs(expr(hb_, call.node["args"][0])), 8)
                                if re.search(r"Iterator>?::(position|rposition|find|find_map|rfind|any)$", cn) and ".chain" in recv:
                                    from .core.slicing import index_counted_from_end
                                    if index_counted_from_end(hb_, call):
                                        reversed_at = call
                                    else:
                                        searched = True
            else:
                bbx = site.bb if site is not None else None
                if bbx is not None:
                    hb, L = b.enclosing_loop(bbx)
                    while L is not None:
                        t = b.term(hb)
                        if t["k"] == "call" and re.search(r"Iterator>?::next$", strip_generics(t.get("callee") or "")) and ".chain" in show(strip_refs(expr(b, t["args"][0])), 10):
                            searched = True
                            break
                        # outer loop
                        up = b.idom[hb] if not isinstance(b.idom, dict) else b.idom.get(hb)
                        if up is None or up == hb:
                            break
                        hb2, L2 = b.enclosing_loop(up)
                        if hb2 is None or hb2 == hb:
                            break
                        hb, L = hb2, L2
    if reversed_at is not None:
        ctx.violate("C15.4", F, "persisted-tail-block-index-counted-from-the-end", b.relfile, reversed_at.line,
                    "the persisted tail block is looked up with a search that counts from the END of the chain (rev().position / rev().enumerate()), and the result is used as a chain "
                    "index: with two or more blocks in the chain the consumed entries are computed against other blocks")
    elif searched:
        ctx.ok("C15.4", F, "the persisted tail block is searched by id over the whole recovered chain", b.relfile, where[1].line if where and where[1] is not None else b.line)
    else:
        ctx.violate("C15.4", F, "persisted-tail-block-not-searched-in-chain", b.relfile, where[1].line if where and where[1] is not None else b.line,
                    "the block named by a persisted tail position is not looked up by id in the whole recovered chain (an iteration over the chain comparing each block's id): when the "
                    "writer rotated after the position was persisted, that block is no longer where this code expects it and the consumed entries are not subtracted")
    ctx.floor("C15.4", "position-derived indices in the recount", n_idx, 1)
    ctx.floor("C15.4", "partial-block counts in the recount", n_part, 1)


def check_recovery_counts_every_entry(ctx, facts, rid="C15.5"):
    from .core.cond import result_edges
    b = facts.body("walrus::Walrus::startup_chore")
    ctx.saw_body(b)
    F = "walrus::Walrus::startup_chore"
    n = 0
    for c in b.calls(re.compile(r"block::Block::read$")):
        hb, L = c.bb, None
        for _ in range(16):
            L = b.natural_loop(hb)
            if L and c.bb in L:
                break
            L = None
            if b.idom.get(hb) is None or b.idom[hb] == hb:
                break
            hb = b.idom[hb]
        if L is None:
            continue
        # the per-block entry counter: a named integer local advanced by the constant 1 inside the loop
        incs = {}
        for site, st in b.assigns():
            if site.bb not in L or st["place"]["p"] or not b.local_name(st["place"]["l"]):
                continue
            e = strip_refs(expr(b, st["rv"]["op"])) if st["rv"]["k"] == "use" else None
            if e is not None and e[0] == "Add" and fmtfeat.const_eval(e[2]) == 1 and show(strip_refs(e[1])) == b.local_name(st["place"]["l"]):
                incs.setdefault(st["place"]["l"], []).append(site.bb)
        for c2 in b.calls(re.compile(r"::saturating_add$|::wrapping_add$|::checked_add$")):
            if c2.bb in L and len(c2.node["args"]) == 2 and const_of(b, c2.node["args"][1]) == 1 and not c2.node["dest"]["p"]:
                dl = c2.node["dest"]["l"]
                a0 = op_local(b.resolve_copy(c2.node["args"][0]))
                tgt = dl if b.local_name(dl) else next((st["place"]["l"] for s_, st in b.assigns() if st["rv"]["k"] == "use" and op_local(st["rv"]["op"]) == dl and not st["place"]["p"] and b.local_name(st["place"]["l"])), None)
                if tgt is not None and a0 is not None and (a0 == tgt or b.local_name(a0) == b.local_name(tgt)):
                    incs.setdefault(tgt, []).append(c2.bb)
        if not incs:
            ctx.anchor_missing(rid, "the per-block entry counter (+1 per entry) of the recovery scan in startup_chore")
            return
        ok_edges, err_edges = result_edges(b, c)
        ok_edges = [e for e in ok_edges if e[0] in L and e[1] in L]
        # the edge on which the result is first found to be Ok (later tests of values moved out of it are behind it)
        ok_edges = [e for e in ok_edges if not any(e2 != e and b.dominates(e2[1], e[0]) for e2 in ok_edges)]
        if not ok_edges:
            ctx.anchor_missing(rid, "the Ok edge of Block::read in the recovery scan")
            return
        n += 1
        exits = [v for (u, v) in b.loop_exits(L)]
        targets = set(exits) | {hb}
        bad = None
        for cl, bbs in incs.items():
            for e in ok_edges:
                start = e[1]
                if start in bbs:
                    continue
                if not b.must_pass([start], targets, bbs):
                    bad = bad or (cl, e)
        if bad:
            ctx.violate(rid, F, "scanned-entry-not-counted", b.relfile, b.term(bad[1][0]).get("line"),
                        "the recovery scan can accept an entry (Ok from Block::read) and leave the loop or go on to the next entry without incrementing `%s`: the per-block entry "
                        "counts that the recount sums are short by one for such a block (e.g. a block filled exactly to DEFAULT_BLOCK_SIZE, whose last entry ends the scan)" % b.local_name(bad[0]))
        else:
            ctx.ok(rid, F, "every entry the recovery scan accepts is counted (%s)" % ", ".join(sorted(b.local_name(x) for x in incs)), b.relfile, c.line)
    ctx.floor(rid, "recovery entry-scan loops", n, 1)


def run(ctx):
    for k, v in RULES.items():
        ctx.rule(k, v)
    facts = common.mir(ctx, "walrus_rust")
    check_writers(ctx, facts)
    check_increments(ctx, facts)
    check_decrements(ctx, facts)
    check_recount(ctx, facts)
    check_recovery_counts_every_entry(ctx, facts)
    from .c07 import check_reader_rejections
    check_reader_rejections(ctx, facts, rid="C15.6")
    ctx.assume("the arithmetic of the recount after restart (rebuild_topic_entry_counts_after_recovery) is NOT decided beyond C15.4's must-depend clause")
    ctx.assume("that the batch counter equals the number of entries *returned* is C01.1's obligation (known finding there), not repeated here")
    return {
        "explanation": "who-may-write table for the count map, and for every increment/decrement call site: edge dominance by the success edge of the writer call / by the checkpoint and "
                       "stateful flags, the dataflow role of the delta operand, and must-pass-through between deliveries and decrements. Decides the in-process clause structurally for all inputs.",
    }
