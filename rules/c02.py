"""C02 - non-consuming reads (peeks, offset-addressed reads) change nothing."""
import re
from .core import common
from .core.mir import op_local, op_place, strip_generics, callee_name, Site
from .core.cond import all_tests, call_site_of, borrowed_local, const_of
from .core.slicing import origins, origin_calls
from .core.effects import Effects
from .core.readflags import checkpoint_edges, stateful_edges, guarded, place_key, option_edges, flag_places
from .core.taint import Taint

RULES = {
    "C02.4": "what a peek leaves behind is not acted on elsewhere (= C01.5): Reader::append_block_to_chain, which carries the tail position over into a block that is being "
             "sealed, does so only when the cursor's tail block IS that block (tail_block_id == block.id), on both of its paths. A carry-over keyed on anything a non-consuming "
             "read can reach (the chain index having run past the chain after a peek at the end of a block) applies an offset of another block, and later consuming reads skip "
             "entries - the peek has changed what they return",
    "C02.1": "effect set under the flags (GB + effect summaries over the call graph): in read_next and batch_read_for_topic (and their closures) every store to reader cursor state, "
             "every call that (transitively) mutates the persisted index, the entry counts, the reclamation trackers, sends a deletion request or touches the filesystem must be "
             "dominated by the `checkpoint == true` edge, and in batch_read_for_topic also by an edge on which start_offset is None. Frozen exception classes (position-preserving "
             "re-derivations): stores under `!hydrated_from_index` (hydration from the persisted index), stores under `persisted tail is Some` that fold a tail position into the equal "
             "sealed-chain position, the exhausted-block advance (idx+1, 0) under `offset >= block.used`, and the consumed-mark of that exhausted block (only while C12.4 holds: marks are "
             "idempotent, so re-deriving 'all entries of this block were consumed' from the shared cursor changes nothing a consuming read had not already established)",
    "C02.2": "the offset-addressed branch is read-only by type: no RwLock::write on the column state and no DerefMut of its guard in blocks dominated by the start_offset = Some arm",
    "C02.3": "peek = following consuming read (non-interference, locals-only taint from `checkpoint`): every branch whose discriminant depends on `checkpoint` re-joins before any return, "
             "and no local written in such a region (or computed from `checkpoint`) is in the data slice of the returned value",
}

CURSOR_FIELDS = ("cur_block_idx", "cur_block_offset", "tail_block_id", "tail_offset")


def _tests_with_field(body, field):
    out = []
    for T in all_tests(body):
        if T.kind == "local":
            p = op_place(T.operand)
            if p and p["p"] and isinstance(p["p"][-1], dict) and p["p"][-1].get("n") == field:
                out.append(T)
    return out


def _is_cursor_offset_load(body, operand):
    """operand is (a copy of) the cursor's own offset: a load of ColReaderInfo.cur_block_offset, possibly
    carried through tuple packing / unpacking and named copies.  Other definitions of the same local are
    tolerated only if they are the constant 0 (block start after an advance) or are made on the
    offset-addressed arm (start_offset = Some), where no shared cursor is involved at all."""
    from .core.symexpr import expr, strip_refs, show
    so_keys = flag_places(body, "start_offset")
    stateless = option_edges(body, so_keys, want_none=False) if so_keys else []
    state = {"load": False, "bad": False}
    seen = set()

    def leaf(op, at_bb, depth):
        if depth > 10:
            state["bad"] = True
            return
        o = body.resolve_copy(op)
        if o.get("k") == "const":
            if o.get("val") != 0:
                state["bad"] = True
            return
        pl = op_place(o)
        if pl is None:
            state["bad"] = True
            return
        e = strip_refs(expr(body, o))
        if isinstance(e, tuple) and e and e[0] == "field" and e[3] == "cur_block_offset":
            state["load"] = True
            return
        flds = [x for x in pl["p"] if isinstance(x, dict) and "f" in x]
        key = (pl["l"], tuple(x["f"] for x in flds))
        if key in seen:
            return
        seen.add(key)
        defs = body.defs.get(pl["l"], [])
        if not defs:
            state["bad"] = True
            return
        for s_, k, n in defs:
            if any(body.edge_guards(e_, s_.bb) for e_ in stateless):
                continue
            if k != "assign":
                state["bad"] = True
                continue
            rv = n["rv"]
            if rv["k"] in ("use", "cast") and not flds:
                leaf(rv["op"], s_.bb, depth + 1)
            elif rv["k"] == "agg" and rv.get("akind") == "tuple" and len(flds) == 1 and flds[0]["f"] < len(rv["ops"]):
                leaf(rv["ops"][flds[0]["f"]], s_.bb, depth + 1)
            elif rv["k"] in ("use", "cast") and flds:
                q = op_place(rv["op"])
                if q is not None:
                    leaf({"k": "copy", "place": {"l": q["l"], "p": q["p"] + flds}}, s_.bb, depth + 1)
                else:
                    state["bad"] = True
            else:
                state["bad"] = True
    leaf(operand, None, 0)
    return state["load"] and not state["bad"]


def _exact_end_helper(facts, call_node):
    """callee returns exactly `arg_off >= (arg_block).used`: (index of offset arg, index of block arg) or None"""
    from .core.symexpr import expr, strip_refs
    name = strip_generics(call_node.get("callee") or "")
    hb = next((bb_ for nn, bb_ in facts.bodies.items() if strip_generics(nn) == name), None)
    if hb is None or hb.j.get("derived") or str(hb.j.get("ret_ty", "")) != "bool":
        return None
    rets = [st for site, st in hb.assigns() if st["place"]["l"] == 0 and not st["place"]["p"]]
    if len(rets) != 1 or rets[0]["rv"]["k"] != "bin" or rets[0]["rv"]["op"] != "Ge":
        return None
    ea, eb = strip_refs(expr(hb, rets[0]["rv"]["a"])), strip_refs(expr(hb, rets[0]["rv"]["b"]))
    if ea[0] == "v" and 1 <= ea[1] <= hb.arg_count and eb[0] == "field" and eb[3] == "used":
        base = strip_refs(eb[1])
        if base[0] == "v" and 1 <= base[1] <= hb.arg_count:
            return (ea[1] - 1, base[1] - 1)
    return None


def cursor_carriers(facts, b, field):
    """locals of b whose value is copied into a store of ColReaderInfo.<field> (in b or in a closure of b, through
    captured variables)"""
    import re
    from .core.symexpr import expr, show, strip_refs
    cs, work = set(), []
    for site, st in b.assigns():
        p = st["place"]
        if p["p"] and isinstance(p["p"][-1], dict) and p["p"][-1].get("n") == field and st["rv"]["k"] in ("use", "cast"):
            work.append(st["rv"]["op"])
    # the commit may sit in a closure of this function: a captured variable `_1.<name>` stands for the
    # parent's local of that name
    names = set()
    for c in facts.closures_of(b):
        for site, st in c.assigns():
            p = st["place"]
            if p["p"] and isinstance(p["p"][-1], dict) and p["p"][-1].get("n") == field and st["rv"]["k"] in ("use", "cast"):
                m = re.match(r"^_1\.(\w+)$", show(strip_refs(expr(c, c.resolve_copy(st["rv"]["op"]))), 6))
                if m:
                    names.add(m.group(1))
    byname = [l for l in b.defs if b.local_name(l) in names]
    work.extend({"k": "copy", "place": {"l": l, "p": []}} for l in byname)
    while work:
        o = b.resolve_copy(work.pop())
        l = op_local(o)
        if l is None or l in cs:
            continue
        cs.add(l)
        for s_, k_, n_ in b.defs.get(l, []):
            if k_ == "assign" and n_["rv"]["k"] in ("use", "cast"):
                work.append(n_["rv"]["op"])
    return cs


def end_guards(body):
    """[(true edge, offset operand)] of the tests that establish `offset >= block.used`: the comparison itself,
    or a call of a helper that returns exactly that comparison of its arguments."""
    out = []
    facts = body.facts
    def is_used(o):
        pb = op_place(o)
        return bool(pb and pb["p"] and isinstance(pb["p"][-1], dict) and pb["p"][-1].get("n") == "used")
    for T in all_tests(body):
        if T.kind == "cmp":
            # X >= used (true) | X < used (false) | used <= X (true) | used > X (false)
            if T.op == "Ge" and is_used(T.b):
                out.append((T.true_edge, T.a))
            elif T.op == "Lt" and is_used(T.b):
                out.append((T.false_edge, T.a))
            elif T.op == "Le" and is_used(T.a):
                out.append((T.true_edge, T.b))
            elif T.op == "Gt" and is_used(T.a):
                out.append((T.false_edge, T.b))
        elif T.kind == "call" and T.site is not None:
            m = _exact_end_helper(facts, T.site.node)
            if m is not None:
                out.append((T.true_edge, T.site.node["args"][m[0]]))
    return out


_PP_CACHE = {}


def _is_persisted_position(body, l):
    """the Option held in local l (or the Option it was `take()`n / copied from) is Some only with a position that was read
    from the persisted index: every Some(..) built for it has a BlockPos field (the result of WalIndex::get) among its origins"""
    from .core.readflags import _value_defs
    key = (id(body), l)
    if key in _PP_CACHE:
        return _PP_CACHE[key]
    _PP_CACHE[key] = False
    roots, work, hops = set(), [l], 0
    while work and hops < 12:
        hops += 1
        x = work.pop()
        if x in roots:
            continue
        roots.add(x)
        for site, rv in _value_defs(body, x):
            if rv["k"] == "call":
                cn = strip_generics(rv["node"].get("callee") or "")
                if re.search(r"Option(::<[^>]*>)?::(take|clone|as_ref|as_mut|copied|cloned|filter)$|mem::(take|replace)$", cn) and rv["node"]["args"]:
                    bl = borrowed_local(body, rv["node"]["args"][0])
                    if bl is None:
                        bl = op_local(body.resolve_copy(rv["node"]["args"][0]))
                    if bl is not None:
                        work.append(bl)
    somes = []
    for x in roots:
        for site, rv in _value_defs(body, x):
            if rv["k"] == "agg" and rv.get("akind") == "adt" and rv.get("variant") == "Some":
                somes.append(rv)
    ok = bool(somes)
    for rv in somes:
        src, _, _ = origins(body, rv["ops"][0], follow_all_calls=True)
        if not any(o.kind == "field" and isinstance(o.what, tuple) and str(o.what[0]).endswith("index::BlockPos") for o in src):
            # `Some((active_block.id, 0))`-style re-initialisations of the same variable are position-preserving
            # only when written under checkpoint; they are judged as ordinary stores where they are used
            if not any(o.kind == "const" for o in src):
                ok = False
    _PP_CACHE[key] = ok
    return ok


def exception_class(body, site, kinds):
    """Return the name of the frozen exception class a *store* effect belongs to, or None."""
    if len(kinds) != 1:
        return None
    kind = next(iter(kinds))
    if not kind.startswith("store:ColReaderInfo."):
        return None
    field = kind.split(".")[-1]
    # hydration
    for T in _tests_with_field(body, "hydrated_from_index"):
        if body.edge_guards(T.false_edge, site.bb):
            return "hydration"
    # fold of a persisted tail position
    if field in ("cur_block_idx", "cur_block_offset"):
        for T in all_tests(body):
            if T.kind != "discr":
                continue
            tl = T.place["l"] if not T.place["p"] else None
            if tl is None and len(T.place["p"]) == 1 and isinstance(T.place["p"][0], dict) and T.place["p"][0].get("o") == "(tuple)":
                # `if let (Some(tail), Some(idx)) = (stale_tail, sealed_idx)`: the component of a tuple built for the match
                sd = body.single_def(T.place["l"])
                if sd and sd[1] == "assign" and sd[2]["rv"]["k"] == "agg" and sd[2]["rv"].get("akind") == "tuple":
                    tl = op_local(body.resolve_copy(sd[2]["rv"]["ops"][T.place["p"][0]["f"]]))
            if tl is not None:
                ty = body.local_ty(tl)
                e = T.variant_edges.get(1)
                if not (e and body.edge_guards(e, site.bb)) or not ty.startswith("std::option::Option<"):
                    continue
                if ty == "std::option::Option<(u64, u64)>" or _is_persisted_position(body, tl):
                    return "fold"
    # exhausted-block advance
    if field in ("cur_block_idx", "cur_block_offset"):
        for edge, off_op in end_guards(body):
            # the offset compared must be the cursor's own (a load of cur_block_offset), not something
            # computed from it: `offset + size of the entry just read >= used` says the block WILL be
            # exhausted once that entry is consumed, which a peek does not do
            reached = _is_cursor_offset_load(body, off_op)
            if not reached and body.edge_guards(edge, site.bb) and guarded(body, site.bb, checkpoint_edges(body)):
                # consuming read: `cursor offset + size of the entry just read >= used` - the entry is being
                # delivered by this very call, so (idx + 1, 0) is the position right behind it
                from .core.symexpr import expr as _e, strip_refs as _sr
                ea = _sr(_e(body, off_op))
                if ea[0] == "Add":
                    osrc, _, _ = origins(body, off_op)
                    if any(o.kind == "call" and o.what.endswith("block::Block::read") for o in osrc):
                        reached = True
            if reached and body.edge_guards(edge, site.bb):
                st = site.node
                rv = st["rv"]
                if rv["k"] == "use":
                    o = body.resolve_copy(rv["op"])
                    if o.get("k") == "const" and o.get("val") == 0 and field == "cur_block_offset":
                        return "advance"
                    l = op_place(o)
                    if l is not None and field == "cur_block_idx":
                        d = body.def_rvalue(l["l"])
                        if d and d[0] == "rv" and d[1]["k"] == "bin" and d[1]["op"] in ("AddWithOverflow", "Add") and const_of(body, d[1]["b"]) == 1:
                            return "advance"
    return None


_IDEM = {}


def mark_exception(facts, body, site, callee, stateful_ok):
    """A call of set_checkpointed_true that is dominated by `shared cursor offset >= block.used`
    (and, in the batch path, by the stateful edge) re-derives a fact established by earlier
    consuming reads (every entry of that block was consumed); it is position-preserving
    bookkeeping provided marks are idempotent (C12.4)."""
    if not callee.endswith("BlockStateTracker::set_checkpointed_true"):
        return None
    if not stateful_ok:
        return None
    if "idem" not in _IDEM:
        from .c12 import idempotent_marks
        _IDEM["idem"] = idempotent_marks(facts)
    if not _IDEM["idem"]:
        return None
    for edge, off_op in end_guards(body):
        if body.edge_guards(edge, site.bb):
            asrc, _, _ = origins(body, site.node["args"][0])
            if _is_cursor_offset_load(body, off_op) and any(o.kind == "field" and o.what[1] == "id" for o in asrc):
                return "exhausted-block mark (idempotent, cursor-justified)"
    return None


def analyse_body(ctx, facts, eff, body, need_stateful, outer_cp=False, outer_st=False, depth=0):
    """Yield effect records of `body`: dict(site, kinds, callee, cp, st, exc)."""
    ctx.saw_body(body)
    cp_edges = checkpoint_edges(body)
    st_edges, witnesses = stateful_edges(body) if need_stateful else ([], [])
    recs = []
    for site, kinds, callee in eff.sites(body):
        cp = outer_cp or guarded(body, site.bb, cp_edges)
        st = outer_st or (guarded(body, site.bb, st_edges) if need_stateful else True)
        if callee and facts.bodies[callee].kind == "Closure" and facts.bodies[callee].parent == body.name:
            # descend: the closure's own guards count
            inner = analyse_body(ctx, facts, eff, facts.bodies[callee], need_stateful, cp, st, depth + 1)
            miss_cp = [r for r in inner if not r["cp"] and not r["exc"]]
            miss_st = [r for r in inner if not r["st"] and not r["exc"]]
            recs.append({"site": site, "kinds": kinds, "callee": callee, "cp": not miss_cp, "st": not miss_st, "exc": None,
                         "inner": inner, "closure": True})
            continue
        exc = exception_class(body, site, kinds) if callee is None else mark_exception(facts, body, site, callee, st)
        recs.append({"site": site, "kinds": kinds, "callee": callee, "cp": cp, "st": st, "exc": exc, "closure": False})
    return recs


def target_inherits(body, facts, site, closure_names):
    """WalIndex::set sites that are dominated by `target != None`, where the non-None values of
    `target` are assigned only inside the commit closure: they inherit the obligations of the
    closure's call sites."""
    for T in all_tests(body):
        if T.kind != "discr" or T.place["p"]:
            continue
        l = T.place["l"]
        ty = body.local_ty(l)
        if "PersistTarget" not in ty:
            continue
        edges = [e for v, e in T.variant_edges.items()]
        if not any(body.edge_guards(e, site.bb) for e in edges):
            continue
        # all defs of l in this body must be the None variant
        ok = True
        for dsite, kind, node in body.defs.get(l, []):
            if kind == "assign" and node["rv"]["k"] == "agg" and node["rv"].get("variant") == "None":
                continue
            if kind == "assign" and node["rv"]["k"] == "use":
                # moves of the enum (match scrutinee copies) are fine
                continue
            ok = False
        if ok:
            return True
    return False


def check_read_fn(ctx, facts, eff, fn_name, need_stateful):
    body = facts.body(fn_name)
    F = common.short_fn(body.name)
    recs = analyse_body(ctx, facts, eff, body, need_stateful)
    n_guarded = 0
    n_exc = 0
    closure_names = [r["callee"] for r in recs if r.get("closure")]
    for r in recs:
        site = r["site"]
        what = ("call " + common.short_fn(r["callee"])) if r["callee"] else ("store " + sorted(r["kinds"])[0].split(":", 1)[1])
        kinds = sorted(r["kinds"])
        if r["exc"]:
            n_exc += 1
            ctx.ok("C02.1", F, "%s is a frozen exception (%s)" % (what, r["exc"]), body.relfile, site.line)
            continue
        missing = []
        if not r["cp"]:
            missing.append("checkpoint")
        if need_stateful and not r["st"]:
            if r["callee"] and any(k.startswith("mut:WalIndex") for k in r["kinds"]) and r["cp"] and target_inherits(body, facts, site, closure_names):
                pass
            else:
                missing.append("start_offset.is_none()")
        if missing:
            if r.get("closure"):
                inner_bad = [x for x in r["inner"] if (not x["cp"] or (need_stateful and not x["st"])) and not x["exc"]]
                detail = "the closure performs %s; these are not guarded by %s on this call path" % (
                    sorted({k.split(":", 1)[1] for x in inner_bad for k in x["kinds"]})[:6], " and ".join(missing))
            else:
                detail = "effects %s are reachable with %s not established" % (kinds[:4], " / ".join(missing))
            ctx.violate("C02.1", F, "%s not under %s" % (what, "+".join(missing)), body.relfile, site.line,
                        "a non-consuming read can reach `%s`: %s" % (what, detail))
        else:
            n_guarded += 1
            ctx.ok("C02.1", F, "%s is guarded by checkpoint%s" % (what, " and stateful" if need_stateful else ""), body.relfile, site.line, ",".join(kinds)[:120])
    return body, recs, n_guarded, n_exc


def check_stateless_readonly(ctx, facts, fn_name="batch_read_for_topic"):
    body = facts.body(fn_name)
    F = common.short_fn(body.name)
    keys = flag_places(body, "start_offset")
    some_edges = option_edges(body, keys, want_none=False)
    if not some_edges:
        ctx.anchor_missing("C02.2", "start_offset = Some(..) arm in " + F)
        return
    n = 0
    reads = 0
    for s in body.calls():
        cn = callee_name(s.node)
        dty = s.node.get("dest_ty", "")
        if not guarded(body, s.bb, some_edges):
            continue
        if re.search(r"RwLock::write$|RwLock::try_write$", cn) and "ColReaderInfo" in dty and "HashMap" not in dty:
            ctx.violate("C02.2", F, "write-lock-in-stateless-arm", body.relfile, s.line, "the offset-addressed branch takes a write guard on the column state")
            n += 1
        elif re.search(r"DerefMut>::deref_mut$|::deref_mut$", cn) and "ColReaderInfo" in (s.node.get("ret_ty", "") + dty) and "HashMap" not in dty:
            ctx.violate("C02.2", F, "deref-mut-in-stateless-arm", body.relfile, s.line, "the offset-addressed branch mutably dereferences column state")
            n += 1
        elif re.search(r"RwLock::read$", cn) and "ColReaderInfo" in dty:
            reads += 1
    if n == 0:
        ctx.ok("C02.2", F, "offset-addressed arm acquires only read guards on column state (%d)" % reads, body.relfile, body.line)
    ctx.floor("C02.2", "read-guard acquisitions in the offset-addressed arm", reads, 1)


_EFF = {}


def _callee_stored_fields(facts, term):
    """(owner suffix, field) pairs the callee of this call may store to, from its effect summary;
    None when the callee has no summary (unknown)."""
    if id(facts) not in _EFF:
        _EFF[id(facts)] = Effects(facts)
    eff = _EFF[id(facts)]
    k = eff._byname.get(strip_generics(term.get("callee") or ""))
    if k is None:
        return None
    out = set()
    for kind in eff.summary.get(k, ()):
        m = re.match(r"^store:([A-Za-z0-9_]+)\.([A-Za-z0-9_]+)$", kind)
        if m:
            out.add((m.group(1), m.group(2)))
        elif kind.startswith(("mut:", "store:")):
            return None   # mutation of something that is not a plain tracked field: stay coarse
    return out


def check_ni(ctx, facts, fn_name):
    body = facts.body(fn_name)
    F = common.short_fn(body.name)
    cp = body.arg_local("checkpoint")
    if cp is None:
        ctx.anchor_missing("C02.3", "argument checkpoint of " + F)
        return
    t = Taint(body, [cp], track_memory=False)
    # data slice of the returned value
    ret_src, ret_locals, _ = origins(body, 0, follow_all_calls=True)
    ret_locals = set(ret_locals)
    bad = False
    for bb, (region, join) in sorted(t.branches.items()):
        line = body.term(bb)["line"]
        rets = [x for x in region if body.term(x)["k"] == "return"]
        if join == -1 or rets:
            ctx.violate("C02.3", F, "checkpoint-dependent-branch-does-not-rejoin", body.relfile, line,
                        "which return is taken depends on `checkpoint` (branch at line %s does not re-join before a return)" % line)
            bad = True
            continue
        # writes in region to locals of the return slice
        hit = None
        for b in region:
            blk = body.blocks[b]
            for st in blk["stmts"]:
                if st["k"] == "assign" and not any(e == "*" for e in st["place"]["p"]) and st["place"]["l"] in ret_locals and st["place"]["l"] != 0:
                    # drop-flag style constants are in the slice only through control; ignore unit/bool temps that are not read by the return slice
                    hit = (st["place"]["l"], st["line"])
            tt = blk["term"]
            if tt["k"] == "call" and not tt["dest"]["p"] and tt["dest"]["l"] in ret_locals:
                hit = (tt["dest"]["l"], tt["line"])
            if tt["k"] == "call" and not re.search(r"::(deref_mut|deref|as_mut|as_deref_mut|borrow_mut)$", strip_generics(tt.get("callee") or "")):
                # (re-borrowing a guard mutably does not write through it; what is done with the
                # re-borrow is judged at the call that receives it)
                flds = _callee_stored_fields(facts, tt)
                for a in tt["args"]:
                    al = op_local(a)
                    if al is None or "&mut" not in body.local_ty(al):
                        continue
                    tgt = borrowed_local(body, a)
                    if flds is not None:
                        # field-sensitive: the callee's effect summary says which fields it stores to; only
                        # loads of those fields can carry the mutation into the returned value (this also
                        # covers a mutation made through a re-borrow of a guard)
                        for owner, fld in flds:
                            for ls in body.field_loads(owner, fld):
                                node = ls.node
                                dl = node["place"]["l"] if ls.idx != "term" else (node.get("dest") or {}).get("l")
                                if dl in ret_locals:
                                    hit = (tgt if tgt is not None else al, tt["line"])
                        continue
                    if tgt is not None and tgt in ret_locals and tgt != al:
                        # forward, flow-sensitive: does the mutated storage reach the returned value?
                        fw = Taint(body, [], track_memory=True, mem_seeds={tgt: {(b, "term")}})
                        if 0 in fw.t:
                            hit = (tgt, tt["line"])
        if hit:
            ctx.violate("C02.3", F, "returned-data-written-under-checkpoint", body.relfile, hit[1],
                        "local _%d (%s) is written in a region controlled by `checkpoint` and flows into the returned value" % (hit[0], body.local_name(hit[0])))
            bad = True
        else:
            ctx.ok("C02.3", F, "checkpoint-controlled region re-joins and does not define returned data", body.relfile, line, "region of %d blocks" % len(region))
    tainted_in_ret = sorted(l for l in (t.t & ret_locals) if l != cp and body.local_name(l))
    if tainted_in_ret:
        ctx.violate("C02.3", F, "returned-data-depends-on-checkpoint", body.relfile, body.line,
                    "locals %s depend on `checkpoint` and flow into the returned value" % [body.local_name(l) for l in tainted_in_ret][:5])
    elif (t.t & ret_locals) - {cp}:
        # unnamed temps
        ls = sorted((t.t & ret_locals) - {cp})
        ctx.violate("C02.3", F, "returned-data-depends-on-checkpoint", body.relfile, body.line, "temporaries %s depend on `checkpoint` and flow into the returned value" % ls[:5])
    else:
        ctx.ok("C02.3", F, "no checkpoint-dependent local in the data slice of the return value", body.relfile, body.line, "%d tainted locals, %d locals in return slice" % (len(t.t), len(ret_locals)))
    ctx.floor("C02.3", "checkpoint-dependent branches in " + F, len(t.branches), 1)


def run(ctx):
    for k, v in RULES.items():
        ctx.rule(k, v)
    facts = common.mir(ctx, "walrus_rust")
    eff = Effects(facts)
    b1, r1, g1, e1 = check_read_fn(ctx, facts, eff, "read_next", need_stateful=False)
    b2, r2, g2, e2 = check_read_fn(ctx, facts, eff, "batch_read_for_topic", need_stateful=True)
    ctx.floor("C02.1", "flag-guarded effect sites in read_next", g1, 2)
    ctx.floor("C02.1", "flag-guarded effect sites in batch_read_for_topic", g2, 1)
    ctx.floor("C02.1", "effect sites found in the read paths", len(r1) + len(r2), 10)
    check_stateless_readonly(ctx, facts)
    check_ni(ctx, facts, "read_next")
    check_ni(ctx, facts, "batch_read_for_topic")
    # C02.4 = C01.5: the one place outside the read functions where the shared cursor is rewritten
    before = len(ctx.obligations)
    from .c01 import check_seal_fold
    check_seal_fold(ctx, facts)
    for o in ctx.obligations[before:]:
        if o["rule"] == "C01.5":
            o["rule"] = "C02.4"
            if "key" in o:
                o["key"] = o["key"].replace("C01.5", "C02.4")
    ctx.assume("observable state = ColReaderInfo fields, WalIndex.store (+ its file), Walrus.topic_entry_counts, BlockState/FileState trackers, deletion channel, filesystem; "
               "creating an empty default ColReaderInfo for an unknown topic is position-neutral and not counted")
    ctx.assume("C02.3 tracks locals only: flows through memory written under `checkpoint` and read back in the same call are not followed")
    ctx.assume("the clause 'offset-addressed reads return only bytes of appended entries in order' is NOT decided (value-level scan arithmetic)")
    return {
        "explanation": "effect analysis on MIR: primitive effects (field stores through pointers, atomic/map mutation with tracked provenance, channel sends, filesystem mutation) "
                       "are summarised over the crate-local call graph; every effect site of the two read entry points and their closures must be edge-dominated by the "
                       "checkpoint (and stateful) flag edges or fall in a frozen, position-preserving exception class; plus a read-only-by-type rule for the offset-addressed arm "
                       "and a locals-only non-interference analysis of the return value with respect to `checkpoint`.",
    }
