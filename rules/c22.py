"""C22 - every acknowledged PUT is delivered by GET exactly once (partial: bookkeeping pairings, syntax tree)."""
import re
from .core import ast as A

INTERNAL = "distributed-walrus/src/controller/internal.rs"
BUCKET = "distributed-walrus/src/bucket.rs"
CTRL = "distributed-walrus/src/controller/mod.rs"
MONITOR = "distributed-walrus/src/monitor.rs"

RULES = {
    "C22.1": "count what was acknowledged: in forward_append, on the Ok arm of append_with_retry exactly one record_append(&wal_key, 1) is executed and it precedes maybe_rollover; "
             "InternalResp::Ok is produced only on that arm; the Err arm records nothing; record_append adds exactly its argument to the key's counter",
    "C22.2": "seal with the tracked count of that very segment: in maybe_rollover and check_rollovers the sealed_segment_entry_count of the proposed RolloverTopic is the identifier "
             "bound from tracked_entry_count(&wal) with wal = wal_key(topic, segment) built from the same topic/segment that name the command, and the proposal is only reached when "
             "`count < limit` is false",
    "C22.3": "reader bookkeeping in read_one_for_topic: delivered_in_segment += 1 occurs exactly on the paths that return Ok(Some(entry)); every `segment += 1` is paired with "
             "`delivered_in_segment = 0` and is under `segment < current_segment` and the `delivered >= sealed_count` test; `return Ok(None)` is only reachable after a read of the "
             "cursor's own segment returned no entry; read_one_for_topic_shared holds the cursor map's lock across the whole read",
    "C22.5": "an append that passed the lease test cannot be overtaken by the sealing of its segment (= C23.1): the lease test and the engine append are one critical section with "
             "respect to lease updates. Otherwise a producer that has passed the test and waits for the per-key mutex writes into the segment after another producer's append "
             "sealed it with the count captured before; the entry is acknowledged and no GET returns it",
    "C22.6": "a sealing names the segment it seals: the count a node proposes (C22.2) is a snapshot of its in-memory counter taken outside the segment's write critical section, "
             "so two overlapping producers - or the monitor racing maybe_rollover - both propose a rollover for the same segment. MetadataCmd::RolloverTopic must therefore carry "
             "the id of the segment it seals and Metadata::apply must reject a command whose segment is not the current one; without it the second proposal seals the NEW segment "
             "with the old segment's count while the first sealed the old one short: an acknowledged entry lies beyond the sealed count and no GET returns it",
    "C22.7": "a revoked lease is revoked (= C23.4): Storage::update_leases leaves the lease set untouched only when it equals the expected set, and otherwise drops every lease that "
             "is not expected. A node that keeps the lease of a segment it has handed over acknowledges appends routed to it by a lagging peer; they land behind the sealed count and "
             "no GET returns them",
    "C22.4": "no acknowledged append into a segment this node knows to be sealed (= C23.2's path clause): every path of forward_append that reaches the append has executed "
             "self.update_leases().await before it. Readers leave a sealed segment after sealed_count entries, so an entry acknowledged into it afterwards is never returned by a GET",
}


def _arm(m, prefix):
    for a in m["arms"]:
        if a["pat"].replace(" ", "").startswith(prefix):
            return a
    return None


def run(ctx):
    for k, v in RULES.items():
        ctx.rule(k, v)
    files = A.load(ctx, [INTERNAL, CTRL, MONITOR, BUCKET])
    try:
        fa = files[INTERNAL].fn("forward_append")
        ra = files[CTRL].fn("record_append")
        mr = files[CTRL].fn("maybe_rollover")
        cr = files[MONITOR].fn("check_rollovers")
        r1 = files[CTRL].fn("read_one_for_topic")
        rs = files[CTRL].fn("read_one_for_topic_shared")
        tec = files[CTRL].fn("tracked_entry_count")
    except A.AnchorMissingAst as e:
        ctx.anchor_missing("C22.anchor", str(e))
        return {"explanation": "anchor missing"}
    for nm, f_, rel in (("forward_append", fa, INTERNAL), ("record_append", ra, CTRL), ("maybe_rollover", mr, CTRL), ("check_rollovers", cr, MONITOR),
                       ("read_one_for_topic", r1, CTRL), ("read_one_for_topic_shared", rs, CTRL)):
        ctx.saw_fn(nm, rel, len(list(A.walk(f_["body"]))))
    # ---- C22.1 -----------------------------------------------------------------------
    F = "NodeController::forward_append"
    # Every path of forward_append is classified by what append_with_retry returned on it - the arm of a `match`, or
    # the branch of an `if let Err(..) = ..` / `let Ok(..) = .. else` - and judged: an acknowledged append is counted
    # exactly once, with 1, before the rollover check, and only such a path answers InternalResp::Ok
    def _outcome(p):
        for cn, br in p.conds:
            scrut = None
            pat = None
            if cn.get("k") == "match" and isinstance(br, tuple) and br[0] == "arm":
                scrut, pat = cn.get("e"), br[2]
            elif cn.get("k") == "if" and isinstance(cn.get("cond"), dict) and cn["cond"].get("k") == "letcond":
                scrut, pat = cn["cond"].get("e"), cn["cond"].get("pat")
                if scrut is not None and "append_with_retry" in A.text(A.unwrap(scrut)) and pat:
                    pt = pat.replace(" ", "")
                    if pt.startswith("Err("):
                        return "err" if br == "then" else "ok"
                    if pt.startswith("Ok("):
                        return "ok" if br == "then" else "err"
                continue
            elif cn.get("k") == "let" and br in ("let-ok", "let-else"):
                scrut, pat = cn.get("init"), cn.get("pat")
                if scrut is not None and "append_with_retry" in A.text(A.unwrap(scrut)) and pat:
                    pt = pat.replace(" ", "")
                    if pt.startswith("Ok("):
                        return "ok" if br == "let-ok" else "err"
                    if pt.startswith("Err("):
                        return "err" if br == "let-ok" else "ok"
                continue
            if scrut is not None and pat and "append_with_retry" in A.text(A.unwrap(scrut)):
                pt = pat.replace(" ", "")
                if pt.startswith("Ok("):
                    return "ok"
                if pt.startswith("Err("):
                    return "err"
        return None
    try:
        fpaths = A.block_paths(fa["body"])
    except A.TooManyPaths:
        fpaths = None
    if fpaths is None:
        ctx.violate("C22.1", F, "too-many-paths", INTERNAL, fa["line"], "forward_append has too many paths to enumerate: fail closed")
    elif not any(_outcome(p) for p in fpaths):
        ctx.anchor_missing("C22.1", "a branch on the result of self.append_with_retry(..).await in forward_append")
    else:
        bad_cnt = bad_order = bad_ok = bad_err = None
        n_okp = 0
        for p in fpaths:
            oc = _outcome(p)
            evs = [nd for k_, nd in p.events if isinstance(nd, dict)]
            recs = [nd for k_, nd in p.events if k_ == "mcall" and A.is_mcall(nd, "record_append")]
            rolls = [i for i, (k_, nd) in enumerate(p.events) if k_ == "mcall" and A.is_mcall(nd, "maybe_rollover")]
            reci = [i for i, (k_, nd) in enumerate(p.events) if k_ == "mcall" and A.is_mcall(nd, "record_append")]
            says_ok = any(nd.get("k") == "path" and nd.get("p") == "InternalResp::Ok" for k_, nd0 in p.events for nd in A.walk(nd0)) if False else None
            if oc == "ok":
                n_okp += 1
                good = len(recs) == 1 and len(recs[0]["args"]) == 2 and recs[0]["args"][1].get("int") == 1 and re.match(r"^&\w+$", A.text(recs[0]["args"][0]))
                if not good and bad_cnt is None:
                    bad_cnt = (recs[0]["line"] if recs else fa["line"], [A.text(r_) for r_ in recs])
                if good and rolls and rolls[0] < reci[0] and bad_order is None:
                    bad_order = p.events[rolls[0]][1]["line"]
            elif oc == "err":
                if recs and bad_err is None:
                    bad_err = recs[0]["line"]
        if bad_cnt:
            ctx.violate("C22.1", F, "acknowledged-append-not-counted-once", INTERNAL, bad_cnt[0], "on a path on which the append succeeded record_append is called as %s (expected exactly one record_append(&key, 1))" % (bad_cnt[1] or "never"))
        else:
            ctx.ok("C22.1", F, "an acknowledged append is recorded exactly once with count 1 (%d path(s))" % n_okp, INTERNAL, fa["line"])
        if bad_order:
            ctx.violate("C22.1", F, "rollover-check-before-count", INTERNAL, bad_order, "maybe_rollover runs before the append is counted: the sealed count misses this entry")
        elif not bad_cnt:
            ctx.ok("C22.1", F, "the append is counted before the rollover check", INTERNAL, fa["line"])
        if bad_err:
            ctx.violate("C22.1", F, "acknowledged-append-not-counted-once", INTERNAL, bad_err, "record_append is called on a path on which the append failed")
        # InternalResp::Ok only where the append succeeded: every occurrence lies in code that only `ok` paths execute
        oks = [n for n in A.walk(fa["body"]) if n.get("k") == "path" and n.get("p") == "InternalResp::Ok"]
        err_lines = set()
        for p in fpaths:
            if _outcome(p) == "err":
                for k_, nd in p.events:
                    for x in A.walk(nd) if isinstance(nd, dict) else []:
                        if x.get("k") == "path" and x.get("p") == "InternalResp::Ok":
                            err_lines.add(x.get("line"))
        if oks and not err_lines:
            ctx.ok("C22.1", F, "InternalResp::Ok is produced only where the append succeeded", INTERNAL, oks[0]["line"])
        else:
            ctx.violate("C22.1", F, "ok-response-outside-ok-arm", INTERNAL, fa["line"], "InternalResp::Ok is produced on a path where the append did not succeed")
    # record_append body: *entry += num_entries
    adds = [n for n in A.walk(ra["body"]) if n.get("k") == "binary" and n.get("op") == "+="]
    pn = [p["name"] for p in ra["params"] if p["name"] != "self"]
    if len(adds) == 1 and A.text(adds[0]["r"]) == pn[-1]:
        ctx.ok("C22.1", "NodeController::record_append", "adds exactly its argument to the key's counter", CTRL, adds[0]["line"])
    else:
        ctx.violate("C22.1", "NodeController::record_append", "counter-arithmetic", CTRL, ra["line"], "record_append does not add exactly its argument (%s)" % [A.text(a) for a in adds])
    ent = [n for n in A.walk(ra["body"]) if A.is_mcall(n, "entry")]
    if ent and pn and pn[0] in A.text(ent[0]["args"][0]):
        ctx.ok("C22.1", "NodeController::record_append", "the counter is keyed by the wal key argument", CTRL, ent[0]["line"])
    else:
        ctx.violate("C22.1", "NodeController::record_append", "counter-key", CTRL, ra["line"], "record_append does not key the counter by its wal key argument")
    g = [n for n in A.walk(tec["body"]) if A.is_mcall(n, "get")]
    if g and A.text(g[0]["args"][0]) == [p["name"] for p in tec["params"] if p["name"] != "self"][0]:
        ctx.ok("C22.1", "NodeController::tracked_entry_count", "reads the counter of the given wal key", CTRL, g[0]["line"])
    else:
        ctx.violate("C22.1", "NodeController::tracked_entry_count", "tracked-count-key", CTRL, tec["line"], "tracked_entry_count does not read the counter of its argument")

    # ---- C22.2 -----------------------------------------------------------------------
    def check_rollover_fn(fn, rel, F, topic_id, seg_id):
        structs = [n for n in A.walk(fn["body"]) if n.get("k") == "struct" and n["path"].endswith("RolloverTopic")]
        if len(structs) != 1:
            ctx.anchor_missing("C22.2", "RolloverTopic construction in " + F)
            return
        st = structs[0]
        flds = {f_["name"]: A.text(f_["e"]) for f_ in st["fields"]}
        cnt_id = flds.get("sealed_segment_entry_count")
        # let <cnt_id> = ...tracked_entry_count(&<wal>).await
        lets = {s_["pat"].replace("mut ", "").strip(): s_ for s_ in A.walk(fn["body"]) if s_.get("k") == "let" and s_.get("init") is not None}
        cl = lets.get(cnt_id)
        ok = False
        if cl is not None:
            t = A.text(cl["init"])
            m = re.search(r"tracked_entry_count\(&(\w+)\)\.await$", t)
            if m:
                wl = lets.get(m.group(1))
                if wl is not None:
                    wt = A.text(wl["init"])
                    m2 = re.match(r"^wal_key\(&?(\w+),(\w+)\)$", wt)
                    name_t = flds.get("name", "")
                    if m2 and m2.group(1) == topic_id and m2.group(2) == seg_id and re.match(r"^%s\.(to_string|clone)\(\)$" % re.escape(topic_id), name_t):
                        ok = True
        if ok:
            ctx.ok("C22.2", F, "the sealed count is tracked_entry_count(wal_key(%s, %s)) of the topic named in the command" % (topic_id, seg_id), rel, st["line"])
        else:
            ctx.violate("C22.2", F, "sealed-count-not-the-tracked-count", rel, st["line"],
                        "RolloverTopic{name: %s, sealed_segment_entry_count: %s} is not the tracked count of wal_key(%s, %s)" % (flds.get("name"), cnt_id, topic_id, seg_id))
        # threshold guard: an `if <cnt> < limit { return/continue }` before the proposal
        cid = re.escape(cnt_id or "?")
        # `if cnt < limit { return }`, `if !(cnt >= limit) { return }`, or the comparison held in a named bool first
        below = [r"^%s<[^=]" % cid, r"^!\(%s>=.*\)$" % cid]
        atleast = [r"^%s>=" % cid, r"^!\(%s<[^=].*\)$" % cid]
        flag_below, flag_atleast = set(), set()
        for lt_ in A.walk(fn["body"]):
            if lt_.get("k") == "let" and lt_.get("init") is not None:
                t_ = A.text(lt_["init"])
                nm_ = lt_["pat"].replace("mut ", "").strip()
                if any(re.match(r_, t_) for r_ in below):
                    flag_below.add(nm_)
                if any(re.match(r_, t_) for r_ in atleast):
                    flag_atleast.add(nm_)

        def says_below(c):
            return any(re.match(r_, c) for r_ in below) or c in flag_below or (c.startswith("!") and c[1:].strip("()") in flag_atleast)
        guards = [n for n in A.walk(fn["body"]) if n.get("k") == "if" and says_below(A.text(n["cond"]))]
        good = False
        for gd in guards:
            exits = [x for x in A.walk(gd["then"]) if x.get("k") in ("return", "continue")]
            if exits and gd["line"] < st["line"]:
                good = True
        if good:
            ctx.ok("C22.2", F, "the proposal is reached only when `%s < limit` is false" % cnt_id, rel, guards[0]["line"])
        else:
            ctx.violate("C22.2", F, "rollover-without-threshold", rel, st["line"], "a rollover is proposed without the `count < limit` early exit")
        props = [n for n in A.walk(fn["body"]) if A.is_mcall(n, "propose_metadata")]
        if props and props[0]["line"] > st["line"]:
            ctx.ok("C22.2", F, "the command built is the one proposed", rel, props[0]["line"])

    mp = [p["name"] for p in mr["params"] if p["name"] != "self"]
    check_rollover_fn(mr, CTRL, "NodeController::maybe_rollover", mp[0], mp[1])
    fors = [n for n in A.walk(cr["body"]) if n.get("k") == "for" and "owned" in A.text(n["iter"])]
    if fors:
        m = re.match(r"^\((\w+),(\w+)\)$", fors[0]["pat"].replace(" ", ""))
        if m:
            check_rollover_fn({"body": fors[0]["body"]}, MONITOR, "Monitor::check_rollovers", m.group(1), m.group(2))
        else:
            ctx.anchor_missing("C22.2", "(topic, segment) pattern of the owned-topics loop")
    else:
        ctx.anchor_missing("C22.2", "owned-topics loop in check_rollovers")

    # ---- C22.3 -----------------------------------------------------------------------
    F = "NodeController::read_one_for_topic"
    loops = [n for n in A.walk(r1["body"]) if n.get("k") == "loop"]
    if len(loops) != 1:
        ctx.anchor_missing("C22.3", "the segment-walk loop of read_one_for_topic")
        return {"explanation": "anchor missing"}
    paths = A.block_paths(loops[0]["body"])
    n_ret_some = n_ret_none = 0
    seen_bad_arms = set()
    for p in paths:
        incs = [n for n in A.events_of(p, "assign") if n.get("op") == "+=" and A.text(n["l"]).endswith("delivered_in_segment")]
        seg_incs = [n for n in A.events_of(p, "assign") if n.get("op") == "+=" and A.text(n["l"]).endswith(".segment")]
        resets = [n for n in A.events_of(p, "assign") if n.get("k") == "assign" and A.text(n["lhs"]).endswith("delivered_in_segment") and A.text(n["rhs"]) == "0"]
        rets = A.events_of(p, "return")
        ret_t = A.text(rets[-1].get("e")) if rets and rets[-1].get("e") else ""
        line = (rets[-1]["line"] if rets else loops[0]["line"])
        if p.exit == "return" and ret_t.startswith("Ok(Some("):
            n_ret_some += 1
            if len(incs) == 1:
                ctx.ok("C22.3", F, "a delivered entry is counted exactly once", CTRL, line)
            else:
                ctx.violate("C22.3", F, "delivery-not-counted", CTRL, line, "a path returns an entry with %d increments of delivered_in_segment" % len(incs))
        else:
            if incs:
                ctx.violate("C22.3", F, "count-without-delivery", CTRL, incs[0]["line"], "delivered_in_segment is incremented on a path that does not return an entry (exit: %s)" % p.exit)
        if seg_incs:
            # paired reset and guards
            conds = [A.text(c["cond"]) for c, br in p.conds if c.get("k") == "if" and br == "then"]
            has_lt = any(re.search(r"\.segment<current_segment$", c) for c in conds)
            has_ge = any(re.search(r"delivered_in_segment>=sealed_count$", c) for c in conds)
            if len(seg_incs) == len(resets) and has_lt and has_ge:
                ctx.ok("C22.3", F, "segment advance is paired with a counter reset under `segment < current` and `delivered >= sealed_count`", CTRL, seg_incs[0]["line"])
            else:
                ctx.violate("C22.3", F, "segment-advance-unguarded", CTRL, seg_incs[0]["line"],
                            "cursor.segment += 1 on a path with %d resets, guards: segment<current=%s, delivered>=sealed=%s" % (len(resets), has_lt, has_ge))
        # a read that failed is not a read that found nothing: every arm that is not the successful result of
        # forward_read / forward_read_remote leaves with an error
        for cn_, br_ in p.conds:
            if cn_.get("k") == "match" and isinstance(br_, tuple) and br_[0] == "arm" and "forward_read" in A.text(cn_["e"]):
                pat_ = str(br_[2]).replace(" ", "")
                good_arm = pat_.startswith("Ok(") or pat_.startswith("InternalResp::ReadResult")
                if not good_arm and not (p.exit == "err" or (p.exit == "return" and ret_t.startswith("Err("))) and (cn_.get("line"), pat_) not in seen_bad_arms:
                    seen_bad_arms.add((cn_.get("line"), pat_))
                    ctx.violate("C22.3", F, "read-failure-treated-as-empty", CTRL, cn_.get("line"),
                                "the arm `%s` of the read's result goes on as if the read had returned no entry: for a sealed segment `no entry` means fully consumed, so one failed "
                                "(forwarded) read moves the cursor past every undelivered entry of the segment" % pat_[:50])
        if p.exit == "return" and ret_t == "Ok(None)":
            n_ret_none += 1
            reads = [n for n in A.events_of(p, "mcall") if n["method"] in ("forward_read", "forward_read_remote")]
            if reads:
                ctx.ok("C22.3", F, "EMPTY is answered only after a read of the cursor's segment returned nothing", CTRL, line)
            else:
                ctx.violate("C22.3", F, "empty-without-read", CTRL, line, "Ok(None) is returned on a path that did not read the cursor's segment")
    ctx.floor("C22.3", "paths returning an entry", n_ret_some, 1)
    ctx.floor("C22.3", "paths returning EMPTY", n_ret_none, 1)
    # the read uses the cursor's own segment key
    wl = [s_ for s_ in A.walk(loops[0]["body"]) if s_.get("k") == "let" and s_.get("init") is not None and A.text(s_["init"]).startswith("wal_key(")]
    if wl and re.match(r"^wal_key\(topic,cursor\.segment\)$", A.text(wl[0]["init"])):
        ctx.ok("C22.3", F, "reads wal_key(topic, cursor.segment)", CTRL, wl[0]["line"])
    else:
        ctx.violate("C22.3", F, "read-key", CTRL, r1["line"], "the read does not use wal_key(topic, cursor.segment)")
    # shared: guard bound before, used after
    st = rs["body"]["stmts"]
    g_let = [s_ for s_ in st if s_.get("k") == "let" and "read_cursors.lock().await" in A.text(s_.get("init") or {})]
    call = [n for n in A.walk(rs["body"]) if A.is_mcall(n, "read_one_for_topic")]
    if g_let and call and g_let[0]["pat"].strip() not in ("_",) and g_let[0]["line"] < call[0]["line"]:
        gname = g_let[0]["pat"].replace("mut ", "").strip()
        cur_let = [s_ for s_ in st if s_.get("k") == "let" and s_.get("init") is not None and A.text(s_["init"]).startswith(gname + ".entry(")]
        if cur_let and A.text(call[0]["args"][1]) == cur_let[0]["pat"].strip():
            ctx.ok("C22.3", "NodeController::read_one_for_topic_shared", "the cursor map lock is held across the whole read and the cursor passed is the map's entry", CTRL, call[0]["line"])
        else:
            ctx.violate("C22.3", "NodeController::read_one_for_topic_shared", "shared-cursor", CTRL, rs["line"], "the shared read does not pass the locked map's cursor entry")
    else:
        ctx.violate("C22.3", "NodeController::read_one_for_topic_shared", "cursor-lock-not-held", CTRL, rs["line"], "the cursor map's lock is not held across the read")
    from .c23 import check_lease_refresh
    check_lease_refresh(ctx, files, "C22.4")
    from .c23 import check_lease_critical_section, check_lease_set_exact
    check_lease_critical_section(ctx, files, "C22.5")
    check_lease_set_exact(ctx, files, "C22.7")
    # ---- C22.6 -----------------------------------------------------------------------
    META = "distributed-walrus/src/metadata.rs"
    mf = A.load(ctx, [META])[META]
    try:
        en = mf.item("enum", "MetadataCmd")
        ap = mf.fn("apply")
    except A.AnchorMissingAst as e:
        ctx.anchor_missing("C22.6", str(e))
        en = None
    if en is not None:
        ctx.saw_fn("Metadata::apply", META, len(list(A.walk(ap["body"]))))
        rv = [v for v in en["variants"] if v["name"] == "RolloverTopic"]
        if not rv:
            ctx.anchor_missing("C22.6", "MetadataCmd::RolloverTopic")
        else:
            fields = [f_ if isinstance(f_, str) else f_.get("name") for f_ in (rv[0].get("fields") or [])]
            seg = [f_ for f_ in fields if f_ and re.search(r"seg", f_) and not re.search(r"count|entries|offset", f_)]
            checked = False
            if seg:
                # apply compares it with the topic's current segment before sealing
                for n in A.walk(ap["body"]):
                    if isinstance(n, dict) and n.get("k") == "binary" and n.get("op") in ("==", "!="):
                        t = A.text(n)
                        if any(re.search(r"\b%s\b" % re.escape(s_), t) for s_ in seg) and "current_segment" in t:
                            checked = True
            if seg and checked:
                ctx.ok("C22.6", "MetadataCmd::RolloverTopic", "the command names the segment it seals (%s) and apply compares it with current_segment" % ",".join(seg), META, rv[0].get("line"))
            else:
                ctx.violate("C22.6", "MetadataCmd::RolloverTopic", "rollover-does-not-name-the-segment", META, rv[0].get("line"),
                            "RolloverTopic carries %s: %s. A second proposal for a segment that was already sealed (two overlapping producers, or the monitor racing maybe_rollover) seals "
                            "the segment that is current when it is applied, with a count that belongs to the older one"
                            % (fields, "no segment id" if not seg else "a segment id that apply does not compare with current_segment"))
    ctx.assume("NOT decided (explicitly): what happens when an append is acknowledged between the moment a count is captured and the moment the rollover carrying it is applied, or when two "
               "rollovers fire for one threshold - these are interleavings of a distributed protocol in a crate that cannot be type-checked here")
    return {
        "explanation": "bookkeeping pairings decided on the syntax trees of forward_append, record_append, maybe_rollover, check_rollovers and read_one_for_topic (path enumeration of the "
                       "reader's loop body): without them the property fails on every schedule; the interleaving clauses are not decided.",
    }
