"""C22 - every acknowledged PUT is delivered by GET exactly once (partial: bookkeeping pairings, syntax tree)."""
import re
from .core import ast as A

INTERNAL = "distributed-walrus/src/controller/internal.rs"
BUCKET = "distributed-walrus/src/bucket.rs"
CTRL = "distributed-walrus/src/controller/mod.rs"
MONITOR = "distributed-walrus/src/monitor.rs"

RULES = {
    "C22.1": "count what was acknowledged: in forward_append, on the Ok arm of append_with_retry exactly one record_append(&wal_key, 1) is executed and it precedes maybe_rollover; "
             "InternalResp::Ok is produced only on that arm; the Err arm records nothing; record_append adds exactly its argument to the key's counter",
    "C22.2": "seal with the tracked count of that very segment: in maybe_rollover and check_rollovers the sealed_segment_entry_count of the proposed RolloverTopic is the identifier "
             "bound from tracked_entry_count(&wal) with wal = wal_key(topic, segment) built from the same topic/segment that name the command, and the proposal is only reached when "
             "`count < limit` is false",
    "C22.3": "reader bookkeeping in read_one_for_topic: delivered_in_segment += 1 occurs exactly on the paths that return Ok(Some(entry)); every `segment += 1` is paired with "
             "`delivered_in_segment = 0` and is under `segment < current_segment` and the `delivered >= sealed_count` test; `return Ok(None)` is only reachable after a read of the "
             "cursor's own segment returned no entry; read_one_for_topic_shared holds the cursor map's lock across the whole read",
    "C22.5": "an append that passed the lease test cannot be overtaken by the sealing of its segment (= C23.1): the lease test and the engine append are one critical section with "
             "respect to lease updates. Otherwise a producer that has passed the test and waits for the per-key mutex writes into the segment after another producer's append "
             "sealed it with the count captured before; the entry is acknowledged and no GET returns it",
    "C22.4": "no acknowledged append into a segment this node knows to be sealed (= C23.2's path clause): every path of forward_append that reaches the append has executed "
             "self.update_leases().await before it. Readers leave a sealed segment after sealed_count entries, so an entry acknowledged into it afterwards is never returned by a GET",
}


def _arm(m, prefix):
    for a in m["arms"]:
        if a["pat"].replace(" ", "").startswith(prefix):
            return a
    return None


def run(ctx):
    for k, v in RULES.items():
        ctx.rule(k, v)
    files = A.load(ctx, [INTERNAL, CTRL, MONITOR, BUCKET])
    try:
        fa = files[INTERNAL].fn("forward_append")
        ra = files[CTRL].fn("record_append")
        mr = files[CTRL].fn("maybe_rollover")
        cr = files[MONITOR].fn("check_rollovers")
        r1 = files[CTRL].fn("read_one_for_topic")
        rs = files[CTRL].fn("read_one_for_topic_shared")
        tec = files[CTRL].fn("tracked_entry_count")
    except A.AnchorMissingAst as e:
        ctx.anchor_missing("C22.anchor", str(e))
        return {"explanation": "anchor missing"}
    for nm, f_, rel in (("forward_append", fa, INTERNAL), ("record_append", ra, CTRL), ("maybe_rollover", mr, CTRL), ("check_rollovers", cr, MONITOR),
                       ("read_one_for_topic", r1, CTRL), ("read_one_for_topic_shared", rs, CTRL)):
        ctx.saw_fn(nm, rel, len(list(A.walk(f_["body"]))))
    # ---- C22.1 -----------------------------------------------------------------------
    ms = [n for n in A.walk(fa["body"]) if n.get("k") == "match" and "append_with_retry" in A.text(A.unwrap(n["e"]))]
    F = "NodeController::forward_append"
    if len(ms) != 1:
        ctx.anchor_missing("C22.1", "`match self.append_with_retry(..).await` in forward_append")
    else:
        okarm, errarm = _arm(ms[0], "Ok("), _arm(ms[0], "Err(")
        recs_ok = [n for n in A.walk(okarm["body"]) if A.is_mcall(n, "record_append")] if okarm else []
        recs_err = [n for n in A.walk(errarm["body"]) if A.is_mcall(n, "record_append")] if errarm else []
        all_recs = [n for n in A.walk(fa["body"]) if A.is_mcall(n, "record_append")]
        if len(recs_ok) == 1 and len(all_recs) == 1 and not recs_err:
            r = recs_ok[0]
            top = okarm["body"]["stmts"] if okarm["body"].get("k") == "block" else []
            uncond = any(st.get("k") == "expr" and any(x is r for x in A.walk(st["e"])) for st in top)
            a0 = A.text(r["args"][0]) if r["args"] else ""
            a1 = r["args"][1].get("int") if len(r["args"]) > 1 else None
            if uncond and a1 == 1 and re.match(r"^&\w+$", a0):
                ctx.ok("C22.1", F, "an acknowledged append is recorded exactly once with count 1", INTERNAL, r["line"], "record_append(%s, 1)" % a0)
            else:
                ctx.violate("C22.1", F, "append-recorded-with-wrong-count", INTERNAL, r["line"], "the Ok arm records %s (unconditional=%s)" % (A.text(r), uncond))
            mro = [n for n in A.walk(okarm["body"]) if A.is_mcall(n, "maybe_rollover")]
            if mro and mro[0]["line"] > r["line"]:
                ctx.ok("C22.1", F, "the append is counted before the rollover check", INTERNAL, mro[0]["line"])
            elif mro:
                ctx.violate("C22.1", F, "rollover-check-before-count", INTERNAL, mro[0]["line"], "maybe_rollover runs before the append is counted: the sealed count misses this entry")
        else:
            ctx.violate("C22.1", F, "acknowledged-append-not-counted-once", INTERNAL, ms[0]["line"],
                        "record_append is called %d time(s) on the Ok arm, %d on the Err arm, %d in total" % (len(recs_ok), len(recs_err), len(all_recs)))
        oks = [n for n in A.walk(fa["body"]) if n.get("k") == "path" and n["p"] == "InternalResp::Ok"]
        in_ok = [n for n in A.walk(okarm["body"]) if n.get("k") == "path" and n["p"] == "InternalResp::Ok"] if okarm else []
        if oks and len(oks) == len(in_ok):
            ctx.ok("C22.1", F, "InternalResp::Ok is produced only on the Ok arm", INTERNAL, oks[0]["line"])
        else:
            ctx.violate("C22.1", F, "ok-response-outside-ok-arm", INTERNAL, fa["line"], "InternalResp::Ok is produced on a path where the append did not succeed")
    # record_append body: *entry += num_entries
    adds = [n for n in A.walk(ra["body"]) if n.get("k") == "binary" and n.get("op") == "+="]
    pn = [p["name"] for p in ra["params"] if p["name"] != "self"]
    if len(adds) == 1 and A.text(adds[0]["r"]) == pn[-1]:
        ctx.ok("C22.1", "NodeController::record_append", "adds exactly its argument to the key's counter", CTRL, adds[0]["line"])
    else:
        ctx.violate("C22.1", "NodeController::record_append", "counter-arithmetic", CTRL, ra["line"], "record_append does not add exactly its argument (%s)" % [A.text(a) for a in adds])
    ent = [n for n in A.walk(ra["body"]) if A.is_mcall(n, "entry")]
    if ent and pn and pn[0] in A.text(ent[0]["args"][0]):
        ctx.ok("C22.1", "NodeController::record_append", "the counter is keyed by the wal key argument", CTRL, ent[0]["line"])
    else:
        ctx.violate("C22.1", "NodeController::record_append", "counter-key", CTRL, ra["line"], "record_append does not key the counter by its wal key argument")
    g = [n for n in A.walk(tec["body"]) if A.is_mcall(n, "get")]
    if g and A.text(g[0]["args"][0]) == [p["name"] for p in tec["params"] if p["name"] != "self"][0]:
        ctx.ok("C22.1", "NodeController::tracked_entry_count", "reads the counter of the given wal key", CTRL, g[0]["line"])
    else:
        ctx.violate("C22.1", "NodeController::tracked_entry_count", "tracked-count-key", CTRL, tec["line"], "tracked_entry_count does not read the counter of its argument")

    # ---- C22.2 -----------------------------------------------------------------------
    def check_rollover_fn(fn, rel, F, topic_id, seg_id):
        structs = [n for n in A.walk(fn["body"]) if n.get("k") == "struct" and n["path"].endswith("RolloverTopic")]
        if len(structs) != 1:
            ctx.anchor_missing("C22.2", "RolloverTopic construction in " + F)
            return
        st = structs[0]
        flds = {f_["name"]: A.text(f_["e"]) for f_ in st["fields"]}
        cnt_id = flds.get("sealed_segment_entry_count")
        # let <cnt_id> = ...tracked_entry_count(&<wal>).await
        lets = {s_["pat"].replace("mut ", "").strip(): s_ for s_ in A.walk(fn["body"]) if s_.get("k") == "let" and s_.get("init") is not None}
        cl = lets.get(cnt_id)
        ok = False
        if cl is not None:
            t = A.text(cl["init"])
            m = re.search(r"tracked_entry_count\(&(\w+)\)\.await$", t)
            if m:
                wl = lets.get(m.group(1))
                if wl is not None:
                    wt = A.text(wl["init"])
                    m2 = re.match(r"^wal_key\(&?(\w+),(\w+)\)$", wt)
                    name_t = flds.get("name", "")
                    if m2 and m2.group(1) == topic_id and m2.group(2) == seg_id and re.match(r"^%s\.(to_string|clone)\(\)$" % re.escape(topic_id), name_t):
                        ok = True
        if ok:
            ctx.ok("C22.2", F, "the sealed count is tracked_entry_count(wal_key(%s, %s)) of the topic named in the command" % (topic_id, seg_id), rel, st["line"])
        else:
            ctx.violate("C22.2", F, "sealed-count-not-the-tracked-count", rel, st["line"],
                        "RolloverTopic{name: %s, sealed_segment_entry_count: %s} is not the tracked count of wal_key(%s, %s)" % (flds.get("name"), cnt_id, topic_id, seg_id))
        # threshold guard: an `if <cnt> < limit { return/continue }` before the proposal
        guards = [n for n in A.walk(fn["body"]) if n.get("k") == "if" and re.match(r"^%s<" % re.escape(cnt_id or "?"), A.text(n["cond"]))]
        good = False
        for gd in guards:
            exits = [x for x in A.walk(gd["then"]) if x.get("k") in ("return", "continue")]
            if exits and gd["line"] < st["line"]:
                good = True
        if good:
            ctx.ok("C22.2", F, "the proposal is reached only when `%s < limit` is false" % cnt_id, rel, guards[0]["line"])
        else:
            ctx.violate("C22.2", F, "rollover-without-threshold", rel, st["line"], "a rollover is proposed without the `count < limit` early exit")
        props = [n for n in A.walk(fn["body"]) if A.is_mcall(n, "propose_metadata")]
        if props and props[0]["line"] > st["line"]:
            ctx.ok("C22.2", F, "the command built is the one proposed", rel, props[0]["line"])

    mp = [p["name"] for p in mr["params"] if p["name"] != "self"]
    check_rollover_fn(mr, CTRL, "NodeController::maybe_rollover", mp[0], mp[1])
    fors = [n for n in A.walk(cr["body"]) if n.get("k") == "for" and "owned" in A.text(n["iter"])]
    if fors:
        m = re.match(r"^\((\w+),(\w+)\)$", fors[0]["pat"].replace(" ", ""))
        if m:
            check_rollover_fn({"body": fors[0]["body"]}, MONITOR, "Monitor::check_rollovers", m.group(1), m.group(2))
        else:
            ctx.anchor_missing("C22.2", "(topic, segment) pattern of the owned-topics loop")
    else:
        ctx.anchor_missing("C22.2", "owned-topics loop in check_rollovers")

    # ---- C22.3 -----------------------------------------------------------------------
    F = "NodeController::read_one_for_topic"
    loops = [n for n in A.walk(r1["body"]) if n.get("k") == "loop"]
    if len(loops) != 1:
        ctx.anchor_missing("C22.3", "the segment-walk loop of read_one_for_topic")
        return {"explanation": "anchor missing"}
    paths = A.block_paths(loops[0]["body"])
    n_ret_some = n_ret_none = 0
    for p in paths:
        incs = [n for n in A.events_of(p, "assign") if n.get("op") == "+=" and A.text(n["l"]).endswith("delivered_in_segment")]
        seg_incs = [n for n in A.events_of(p, "assign") if n.get("op") == "+=" and A.text(n["l"]).endswith(".segment")]
        resets = [n for n in A.events_of(p, "assign") if n.get("k") == "assign" and A.text(n["lhs"]).endswith("delivered_in_segment") and A.text(n["rhs"]) == "0"]
        rets = A.events_of(p, "return")
        ret_t = A.text(rets[-1].get("e")) if rets and rets[-1].get("e") else ""
        line = (rets[-1]["line"] if rets else loops[0]["line"])
        if p.exit == "return" and ret_t.startswith("Ok(Some("):
            n_ret_some += 1
            if len(incs) == 1:
                ctx.ok("C22.3", F, "a delivered entry is counted exactly once", CTRL, line)
            else:
                ctx.violate("C22.3", F, "delivery-not-counted", CTRL, line, "a path returns an entry with %d increments of delivered_in_segment" % len(incs))
        else:
            if incs:
                ctx.violate("C22.3", F, "count-without-delivery", CTRL, incs[0]["line"], "delivered_in_segment is incremented on a path that does not return an entry (exit: %s)" % p.exit)
        if seg_incs:
            # paired reset and guards
            conds = [A.text(c["cond"]) for c, br in p.conds if c.get("k") == "if" and br == "then"]
            has_lt = any(re.search(r"\.segment<current_segment$", c) for c in conds)
            has_ge = any(re.search(r"delivered_in_segment>=sealed_count$", c) for c in conds)
            if len(seg_incs) == len(resets) and has_lt and has_ge:
                ctx.ok("C22.3", F, "segment advance is paired with a counter reset under `segment < current` and `delivered >= sealed_count`", CTRL, seg_incs[0]["line"])
            else:
                ctx.violate("C22.3", F, "segment-advance-unguarded", CTRL, seg_incs[0]["line"],
                            "cursor.segment += 1 on a path with %d resets, guards: segment<current=%s, delivered>=sealed=%s" % (len(resets), has_lt, has_ge))
        if p.exit == "return" and ret_t == "Ok(None)":
            n_ret_none += 1
            reads = [n for n in A.events_of(p, "mcall") if n["method"] in ("forward_read", "forward_read_remote")]
            if reads:
                ctx.ok("C22.3", F, "EMPTY is answered only after a read of the cursor's segment returned nothing", CTRL, line)
            else:
                ctx.violate("C22.3", F, "empty-without-read", CTRL, line, "Ok(None) is returned on a path that did not read the cursor's segment")
    ctx.floor("C22.3", "paths returning an entry", n_ret_some, 1)
    ctx.floor("C22.3", "paths returning EMPTY", n_ret_none, 1)
    # the read uses the cursor's own segment key
    wl = [s_ for s_ in A.walk(loops[0]["body"]) if s_.get("k") == "let" and s_.get("init") is not None and A.text(s_["init"]).startswith("wal_key(")]
    if wl and re.match(r"^wal_key\(topic,cursor\.segment\)$", A.text(wl[0]["init"])):
        ctx.ok("C22.3", F, "reads wal_key(topic, cursor.segment)", CTRL, wl[0]["line"])
    else:
        ctx.violate("C22.3", F, "read-key", CTRL, r1["line"], "the read does not use wal_key(topic, cursor.segment)")
    # shared: guard bound before, used after
    st = rs["body"]["stmts"]
    g_let = [s_ for s_ in st if s_.get("k") == "let" and "read_cursors.lock().await" in A.text(s_.get("init") or {})]
    call = [n for n in A.walk(rs["body"]) if A.is_mcall(n, "read_one_for_topic")]
    if g_let and call and g_let[0]["pat"].strip() not in ("_",) and g_let[0]["line"] < call[0]["line"]:
        gname = g_let[0]["pat"].replace("mut ", "").strip()
        cur_let = [s_ for s_ in st if s_.get("k") == "let" and s_.get("init") is not None and A.text(s_["init"]).startswith(gname + ".entry(")]
        if cur_let and A.text(call[0]["args"][1]) == cur_let[0]["pat"].strip():
            ctx.ok("C22.3", "NodeController::read_one_for_topic_shared", "the cursor map lock is held across the whole read and the cursor passed is the map's entry", CTRL, call[0]["line"])
        else:
            ctx.violate("C22.3", "NodeController::read_one_for_topic_shared", "shared-cursor", CTRL, rs["line"], "the shared read does not pass the locked map's cursor entry")
    else:
        ctx.violate("C22.3", "NodeController::read_one_for_topic_shared", "cursor-lock-not-held", CTRL, rs["line"], "the cursor map's lock is not held across the read")
    from .c23 import check_lease_refresh
    check_lease_refresh(ctx, files, "C22.4")
    from .c23 import check_lease_critical_section
    check_lease_critical_section(ctx, files, "C22.5")
    ctx.assume("NOT decided (explicitly): what happens when an append is acknowledged between the moment a count is captured and the moment the rollover carrying it is applied, or when two "
               "rollovers fire for one threshold - these are interleavings of a distributed protocol in a crate that cannot be type-checked here")
    return {
        "explanation": "bookkeeping pairings decided on the syntax trees of forward_append, record_append, maybe_rollover, check_rollovers and read_one_for_topic (path enumeration of the "
                       "reader's loop body): without them the property fails on every schedule; the interleaving clauses are not decided.",
    }
