"""Panic sites on the syntax tree (for files that cannot be type-checked offline).

classify(fn_item, consts) -> [(kind, node, verdict, why)]
  kind     index | unwrap | macro | method | divide
  verdict  'ok' (discharged, with the reason) or a violation key
Types come from what the file itself declares: parameter types, `let x: T`, and the form of the initialiser.
A site whose base type or bound cannot be established is reported (fail closed) as `untriaged-...`."""
import re
from .core import ast as A

PANIC_MACROS = {"panic", "unreachable", "todo", "unimplemented", "assert", "assert_eq", "assert_ne", "debug_assert", "debug_assert_eq", "debug_assert_ne"}
# methods of str / String / slices / Vec that panic on a bad position argument
POS_METHODS = {"split_at", "split_at_mut", "split_off", "truncate", "drain", "replace_range", "insert_str", "copy_from_slice", "clone_from_slice", "swap_remove", "split_at_unchecked"}
STR_TY = re.compile(r"^&?(mut)?('\w+)?(str|String|std::string::String)$")
BYTES_TY = re.compile(r"^&?(mut)?('\w+)?(\[u8\]|\[u8;.*\]|Vec<u8>)$")
# expressions that yield a char boundary of the str they are taken from
BOUNDARY_SRC = re.compile(r"\.(find|rfind|len|floor_char_boundary|ceil_char_boundary|char_indices|match_indices|rmatch_indices)\(")


def _norm(t):
    return (t or "").replace(" ", "")


def _types(fn):
    """identifier -> ('str' | 'bytes' | None, initialiser node or None)"""
    env = {}
    for p in fn.get("params") or []:
        ty = _norm(p.get("ty"))
        env[p["name"]] = ("str" if STR_TY.match(ty) else "bytes" if BYTES_TY.match(ty) else None, None)
    for st in A.walk(fn["body"]):
        if st.get("k") != "let":
            continue
        name = st["pat"].replace("mut ", "").strip()
        if not re.match(r"^\w+$", name):
            continue
        init = st.get("init")
        ty = _norm(st.get("ty"))
        kind = None
        if ty:
            kind = "str" if STR_TY.match(ty) else "bytes" if BYTES_TY.match(ty) else None
        elif init is not None:
            t = A.text(init)
            if init.get("k") == "lit" and "str" in init:
                kind = "str"
            elif re.search(r"\.(trim|trim_end|trim_start|to_string|to_owned|to_lowercase|to_uppercase)\(\)$", t) or A.is_macro(init, "format") or re.match(r"^String::", t):
                kind = "str"
            elif re.search(r"\.(as_bytes|to_vec|into_bytes)\(\)$", t) or A.is_macro(init, "vec") or init.get("k") in ("array", "repeat"):
                kind = "bytes"
        env[name] = (kind, init)
    return env


def _base_name(e):
    e = A.unwrap(e)
    while isinstance(e, dict) and e.get("k") in ("paren", "field"):
        e = e.get("e") or e.get("base")
    if isinstance(e, dict) and e.get("k") == "path" and re.match(r"^\w+$", e["p"]):
        return e["p"]
    return None


def _guards(fn, node):
    """texts of the conditions (if / while) whose body encloses `node`, plus negated while-loop conditions that precede it"""
    out = []

    def rec(n, stack):
        if n is node:
            out.extend(stack)
            return True
        if not isinstance(n, dict):
            return False
        if n.get("k") in ("if",):
            c = _norm(n["cond"].get("text") or A.text(n["cond"]))
            if rec(n.get("then"), stack + [c]):
                return True
            if n.get("else") is not None and rec(n["else"], stack + ["!(" + c + ")"]):
                return True
            return rec(n["cond"], stack)
        if n.get("k") == "while":
            c = _norm(n["cond"].get("text") or A.text(n["cond"]))
            if rec(n.get("body"), stack + [c]):
                return True
            return False
        for ch in A.children(n):
            if rec(ch, stack):
                return True
        return False
    rec(fn["body"], [])
    # loops `while !s.is_char_boundary(i) { i -= 1 }` that precede the site establish the boundary at exit
    for w in A.walk(fn["body"]):
        if w.get("k") == "while" and w["line"] <= node["line"]:
            c = _norm(w["cond"].get("text") or A.text(w["cond"]))
            if c.startswith("!"):
                out.append(c[1:].strip("()") if c[1:].startswith("(") else c[1:])
    return out


def _bound_ok_str(fn, env, base, bound, node):
    """is `bound` (an expression node or None) a char boundary of str `base`?"""
    if bound is None:
        return "open end"
    if bound.get("k") == "lit" and bound.get("int") == 0:
        return "0"
    t = _norm(bound.get("text") or A.text(bound))
    if t == "%s.len()" % base:
        return "len() of the same str"
    name = _base_name(bound)
    guards = _guards(fn, node)
    if name:
        if any(g == "%s.is_char_boundary(%s)" % (base, name) for g in guards):
            return "guarded by is_char_boundary"
        kind, init = env.get(name, (None, None))
        if init is not None:
            it = _norm(init.get("text") or A.text(init))
            if it.startswith(base + ".") and BOUNDARY_SRC.search(it) and ".min(" not in it and ".max(" not in it and "+" not in it and "-" not in it:
                return "position returned by %s" % it[:40]
        # pattern binding of find()/char_indices(): `Some(i) => &line[i..]`, `for (i, c) in line.char_indices()`
        for m in A.walk(fn["body"]):
            if m.get("k") == "match":
                st = _norm(m["e"].get("text") or A.text(m["e"])) if isinstance(m.get("e"), dict) else ""
                if st.startswith(base + ".") and re.search(r"\.(find|rfind)\(", st):
                    for a in m["arms"]:
                        if re.match(r"^Some\(%s\)$" % re.escape(name), a["pat"].replace(" ", "")) and any(x is node for x in A.walk(a["body"])):
                            return "position returned by find()"
            if m.get("k") in ("iflet", "if") and m.get("pat") and isinstance(m.get("e") or m.get("init"), dict):
                src = m.get("e") or m.get("init")
                st = _norm(src.get("text") or A.text(src))
                if st.startswith(base + ".") and re.search(r"\.(find|rfind)\(", st) and re.match(r"^Some\(%s\)$" % re.escape(name), m["pat"].replace(" ", "")):
                    return "position returned by find()"
            if m.get("k") == "for" and isinstance(m.get("iter"), dict):
                st = _norm(m["iter"].get("text") or A.text(m["iter"]))
                if st.startswith(base + ".char_indices()") and re.match(r"^\(%s,\w+\)$" % re.escape(name), (m.get("pat") or "").replace(" ", "")):
                    return "position yielded by char_indices()"
    return None


def _bound_ok_bytes(fn, env, base, bound, node):
    if bound is None:
        return "open end"
    if bound.get("k") == "lit" and bound.get("int") == 0:
        return "0"
    t = _norm(bound.get("text") or A.text(bound))
    if t == "%s.len()" % base:
        return "len() of the same slice"
    name = _base_name(bound)
    guards = _guards(fn, node)
    if name:
        for g in guards:
            if g in ("%s<=%s.len()" % (name, base), "%s.len()>=%s" % (base, name), "%s<%s.len()" % (name, base), "%s.len()>%s" % (base, name)):
                return "guarded by " + g
        kind, init = env.get(name, (None, None))
        if init is not None:
            it = _norm(init.get("text") or A.text(init))
            if re.search(r"\.min\(%s\.len\(\)\)$" % re.escape(base), it) or re.match(r"^%s\.len\(\)\.min\(" % re.escape(base), it) or re.search(r"min\(.*%s\.len\(\).*\)" % re.escape(base), it):
                return "min(.., len())"
    return None


def _returns_when_empty(fn, node, base):
    """an earlier statement of an enclosing block is `if <base>.is_empty() { return ..; }` (or `== 0` on its len)"""
    def rec(blk):
        if not isinstance(blk, dict):
            return False
        if blk.get("k") == "block":
            seen_guard = False
            for st in blk.get("stmts", []):
                holder = st.get("e") if st.get("k") == "expr" else st.get("init") if st.get("k") == "let" else None
                if any(x is node for x in A.walk(st)):
                    if seen_guard:
                        return True
                    # descend
                    for ch in A.walk(st):
                        if ch is not st and ch.get("k") == "block" and any(x is node for x in A.walk(ch)) and rec(ch):
                            return True
                    return False
                e = st.get("e") if st.get("k") == "expr" else None
                if isinstance(e, dict) and e.get("k") == "if" and e.get("else") is None:
                    c = _norm(e["cond"].get("text") or A.text(e["cond"]))
                    if c in ("%s.is_empty()" % base, "%s.len()==0" % base) and any(x.get("k") == "return" for x in A.walk(e["then"])):
                        seen_guard = True
            return False
        return False
    return rec(fn["body"])


def classify(fn, consts=None):
    env = _types(fn)
    out = []
    for n in A.walk(fn["body"]):
        k = n.get("k")
        if k == "index":
            base = _base_name(n["base"])
            kind = env.get(base, (None, None))[0] if base else None
            idx = n["idx"]
            if kind == "str":
                if idx.get("k") == "range":
                    a = _bound_ok_str(fn, env, base, idx.get("from"), n)
                    b = _bound_ok_str(fn, env, base, idx.get("to"), n)
                    if a and b:
                        out.append(("index", n, "ok", "str range %s / %s" % (a, b)))
                    else:
                        out.append(("index", n, "str-sliced-at-byte-offset", "`%s`: a str is cut at a byte position that is not known to be a character boundary (nor inside the string)" % _norm(n.get("text"))))
                else:
                    out.append(("index", n, "untriaged-index", "`%s`" % _norm(n.get("text"))))
            elif kind == "bytes":
                if idx.get("k") == "range":
                    a = _bound_ok_bytes(fn, env, base, idx.get("from"), n)
                    b = _bound_ok_bytes(fn, env, base, idx.get("to"), n)
                    if a and b:
                        out.append(("index", n, "ok", "byte range %s / %s" % (a, b)))
                    else:
                        out.append(("index", n, "slice-range-unbounded", "`%s`: the range is not shown to lie inside the slice" % _norm(n.get("text"))))
                else:
                    g = _bound_ok_bytes(fn, env, base, idx, n) if idx.get("k") != "lit" else None
                    if g and "<=" not in g and ">=" not in g:
                        out.append(("index", n, "ok", "index " + g))
                    else:
                        out.append(("index", n, "slice-index-unbounded", "`%s`: the index is not shown to lie inside the slice" % _norm(n.get("text"))))
            else:
                iname = _base_name(idx) if idx.get("k") != "range" else None
                iinit = env.get(iname, (None, None))[1] if iname else None
                it = _norm(iinit.get("text") or A.text(iinit)) if isinstance(iinit, dict) else ""
                itxt = _norm(idx.get("text") or A.text(idx)) if idx.get("k") != "range" else ""
                mloc = re.search(r"%(\w+)$", itxt)
                loc_is_len = False
                if base and mloc:
                    li_ = env.get(mloc.group(1), (None, None))[1]
                    lt_ = _norm(li_.get("text") or A.text(li_)) if isinstance(li_, dict) else ""
                    loc_is_len = lt_ == "%s.len()" % base
                    if not loc_is_len:
                        for m_ in A.walk(fn["body"]):
                            if m_.get("k") == "match" and isinstance(m_.get("e"), dict) and _norm(m_["e"].get("text") or A.text(m_["e"])) == "%s.len()" % base:
                                if any(a_["pat"].strip() == mloc.group(1) and any(x is n for x in A.walk(a_["body"])) for a_ in m_["arms"]):
                                    loc_is_len = True
                if base and (it.endswith("%%%s.len()" % base) or itxt.endswith("%%%s.len()" % base) or loc_is_len):
                    out.append(("index", n, "ok", "index computed modulo len() of the indexed collection"))
                else:
                    out.append(("index", n, "untriaged-index", "`%s` (type of the indexed value not established from the file)" % _norm(n.get("text"))))
        elif k == "mcall" and n["method"] in ("unwrap", "expect", "unwrap_err", "expect_err"):
            out.append(("unwrap", n, "panics-on-none-or-err:" + n["method"], "`%s`" % _norm(n.get("text"))[:80]))
        elif k == "mcall" and n["method"] in POS_METHODS:
            out.append(("method", n, "position-method:" + n["method"], "`%s`" % _norm(n.get("text"))[:80]))
        elif k == "macro" and n["name"].split("::")[-1] in PANIC_MACROS:
            out.append(("macro", n, "panic-macro:" + n["name"].split("::")[-1], "`%s!(%s)`" % (n["name"], _norm(n.get("tokens"))[:60])))
        elif k == "macro" and not n.get("args") and re.search(r"[\w\)\]]\s*\[", n.get("tokens") or "") and n["name"].split("::")[-1] not in ("vec",):
            out.append(("index", n, "untriaged-index-in-macro", "`%s!(%s)`" % (n["name"], _norm(n.get("tokens"))[:60])))
        elif k == "binary" and n.get("op") in ("/", "%") and not (n["r"].get("k") == "lit" and n["r"].get("int")):
            r = _base_name(n["r"])
            rt = _norm(n["r"].get("text") or A.text(n["r"]))
            mlen = re.match(r"^(\w+)\.len\(\)$", rt)
            if not mlen and r:
                # `let len = nodes.len();` / `match nodes.len() { 0 => .., len => nodes[.. % len] }`
                init_ = env.get(r, (None, None))[1]
                it_ = _norm(init_.get("text") or A.text(init_)) if isinstance(init_, dict) else ""
                mlen = re.match(r"^(\w+)\.len\(\)$", it_)
                if not mlen:
                    for m_ in A.walk(fn["body"]):
                        if m_.get("k") == "match" and isinstance(m_.get("e"), dict):
                            ms_ = re.match(r"^(\w+)\.len\(\)$", _norm(m_["e"].get("text") or A.text(m_["e"])))
                            if ms_ and any(a_["pat"].strip() == "0" for a_ in m_["arms"]):
                                for a_ in m_["arms"]:
                                    if a_["pat"].strip() == r and any(x is n for x in A.walk(a_["body"])):
                                        out.append(("divide", n, "ok", "divisor is the non-zero arm of a match on len()"))
                                        mlen = "done"
                    if mlen == "done":
                        continue
            if r and consts and consts.get(r):
                continue
            if mlen and ("!(%s.is_empty())" % mlen.group(1) in _guards(fn, n) or "!%s.is_empty()" % mlen.group(1) in _guards(fn, n) or "%s.len()>0" % mlen.group(1) in _guards(fn, n)
                         or _returns_when_empty(fn, n, mlen.group(1))):
                out.append(("divide", n, "ok", "divisor is len() of a collection that the enclosing branch shows to be non-empty"))
                continue
            out.append(("divide", n, "division-by-unchecked-value", "`%s`" % _norm(n.get("text"))[:80]))
    return out


def reachable_fns(f, roots):
    """names of the fns of AstFile f reachable from `roots` through path calls / method calls on self to names defined in the file"""
    names = {it["name"] for it in f.items if it["k"] == "fn"}
    seen, work = set(), list(roots)
    while work:
        x = work.pop()
        if x in seen or x not in names:
            continue
        seen.add(x)
        for it in f.fns(x):
            for n in A.walk(it["body"]):
                if n.get("k") == "call" and n["f"].get("k") == "path":
                    work.append(n["f"]["p"].split("::")[-1])
                elif n.get("k") == "mcall" and n["method"] in names:
                    work.append(n["method"])
                elif n.get("k") == "macro":
                    for m in re.finditer(r"\b(\w+)\s*\(", n.get("tokens") or ""):
                        if m.group(1) in names:
                            work.append(m.group(1))
    return seen
