"""C18 - cluster metadata keeps an immutable, contiguous segment history.

The real distributed-walrus/src/metadata.rs is type-checked through the stub harness
(harness/dwshim: signature-only bincode and a copy of octopii's StateMachineTrait) and
analysed on MIR."""
import os
import re
from .core import common
from .core.mir import op_local, op_place, strip_generics, callee_name
from .core.cond import all_tests, call_site_of, borrowed_local, const_of
from .core.slicing import origins, origin_calls, origin_args
from .core.effects import provenance
from .core.symexpr import expr, show, strip_refs, place_expr
from . import fmtfeat

RULES = {
    "C18.1": "panic freedom (PF) of Metadata::{apply, snapshot, restore} and their closures: every Assert terminator, unwrap/expect, indexing and explicit panic is an obligation; it is "
             "discharged when its operands are constants, by a table row, or never when an operand derives from the decoded command; decode failures map to Err",
    "C18.2": "structural invariants of apply (WMW + def-use), which imply contiguity and immutability of the segment history: (1) only apply/restore take the write lock of the state; "
             "(2) current_segment is initialised to 1 and otherwise only incremented by 1; (3) nothing is ever removed from sealed_segments / segment_leaders; (4) in the rollover arm "
             "both inserts for the sealed segment use the value of current_segment read before the increment and the insert for the new segment uses the value read after it; "
             "(5) leader_node is assigned only together with segment_leaders.insert(current_segment, the same value) and the leader recorded for the sealed segment is leader_node read "
             "before that assignment; (6) last_sealed_entry_offset is only ever set to itself plus the very count inserted into sealed_segments; (7) CreateTopic does not overwrite an "
             "existing topic and records segment 1 with the initial leader",
    "C18.3": "the stub used to type-check the file is faithful: the StateMachineTrait copy equals the trait in octopii/src/state_machine.rs and metadata.rs calls bincode only through "
             "serialize/deserialize",
}

LEMMA = ("(2)+(4): insert keys for sealed data are the pre-increment current_segment, which is fresh (never inserted into sealed_segments before, because current only grows) and the keys "
         "inserted into segment_leaders cover 1..=current; (3)+(4): sealed counts are never overwritten or removed, a sealed segment's leader entry is overwritten only with the equal "
         "value leader_node (5); (5): the open segment's leader equals the topic leader; (6): offset = sum of sealed counts in N, and C18.1 shows the sum is computed without wrapping "
         "or the command is rejected before any change.")


def _field_store_sites(b, owner_suffix, field):
    out = []
    for site, st in b.assigns():
        p = st["place"]
        if any(e == "*" for e in p["p"]) and p["p"] and isinstance(p["p"][-1], dict) and p["p"][-1].get("n") == field and (p["p"][-1].get("o") or "").endswith(owner_suffix):
            out.append(site)
    return out


def _loads(b, field):
    out = []
    for site, st in b.assigns():
        rv = st["rv"]
        if rv["k"] == "use":
            p = op_place(rv["op"])
            if p and p["p"] and isinstance(p["p"][-1], dict) and p["p"][-1].get("n") == field and (p["p"][-1].get("o") or "").endswith("TopicState"):
                out.append((site, st["place"]["l"]))
    return out


def check_pf(ctx, facts):
    cmd_tainted_cache = {}
    n = 0
    for name, b in facts.bodies.items():
        if b.j["derived"]:
            continue
        if not re.search(r"StateMachineTrait>::(apply|snapshot|restore)", name):
            continue
        ctx.saw_body(b)
        F = name.split(">::")[-1]
        for blk in sorted(b.live_blocks):
            t = b.term(blk)
            kind = None
            ops = []
            if t["k"] == "assert":
                kind = "assert:" + t["msg"]
                ops = t["msg_ops"]
            elif t["k"] == "call" and re.search(r"(Option|Result)(::<[^>]*>)?::(unwrap|expect)$|^core::panicking::|::index$|::index_mut$", callee_name(t)):
                kind = "call:" + callee_name(t).split("::")[-1]
                ops = t["args"]
            if not kind:
                continue
            n += 1
            shown = [show(strip_refs(expr(b, o)))[:60] for o in ops]
            # operands that derive from the decoded command
            from_cmd = False
            for o in ops:
                src, _, _ = origins(b, o)
                if any(x.kind == "call" and x.what.endswith("bincode::deserialize") for x in src) or "command" in origin_args(src) or "data" in origin_args(src):
                    from_cmd = True
            consts = [fmtfeat.const_eval(expr(b, o)) for o in ops]
            if from_cmd:
                ctx.violate("C18.1", F, "panic-on-command-data:%s" % kind.split("(")[0].replace("assert:", ""), b.relfile, t["line"],
                            "%s on %s: an operand comes from the decoded command, so a replicated command can panic every node that applies it (overflow checks are on in dev/test builds; "
                            "in release the value wraps and the invariants break)" % (kind, shown))
            elif kind.startswith("assert:Overflow(Add)") and any(c == 1 for c in consts):
                ctx.ok("C18.1", F, "%s %s: increment by the constant 1 (2^64 rollovers needed to overflow)" % (kind, shown), b.relfile, t["line"])
            elif all(c is not None for c in consts) and consts:
                ctx.ok("C18.1", F, "%s on constants" % kind, b.relfile, t["line"])
            else:
                ctx.violate("C18.1", F, "untriaged-panic-site:%s" % kind.split("(")[0], b.relfile, t["line"], "%s on %s is not discharged" % (kind, shown))
    # decode failures are mapped to Err, not unwrapped
    for name, b in facts.bodies.items():
        if not re.search(r"StateMachineTrait>::(apply|restore)$", name):
            continue
        F = name.split(">::")[-1]
        for s in b.calls(re.compile(r"bincode::deserialize$")):
            from .c04 import error_exits, real_source
            consumers = [c for c in b.calls() if real_source(b, c) is not c and real_source(b, c).bb == s.bb]
            exits = []
            for c in b.calls():
                if real_source(b, c).bb == s.bb:
                    exits += error_exits(b, c)
            if exits:
                ctx.ok("C18.1", F, "undecodable bytes are returned as Err", b.relfile, s.line)
            else:
                ctx.violate("C18.1", F, "decode-error-not-returned", b.relfile, s.line, "the result of bincode::deserialize is not propagated as an error")
    ctx.floor("C18.1", "panic obligations in apply/snapshot/restore", n, 1)


def check_invariants(ctx, facts):
    ap = None
    for name, b in facts.bodies.items():
        if name.endswith("StateMachineTrait>::apply"):
            ap = b
    if ap is None:
        ctx.anchor_missing("C18.2", "Metadata::apply")
        return
    ctx.saw_body(ap)
    F = "Metadata::apply"
    # (1) writers
    writers = set()
    for name, b in facts.bodies.items():
        if b.j["derived"]:
            continue
        for s in b.calls(re.compile(r"RwLock::(write|try_write)$")):
            pr = provenance(b, s.node["args"][0])
            if any(o.kind == "field" and o.what[1] == "state" for o in pr):
                writers.add(re.sub(r"::\{closure.*", "", name.split(">::")[-1] if ">::" in name else name))
        # stores to TopicState / ClusterState fields anywhere
        for site, st in b.assigns():
            for e in st["place"]["p"]:
                if isinstance(e, dict) and (e.get("o") or "").endswith(("TopicState", "ClusterState")) and any(x == "*" for x in st["place"]["p"]):
                    writers.add(re.sub(r"::\{closure.*", "", name.split(">::")[-1] if ">::" in name else name))
    if writers <= {"apply", "restore"} and "apply" in writers:
        ctx.ok("C18.2", F, "(1) only apply/restore write the state", ap.relfile, ap.line, str(sorted(writers)))
    else:
        ctx.violate("C18.2", F, "state-written-elsewhere", ap.relfile, ap.line, "the cluster state is written by %s" % sorted(writers))
    # (2) current_segment
    aggs = [(site, st) for site, st in ap.assigns() if st["rv"]["k"] == "agg" and st["rv"].get("name", "").endswith("TopicState")]
    ok2 = bool(aggs)
    for site, st in aggs:
        f = dict(zip(st["rv"]["fields"], st["rv"]["ops"]))
        if const_of(ap, f["current_segment"]) != 1:
            ok2 = False
            ctx.violate("C18.2", F, "initial-segment-not-1", ap.relfile, st["line"], "a new topic starts at segment %s" % show(expr(ap, f["current_segment"])))
        if const_of(ap, f["last_sealed_entry_offset"]) != 0:
            ctx.violate("C18.2", F, "initial-offset-not-0", ap.relfile, st["line"], "a new topic starts with a non-zero sealed offset")
    cs_stores = _field_store_sites(ap, "TopicState", "current_segment")
    for s in cs_stores:
        e = strip_refs(expr(ap, s.node["rv"]["op"]))
        if e[0] == "Add" and strip_refs(e[1])[0] == "field" and strip_refs(e[1])[3] == "current_segment" and fmtfeat.const_eval(e[2]) == 1:
            ctx.ok("C18.2", F, "(2) current_segment := current_segment + 1", ap.relfile, s.line)
        else:
            ok2 = False
            ctx.violate("C18.2", F, "segment-number-not-incremented-by-one", ap.relfile, s.line, "current_segment is set to %s" % show(e)[:60])
    if ok2 and aggs:
        ctx.ok("C18.2", F, "(2) current_segment starts at 1", ap.relfile, aggs[0][0].line)
    ctx.floor("C18.2", "stores to current_segment", len(cs_stores), 1)
    # (3) no removal
    n3b = 0
    for name, b in facts.bodies.items():
        if b.j["derived"]:
            continue
        for s in b.calls(re.compile(r"HashMap::(remove|remove_entry|clear|retain|drain|extract_if)$")):
            pr = provenance(b, s.node["args"][0])
            flds = [o.what[1] for o in pr if o.kind == "field"]
            if any(f in ("sealed_segments", "segment_leaders", "topics") for f in flds):
                ctx.violate("C18.2", F, "history-removed:" + callee_name(s.node).split("::")[-1], b.relfile, s.line, "%s removes entries of %s" % (name.split("::")[-1], flds))
        # (3b) no in-place change of a recorded count / leader: the history maps are reached mutably only by insert
        # (whose key is judged by (4)/(5)); get_mut / entry / iter_mut / values_mut / IndexMut hand out a way to
        # overwrite the value recorded for an already sealed segment
        for s in b.calls(re.compile(r"HashMap::(get_mut|entry|iter_mut|values_mut|get_many_mut|get_disjoint_mut|raw_entry_mut|insert_unique_unchecked|try_insert)$|ops::IndexMut.*::index_mut$|BTreeMap::(get_mut|entry|iter_mut|values_mut|range_mut|first_entry|last_entry)$")):
            pr = provenance(b, s.node["args"][0])
            flds = [o.what[1] for o in pr if o.kind == "field"]
            if any(f in ("sealed_segments", "segment_leaders") for f in flds):
                n3b += 1
                ctx.violate("C18.2", F, "sealed-history-mutable-access:" + callee_name(s.node).split("::")[-1], b.relfile, s.line,
                            "%s reaches %s through %s: the count / leader recorded for a sealed segment can be overwritten in place, so a sealed segment's entry count or "
                            "leader can change after sealing" % (name.split("::")[-1], [f for f in flds if f in ("sealed_segments", "segment_leaders")], callee_name(s.node).split("::")[-1]))
    ctx.ok("C18.2", F, "(3) no remove/clear/retain on sealed_segments, segment_leaders or topics; no get_mut/entry/iter_mut on the two history maps", ap.relfile, ap.line)
    # (4)-(6) rollover arm
    inserts = []
    for s in ap.calls(re.compile(r"HashMap::insert$")):
        pr = provenance(ap, s.node["args"][0])
        f = [o.what[1] for o in pr if o.kind == "field" and o.what[0].endswith("TopicState")]
        if f:
            inserts.append((s, f[0]))
    inc = cs_stores[0] if cs_stores else None
    ln_stores = _field_store_sites(ap, "TopicState", "leader_node")
    off_stores = _field_store_sites(ap, "TopicState", "last_sealed_entry_offset")
    sealed_ins = [s for s, f in inserts if f == "sealed_segments"]
    leader_ins = [s for s, f in inserts if f == "segment_leaders"]
    if inc is None or len(sealed_ins) != 1 or len(leader_ins) < 2:
        ctx.violate("C18.2", F, "rollover-shape", ap.relfile, ap.line, "rollover arm does not have one sealed_segments insert and two segment_leaders inserts around the increment")
        return

    def key_load_site(s):
        """(site of the load of current_segment that the key derives from, or ('const', v))"""
        k = s.node["args"][1]
        c = const_of(ap, k)
        if c is not None:
            return ("const", c)
        cur = op_local(k)
        for _ in range(8):
            sd = ap.single_def(cur) if cur is not None else None
            if not sd or sd[1] != "assign" or sd[2]["rv"]["k"] != "use":
                return None
            p = op_place(sd[2]["rv"]["op"])
            if p is None:
                return None
            if p["p"] and isinstance(p["p"][-1], dict) and p["p"][-1].get("n") == "current_segment":
                return ("load", sd[0])
            if p["p"]:
                return None
            cur = p["l"]
        return None
    pre = []
    post = []
    for s in [sealed_ins[0]] + leader_ins:
        kl = key_load_site(s)
        if kl is None:
            ctx.violate("C18.2", F, "insert-key-not-current-segment", ap.relfile, s.line, "a history insert is keyed by something other than current_segment")
            continue
        if kl[0] == "const":
            continue   # CreateTopic's insert(1, initial_leader), checked under (7)
        load = kl[1]
        if ap.site_dominates(load, inc) :
            pre.append(s)
        elif ap.site_dominates(inc, load):
            post.append(s)
        else:
            ctx.violate("C18.2", F, "insert-key-order", ap.relfile, s.line, "cannot order the key's read of current_segment relative to the increment")
    if sealed_ins[0] in pre and len([s for s in leader_ins if s in pre]) == 1 and len(post) == 1 and post[0] in leader_ins:
        ctx.ok("C18.2", F, "(4) sealed count and sealed leader are keyed by the pre-increment segment, the new leader by the post-increment segment", ap.relfile, inc.line)
    else:
        ctx.violate("C18.2", F, "rollover-keys", ap.relfile, inc.line,
                    "rollover inserts are not keyed (sealed_segments: old, segment_leaders: old and new): pre=%s post=%s" % ([s.line for s in pre], [s.line for s in post]))
    # (5) leaders
    if len(ln_stores) == 1:
        lns = ln_stores[0]
        newv = show(strip_refs(expr(ap, lns.node["rv"]["op"])))
        post_v = show(strip_refs(expr(ap, post[0].node["args"][2]))) if post else None
        if post and newv == post_v:
            ctx.ok("C18.2", F, "(5) leader_node and the new segment's leader are the same value (%s)" % newv[:40], ap.relfile, lns.line)
        else:
            ctx.violate("C18.2", F, "open-segment-leader-differs-from-topic-leader", ap.relfile, lns.line, "leader_node := %s but the new segment's leader := %s" % (newv, post_v))
        # sealed segment's leader = leader_node read before the assignment
        sl = [s for s in leader_ins if s in pre]
        if sl:
            v = strip_refs(expr(ap, sl[0].node["args"][2]))
            # must be a load of leader_node that precedes the store
            vl = op_local(ap.resolve_copy(sl[0].node["args"][2]))
            good = False
            if v[0] == "field" and v[3] == "leader_node":
                # the load site dominates the leader_node store
                for site, dst in _loads(ap, "leader_node"):
                    if ap.site_dominates(site, lns) and ap.site_dominates(site, Site_of(sl[0])):
                        good = True
            if good:
                ctx.ok("C18.2", F, "(5) the sealed segment's leader is leader_node read before it is reassigned", ap.relfile, sl[0].line)
            else:
                ctx.violate("C18.2", F, "sealed-segment-leader", ap.relfile, sl[0].line, "the leader recorded for the sealed segment is %s, not the outgoing leader_node" % show(v)[:50])
    elif not ln_stores:
        ctx.violate("C18.2", F, "leader-node-stores", ap.relfile, ap.line, "leader_node is never assigned in apply: a rollover cannot hand the topic to its new leader")
    else:
        # several assignments: each must be paired, on all of its paths to a return, with an insert of the very
        # same value as the open segment's leader
        rets = ap.return_blocks()
        for lns in ln_stores:
            newv = show(strip_refs(expr(ap, lns.node["rv"]["op"])))
            mates = [s_ for s_ in leader_ins if show(strip_refs(expr(ap, s_.node["args"][2]))) == newv]
            paired = bool(mates) and (any(m.bb == lns.bb for m in mates) or ap.must_pass([lns.bb], rets, [m.bb for m in mates])
                                      or any(ap.dominates(m.bb, lns.bb) and ap.must_pass([m.bb], rets, [lns.bb]) for m in mates))
            if paired:
                ctx.ok("C18.2", F, "(5) leader_node := %s is paired with segment_leaders.insert(.., %s)" % (newv[:30], newv[:30]), ap.relfile, lns.line)
            else:
                ctx.violate("C18.2", F, "open-segment-leader-differs-from-topic-leader", ap.relfile, lns.line,
                            "leader_node is set to %s on a path that does not also record %s as the leader of the open segment: segment_leaders[current_segment] and the topic "
                            "leader disagree until the next rollover" % (newv[:40], newv[:40]))
    # (6) offset
    cnt_e = strip_refs(expr(ap, sealed_ins[0].node["args"][2]))
    for s in off_stores:
        e = strip_refs(expr(ap, s.node["rv"]["op"]))
        def find_add(x):
            x = strip_refs(x)
            if isinstance(x, tuple) and x:
                if x[0] == "Add":
                    return (strip_refs(x[1]), strip_refs(x[2]))
                if x[0] == "call" and x[1].split("::")[-1] in ("checked_add", "saturating_add") and len(x[2]) == 2:
                    return (strip_refs(x[2][0]), strip_refs(x[2][1]))
                for y in x[1:]:
                    if isinstance(y, tuple):
                        r = find_add(y)
                        if r:
                            return r
                    elif isinstance(y, list):
                        for z in y:
                            if isinstance(z, tuple):
                                r = find_add(z)
                                if r:
                                    return r
            return None
        ab = find_add(e)
        is_self = lambda x: isinstance(x, tuple) and x and x[0] == "field" and x[3] == "last_sealed_entry_offset"
        good = ab is not None and ((is_self(ab[0]) and ab[1] == cnt_e) or (is_self(ab[1]) and ab[0] == cnt_e))
        if good:
            ctx.ok("C18.2", F, "(6) last_sealed_entry_offset := itself + the count inserted into sealed_segments", ap.relfile, s.line)
        else:
            ctx.violate("C18.2", F, "offset-not-sum-of-counts", ap.relfile, s.line, "last_sealed_entry_offset is set to %s, not to itself plus the count recorded for the segment" % show(e)[:80])
    ctx.floor("C18.2", "stores to last_sealed_entry_offset", len(off_stores), 1)
    # (7) CreateTopic
    # inserts into the topics map itself (not into a map inside a TopicState reached through it)
    tins = [s for s in ap.calls(re.compile(r"HashMap::insert$")) if any(o.kind == "field" and o.what[1] == "topics" for o in provenance(ap, s.node["args"][0]))
            and not any(o.kind == "field" and str(o.what[0]).endswith("TopicState") for o in provenance(ap, s.node["args"][0]))]
    guarded = False
    for T in all_tests(ap):
        if T.kind == "call" and T.callee.endswith("HashMap::contains_key") and tins and all(ap.edge_guards(T.false_edge, t_.bb) for t_ in tins):
            guarded = True
    if tins and guarded:
        ctx.ok("C18.2", F, "(7) topics.insert only when the topic does not exist yet", ap.relfile, tins[0].line)
    else:
        ctx.violate("C18.2", F, "create-overwrites-topic", ap.relfile, tins[0].line if tins else ap.line, "CreateTopic can overwrite an existing topic's history")
    c1 = [s for s in leader_ins if const_of(ap, s.node["args"][1]) == 1]
    if c1 and aggs:
        f = dict(zip(aggs[0][1]["rv"]["fields"], aggs[0][1]["rv"]["ops"]))
        if show(strip_refs(expr(ap, c1[0].node["args"][2]))) == show(strip_refs(expr(ap, f["leader_node"]))):
            ctx.ok("C18.2", F, "(7) a new topic records segment 1 with the initial leader, equal to leader_node", ap.relfile, c1[0].line)
        else:
            ctx.violate("C18.2", F, "initial-leader", ap.relfile, c1[0].line, "segment 1's leader differs from the new topic's leader_node")
    else:
        ctx.violate("C18.2", F, "initial-segment-leader-missing", ap.relfile, ap.line, "CreateTopic does not record a leader for segment 1")

    check_all_or_nothing(ctx, facts, ap, F)


def check_all_or_nothing(ctx, facts, ap, F):
    """(8) a command is applied completely or rejected without a trace: no exit of apply that returns Err is reachable
    after the first change to the state (a store to a field of TopicState / ClusterState, or insert / push / remove /
    retain / clear / extend on one of its collections)."""
    muts = []
    for site, st in ap.assigns():
        p_ = st["place"]
        if any(e == "*" for e in p_["p"]) and p_["p"] and isinstance(p_["p"][-1], dict) and re.search(r"(TopicState|ClusterState)$", str(p_["p"][-1].get("o") or "")):
            muts.append((site.bb, site.line, "store to %s" % p_["p"][-1].get("n")))
    for c in ap.calls(re.compile(r"(HashMap|BTreeMap|HashSet|BTreeSet|Vec|VecDeque)(::<[^>]*>)?::(insert|push|push_back|remove|retain|clear|extend|pop|truncate|drain|append)$")):
        pr = provenance(ap, c.node["args"][0]) if c.node["args"] else set()
        if any(o.kind == "field" and re.search(r"(TopicState|ClusterState)$", str(o.what[0])) for o in pr):
            muts.append((c.bb, c.line, callee_name(c.node).split("::")[-1] + " on the state"))
    # error exits: the blocks that build the Err the function returns
    errs = []
    for site, st in ap.assigns():
        rv = st["rv"]
        if rv["k"] == "agg" and rv.get("akind") == "adt" and rv.get("variant") == "Err" and "Result" in str(rv.get("name")):
            # does this value reach the return place ?
            l = st["place"]["l"]
            if l == 0 and not st["place"]["p"]:
                errs.append((site.bb, site.line))
            else:
                for s2, st2 in ap.assigns():
                    if st2["place"]["l"] == 0 and not st2["place"]["p"] and st2["rv"]["k"] == "use" and op_local(st2["rv"]["op"]) == l:
                        errs.append((site.bb, site.line))
    for c in ap.calls(re.compile(r"::from_residual$")):
        if c.node["dest"]["l"] == 0 and not c.node["dest"]["p"]:
            errs.append((c.bb, c.line))
    if not muts or not errs:
        ctx.anchor_missing("C18.2", "state changes (%d) and error exits (%d) of Metadata::apply" % (len(muts), len(errs)))
        return
    bad = None
    for mbb, mline, what in muts:
        reach = ap.reachable_from([mbb])
        for ebb, eline in errs:
            if ebb in reach and ebb != mbb:
                bad = bad or (mline, what, eline)
            elif ebb == mbb and eline is not None and mline is not None and eline > mline:
                bad = bad or (mline, what, eline)
    if bad:
        ctx.violate("C18.2", F, "command-rejected-after-state-change", ap.relfile, bad[2],
                    "apply can return Err (line %s) after it has already changed the state (%s, line %s): the rejected command leaves a half-applied change behind - a sealed-segment "
                    "entry for the still open segment, a count that the next accepted rollover overwrites" % (bad[2], bad[1], bad[0]))
    else:
        ctx.ok("C18.2", F, "(8) every Err exit of apply is taken before the first change to the state (%d change sites, %d error exits)" % (len(muts), len(errs)), ap.relfile, ap.line)


def Site_of(s):
    return s


def check_stub(ctx, facts):
    repo = common.extract.REPO
    try:
        real = open(os.path.join(repo, "octopii/src/state_machine.rs")).read()
        stub = open(os.path.join(common.extract.VERIF, "harness/dwshim/stubs/octopii/src/lib.rs")).read()
    except OSError as e:
        ctx.anchor_missing("C18.3", str(e))
        return

    def sigs(text):
        m = re.search(r"pub trait StateMachineTrait[^{]*\{(.*?)\n\}", text, re.S)
        if not m:
            return None
        return sorted(re.sub(r"\s+", " ", x.strip()) for x in re.findall(r"fn\s+\w+\s*\([^)]*\)\s*(?:->\s*[^;{]+)?", m.group(1)))
    a, b = sigs(real), sigs(stub)
    if a and a == b:
        ctx.ok("C18.3", "harness/dwshim", "stub StateMachineTrait has the same method signatures as octopii's (%d methods)" % len(a), "octopii/src/state_machine.rs", None)
    else:
        ctx.violate("C18.3", "harness/dwshim", "stub-trait-differs", "octopii/src/state_machine.rs", None, "the harness copy of StateMachineTrait no longer matches octopii: %s vs %s" % (a, b))
    used = set()
    for name, bd in facts.bodies.items():
        for s in bd.calls(re.compile(r"^bincode::")):
            used.add(callee_name(s.node))
    if used <= {"bincode::serialize", "bincode::deserialize"}:
        ctx.ok("C18.3", "harness/dwshim", "metadata.rs uses bincode only through serialize/deserialize", "distributed-walrus/src/metadata.rs", None, str(sorted(used)))
    else:
        ctx.violate("C18.3", "harness/dwshim", "bincode-api", "distributed-walrus/src/metadata.rs", None, "bincode functions used: %s" % sorted(used))


def run(ctx):
    for k, v in RULES.items():
        ctx.rule(k, v)
    facts = common.mir(ctx, "dwshim")
    check_pf(ctx, facts)
    check_invariants(ctx, facts)
    check_stub(ctx, facts)
    ctx.assume("distributed-walrus cannot be built offline; metadata.rs is type-checked with the real serde and a signature-only bincode stub (bodies never analysed), which does not change "
               "the MIR of metadata.rs")
    ctx.assume("HashMap::insert on a fresh key does not disturb other keys (std semantics)")
    return {
        "explanation": "panic-freedom obligations and def-use/ordering obligations on the MIR of the real metadata.rs (stub harness), from which contiguity and immutability of the segment "
                       "history follow by the written lemma; for every command sequence, since each obligation is about all paths of apply.",
        "lemma": LEMMA,
    }
