"""C12 - file reclamation never removes entries that are still unconsumed."""
import re
from .core import common
from .core.mir import op_local, op_place, strip_generics, callee_name, Site
from .core.cond import all_tests, call_site_of, borrowed_local, const_of
from .core.slicing import origins, origin_calls, origin_args
from .core.effects import Effects, provenance
from .core.readflags import checkpoint_edges, stateful_edges, guarded
from .core.absint import Interp, Undecided, Sym
from .core.taint import Taint
from .core.symexpr import expr, show, strip_refs

RULES = {
    "C12.5": "a block is accounted to the file it lives in: in the allocator, the path handed to BlockStateTracker::register_block (which file a block's lock / unlock / consumed "
             "credit goes to) and to FileStateTracker::add_block_to_file_state (which file's block total grows) is the file_path the Block that is handed out carries - no store "
             "to the allocator's file_path (a rollover to a new file) lies between the registration and the construction of that Block, in either order. A block registered "
             "against the previous file lets that file reach `consumed >= total` while one of its own blocks is unread: the reclaimer deletes it",
    "C12.1": "who may delete (WMC): fs::remove_file / remove_dir_all are called only by the background worker, on paths drained from the set fed by the deletion channel; "
             "the static DELETION_TX is referenced only by flush_check (send) and start_background_workers (set)",
    "C12.2": "readiness predicate (BOOL): over the sub-CFG of flush_check the deletion request is sent only under fully_allocated AND locked == 0 AND total > 0 AND checkpointed >= total, "
             "the four values being the FileState counters returned by get_state_snapshot (field mapping checked)",
    "C12.3": "consumed-marks (WMC + GB): set_checkpointed_true is called only from read_next, batch_read_for_topic and recovery; at the two read sites the call is dominated by the "
             "`cursor offset >= block.used` edge and by checkpoint == true; at the recovery sites by the presence of a persisted position and the block id is loaded from the chain; "
             "a mark made from a closure of a read path is accepted only as the drain of a collector (a Vec of ids filled in the function), and then every push into the collector is "
             "judged as the mark it stands for (the position compared with block.used must be the reached one: the cursor's offset or a carrier of the committed offset); "
             "every other tracker mutator is called only from its frozen caller set",
    "C12.4": "idempotence (write-only-flag contradiction rule): the per-file consumed counter may only be incremented under control of the previous value of the per-block "
             "is_checkpointed flag (an atomic read-modify-write such as swap/compare_exchange in the same body); a flag that is stored but never loaded guards nothing",
}

TRACKER_CALLERS = {
    "allocator::FileStateTracker::set_block_locked": {"allocator::BlockAllocator::get_next_available_block", "allocator::BlockAllocator::alloc_block"},
    "allocator::FileStateTracker::set_block_unlocked": {"writer::Writer::write", "writer::Writer::batch_write", "writer::Writer::submit_batch_via_io_uring"},
    "allocator::FileStateTracker::add_block_to_file_state": {"allocator::BlockAllocator::get_next_available_block", "allocator::BlockAllocator::alloc_block", "walrus::Walrus::startup_chore"},
    "allocator::BlockStateTracker::register_block": {"allocator::BlockAllocator::get_next_available_block", "allocator::BlockAllocator::alloc_block", "walrus::Walrus::startup_chore"},
    "allocator::FileStateTracker::set_fully_allocated": {"allocator::BlockAllocator::get_next_available_block", "allocator::BlockAllocator::alloc_block"},
    "allocator::FileStateTracker::inc_checkpoint_for_file": {"allocator::BlockStateTracker::set_checkpointed_true"},
    "allocator::BlockStateTracker::set_checkpointed_true": {"walrus_read::read_next", "walrus_read::batch_read_for_topic", "walrus::Walrus::startup_chore"},
    "allocator::flush_check": {"allocator::BlockStateTracker::set_checkpointed_true", "allocator::FileStateTracker::set_fully_allocated",
                               "allocator::FileStateTracker::set_block_unlocked", "walrus::Walrus::startup_chore"},
}


def callers_of(facts, short_name):
    out = {}
    for n, b in facts.bodies.items():
        if b.j["derived"]:
            continue
        for s in b.calls():
            cn = s.node.get("callee")
            if cn and common.short_fn(strip_generics(cn)) == short_name:
                out.setdefault(common.short_fn(n), []).append(s)
    return out


def check_wmc(ctx, facts):
    for callee, allowed in TRACKER_CALLERS.items():
        cs = callers_of(facts, callee)
        if not cs:
            ctx.anchor_missing("C12.3", "callers of " + callee)
            continue
        for caller, sites in sorted(cs.items()):
            # closures count for their parent
            base = re.sub(r"::\{closure#\d+\}.*$", "", caller)
            if base in allowed:
                ctx.ok("C12.3", caller, "may call " + callee.split("::")[-1], sites[0].body.relfile, sites[0].line, "%d site(s)" % len(sites))
            else:
                ctx.violate("C12.3", caller, "unexpected-caller-of-" + callee.split("::")[-1], sites[0].body.relfile, sites[0].line,
                            "%s calls %s; only %s may (reclamation bookkeeping would be changed from an untriaged place)" % (caller, callee, sorted(allowed)))


def _upvar_index(body, local, depth=6):
    while depth > 0 and local is not None:
        depth -= 1
        sd = body.single_def(local)
        if not sd or sd[1] != "assign" or sd[2]["rv"]["k"] != "use":
            return None
        p = op_place(sd[2]["rv"]["op"])
        if p is None:
            return None
        if p["l"] == 1 and p["p"]:
            for e in p["p"]:
                if isinstance(e, dict) and "f" in e:
                    return e["f"]
            return None
        if p["p"]:
            return None
        local = p["l"]
    return None


def receiver_is_deletion_channel(facts, clo, rl):
    k = _upvar_index(clo, rl)
    if k is None or not clo.parent or clo.parent not in facts.bodies:
        return False
    P = facts.bodies[clo.parent]
    chan_rx = None
    for site, st in P.assigns():
        rv = st["rv"]
        if rv["k"] == "agg" and rv.get("akind") == "closure" and rv.get("name") == clo.name:
            src, _, _ = origins(P, rv["ops"][k])
            cs = [o for o in src if o.kind == "call" and re.search(r"mpsc::channel$", o.what)]
            if len(cs) == 1:
                chan_rx = cs[0].site.bb
    chan_tx = None
    for s in P.calls(re.compile(r"OnceLock::set$")):
        if s.node["args"][0].get("static", "").endswith("DELETION_TX") or any(
                o.kind == "static" and str(o.what).endswith("DELETION_TX") for o in origins(P, s.node["args"][0])[0]):
            src, _, _ = origins(P, s.node["args"][1], passthrough_extra=[r"Arc::new$"])
            cs = [o for o in src if o.kind == "call" and re.search(r"mpsc::channel$", o.what)]
            if len(cs) == 1:
                chan_tx = cs[0].site.bb
    return chan_rx is not None and chan_rx == chan_tx


def check_who_may_delete(ctx, facts):
    n = 0
    for name, b in facts.bodies.items():
        if b.j["derived"]:
            continue
        F = common.short_fn(name)
        for s in b.calls(re.compile(r"^std::fs::(remove_file|remove_dir_all|remove_dir)$")):
            ctx.saw_body(b)
            n += 1
            if not F.startswith("background::start_background_workers::{closure"):
                ctx.violate("C12.1", F, "file-deleted-outside-reclaimer", b.relfile, s.line, "%s deletes files; only the background reclaimer may" % F)
                continue
            src, _, _ = origins(b, s.node["args"][0], follow_all_calls=False, passthrough_extra=[r"::drain$", r"Drain.*::next$"])
            # the path must come from the pending set, which is filled only from the deletion channel
            pend = None
            for o in src:
                if o.kind == "call" and re.search(r"HashSet::drain$", o.what):
                    pend = borrowed_local(b, o.site.node["args"][0])
            drains = [x for x in b.calls(re.compile(r"HashSet::drain$"))]
            if pend is None and drains:
                pend = borrowed_local(b, drains[0].node["args"][0])
            if pend is None:
                ctx.violate("C12.1", F, "deleted-path-origin", b.relfile, s.line, "the deleted path does not come from a drained pending set")
                continue
            ok = True
            n_ins = 0
            for ins in b.calls(re.compile(r"HashSet::insert$")):
                if borrowed_local(b, ins.node["args"][0]) != pend:
                    continue
                n_ins += 1
                isrc, _, _ = origins(b, ins.node["args"][1])
                if not any(re.search(r"mpsc::Receiver::try_recv$|mpsc::Receiver::recv$|mpsc::Receiver::recv_timeout$", c) for c in origin_calls(isrc)):
                    ok = False
                    ctx.violate("C12.1", F, "pending-set-fed-from-elsewhere", b.relfile, ins.line, "a path is queued for deletion that does not come from the deletion channel")
                else:
                    # which receiver? it must be the receiving end of the channel whose sender is
                    # published as DELETION_TX (matched through the closure capture, not by name)
                    for o in isrc:
                        if o.kind == "call" and "try_recv" in o.what:
                            rl = borrowed_local(b, o.site.node["args"][0])
                            if not receiver_is_deletion_channel(facts, b, rl):
                                ok = False
                                ctx.violate("C12.1", F, "pending-set-fed-from-other-channel", b.relfile, ins.line,
                                            "paths queued for deletion are received from a channel other than the one published as DELETION_TX")
            # the set filled in one go: `pending.extend(rx.try_iter())`
            for ins in b.calls(re.compile(r"::extend$")):
                if not ins.node["args"] or borrowed_local(b, ins.node["args"][0]) != pend:
                    continue
                n_ins += 1
                isrc, _, _ = origins(b, ins.node["args"][1], follow_all_calls=True, stop_calls=[r"mpsc::Receiver::(try_iter|iter)$"])
                rx = [o for o in isrc if o.kind == "call" and re.search(r"mpsc::Receiver::(try_iter|iter)$", o.what)]
                other = [o for o in isrc if o.kind == "call" and not re.search(r"mpsc::Receiver::(try_iter|iter)$|::inspect$|::into_iter$|::map$|::filter$", o.what)]
                if not rx or other or any(o.kind in ("arg", "static") for o in isrc):
                    ok = False
                    ctx.violate("C12.1", F, "pending-set-fed-from-elsewhere", b.relfile, ins.line, "a path is queued for deletion that does not come from the deletion channel")
                else:
                    for o in rx:
                        rl = borrowed_local(b, o.site.node["args"][0])
                        if not receiver_is_deletion_channel(facts, b, rl):
                            ok = False
                            ctx.violate("C12.1", F, "pending-set-fed-from-other-channel", b.relfile, ins.line,
                                        "paths queued for deletion are received from a channel other than the one published as DELETION_TX")
            if ok and n_ins:
                ctx.ok("C12.1", F, "remove_file only on paths received from the deletion channel", b.relfile, s.line)
            elif not n_ins:
                ctx.violate("C12.1", F, "pending-set-never-filled", b.relfile, s.line, "pending set has no insert from the deletion channel")
    ctx.floor("C12.1", "file deletion sites", n, 1)
    # DELETION_TX references
    refs = {}
    for name, b in facts.bodies.items():
        if b.j["derived"]:
            continue
        for site, st in b.assigns():
            for o in (st["rv"].get("ops") or []) + [st["rv"].get("op")] if st["rv"]["k"] in ("use", "agg", "cast") else []:
                if o and o.get("static", "").endswith("DELETION_TX"):
                    refs.setdefault(common.short_fn(name), site)
            if st["rv"]["k"] == "use" and st["rv"]["op"].get("static", "").endswith("DELETION_TX"):
                refs.setdefault(common.short_fn(name), site)
        for s in b.calls():
            for a in s.node["args"]:
                if a.get("static", "").endswith("DELETION_TX"):
                    refs.setdefault(common.short_fn(name), s)
    allowed = {"allocator::flush_check", "background::start_background_workers"}
    for f, site in sorted(refs.items()):
        if f in allowed:
            ctx.ok("C12.1", f, "references DELETION_TX", site.body.relfile, site.line)
        else:
            ctx.violate("C12.1", f, "unexpected-DELETION_TX-user", site.body.relfile, site.line, "%s uses the deletion channel; only flush_check may request deletions" % f)
    ctx.floor("C12.1", "bodies referencing DELETION_TX", len(set(refs) & allowed), 2)


def snapshot_field_map(ctx, facts):
    """slot -> FileState field for the value FileStateTracker::get_state_snapshot hands out: a 4-tuple (slot = index) or a
    struct with four fields (slot = field name), built in the function itself or in a closure of it"""
    b = facts.body("allocator::FileStateTracker::get_state_snapshot")
    ctx.saw_body(b)
    best = {}
    for bd in [b] + facts.closures_of(b):
        for site, st in bd.assigns():
            rv = st["rv"]
            if rv["k"] != "agg" or len(rv.get("ops") or []) != 4:
                continue
            if rv.get("akind") == "tuple":
                slots = list(range(4))
            elif rv.get("akind") == "adt" and rv.get("fields") and len(rv["fields"]) == 4:
                slots = list(rv["fields"])
            else:
                continue
            fmap = {}
            for slot, o in zip(slots, rv["ops"]):
                src, _, _ = origins(bd, o, stop_calls=[r"Atomic.*::load$"])
                loads = [x for x in src if x.kind == "call" and re.search(r"Atomic::load$", x.what)]
                if len(loads) == 1:
                    pr = provenance(bd, loads[0].site.node["args"][0])
                    fs = [x.what[1] for x in pr if x.kind == "field" and x.what[0].endswith("FileState")]
                    if len(fs) == 1:
                        fmap[slot] = fs[0]
            if len(fmap) > len(best):
                best = fmap
    return best


def check_ready_predicate(ctx, facts):
    fc = facts.body("allocator::flush_check")
    ctx.saw_body(fc)
    F = common.short_fn(fc.name)
    fmap = snapshot_field_map(ctx, facts)
    want = {"locked_block_ctr", "checkpoint_block_ctr", "total_blocks", "is_fully_allocated"}
    if set(fmap.values()) != want or len(fmap) != 4:
        ctx.violate("C12.2", "allocator::FileStateTracker::get_state_snapshot", "snapshot-field-mapping", fc.relfile, None,
                    "get_state_snapshot no longer returns the four FileState counters one per slot of a tuple / field of a struct (got %s)" % fmap)
        return
    ctx.ok("C12.2", "allocator::FileStateTracker::get_state_snapshot", "tuple slots map to FileState fields", fc.relfile, None, str(fmap))
    sends = [s for s in fc.calls(re.compile(r"mpsc::Sender::send$"))]
    snaps = [s for s in fc.calls(re.compile(r"FileStateTracker::get_state_snapshot$"))]
    if not sends or len(snaps) != 1:
        ctx.anchor_missing("C12.2", "send / get_state_snapshot in flush_check")
        return
    snap = snaps[0]
    snap_local = snap.node["dest"]["l"]
    idx_of = {v: k for k, v in fmap.items()}

    cur = {}

    def model(interp, env, t, argv):
        cn = strip_generics(t.get("callee") or "")
        if cn.endswith("FileStateTracker::get_state_snapshot"):
            return {"__discr": 1, "0": cur["tup"]}
        if cn.endswith("OnceLock::get"):
            return {"__discr": 1, "0": Sym("tx")}
        return Sym("opaque:" + cn.split("::")[-1])

    it = Interp(fc, call_model=model)
    send_blocks = {s.bb for s in sends}
    bad = []
    n_reach = 0
    n_eval = 0
    dom = (0, 1, 2, 3)
    for locked in dom:
        for cp in dom:
            for total in dom:
                for fully in (False, True):
                    vals = {"locked_block_ctr": locked, "checkpoint_block_ctr": cp, "total_blocks": total, "is_fully_allocated": fully}
                    if all(isinstance(k_, int) for k_ in fmap):
                        tup = [None] * 4
                        for fld, v_ in vals.items():
                            tup[idx_of[fld]] = v_
                        cur["tup"] = tuple(tup)
                    else:
                        cur["tup"] = {idx_of[fld]: v_ for fld, v_ in vals.items()}   # a struct: field name -> value
                    env = {1: Sym("file_path")}
                    try:
                        r = it.run({}, start_bb=0, stop_blocks=send_blocks, env=env)
                    except Undecided as e:
                        ctx.violate("C12.2", F, "predicate-undecided", fc.relfile, snap.line, "the readiness region cannot be evaluated over the abstract domain (%s): fail closed" % e)
                        return
                    n_eval += 1
                    reached = r[0] == "stop"
                    required = fully and locked == 0 and total > 0 and cp >= total
                    if reached:
                        n_reach += 1
                    if reached and not required:
                        bad.append((locked, cp, total, fully))
    if bad:
        l, c, t, f = bad[0]
        missing = []
        if any(not b[3] for b in bad):
            missing.append("fully_allocated")
        if any(b[0] != 0 for b in bad):
            missing.append("locked == 0")
        if any(b[2] == 0 for b in bad):
            missing.append("total > 0")
        if any(b[1] < b[2] for b in bad):
            missing.append("checkpointed >= total")
        ctx.violate("C12.2", F, "deletion-requested-when-not-ready", fc.relfile, sends[0].line,
                    "flush_check sends a deletion request with (locked=%d, checkpointed=%d, total=%d, fully_allocated=%s): conjunct(s) %s are not enforced" % (l, c, t, f, missing))
    else:
        ctx.ok("C12.2", F, "deletion request only under all four readiness conjuncts", fc.relfile, sends[0].line,
               "%d valuations of (locked, checkpointed, total) in {0..3}^3 x bool evaluated over the sub-CFG; send reached in %d" % (n_eval, n_reach))
    if n_reach == 0:
        ctx.note("flush_check never reaches the send on the abstract domain (reclamation disabled): safe for C12")
    # the snapshot must be taken for the same path that is sent
    src, _, _ = origins(fc, sends[0].node["args"][1])
    if origin_args(src) and "file_path" in origin_args(src) and not origin_calls(src):
        ctx.ok("C12.2", F, "the path sent is the path whose state was tested", fc.relfile, sends[0].line)
    else:
        ctx.violate("C12.2", F, "sent-path-differs", fc.relfile, sends[0].line, "the path sent for deletion is not the function's file_path argument")


def judge_mark(ctx, b, s, id_op, caller, idem, via=None, facts=None, mark_site=None):
    """s: the site that stands for the mark (the call itself, or the push of the id into a collector)"""
    # (1) cursor at end of block
    end_ok = False
    cursor_ok = False
    planned = False
    from .c02 import end_guards, _is_cursor_offset_load
    from .core.symexpr import expr as _expr, strip_refs as _sr
    for edge, off_op in end_guards(b):
        if not b.edge_guards(edge, s.bb):
            continue
        # same block whose id is marked
        asrc, _, _ = origins(b, id_op)
        if not any(o.kind == "field" and o.what[1] == "id" for o in asrc):
            continue
        # what is compared with block.used must be a position the consumer has really reached:
        # the cursor's own offset, or that offset plus the size of the entry a consuming
        # read_next has just read (and returns). A *planned* end of range is not: the parser
        # may stop before it (entry cap, byte budget, incomplete entry)
        ea = _sr(_expr(b, off_op))
        reached = _is_cursor_offset_load(b, off_op)
        if reached:
            cursor_ok = True
        if not reached and facts is not None:
            # the position the parser has reached: the value it commits as the cursor offset
            from .c02 import cursor_carriers
            if op_local(b.resolve_copy(off_op)) in cursor_carriers(facts, b, "cur_block_offset"):
                reached = True
        if not reached and ea[0] == "Add":
            osrc2, _, _ = origins(b, off_op)
            if any(o.kind == "call" and o.what.endswith("block::Block::read") for o in osrc2) and guarded(b, s.bb, checkpoint_edges(b)):
                reached = True
        if reached:
            end_ok = True
        else:
            planned = True
    if end_ok:
        ctx.ok("C12.3", caller, "mark dominated by `cursor offset >= block.used`" + (" (%s)" % via if via else ""), b.relfile, s.line)
    elif planned:
        ctx.violate("C12.3", caller, "mark-on-planned-position", b.relfile, s.line,
                    "a block is marked consumed because a position that has only been planned (not the cursor's own offset, nor the end of an entry this call "
                    "returns) reaches block.used: the parser can stop earlier (entry cap, byte budget, incomplete entry), the cursor is then committed inside the block "
                    "and the file can be reclaimed while entries of it are still unconsumed")
    else:
        ctx.violate("C12.3", caller, "mark-not-at-end-of-block", b.relfile, s.line, "a block is marked consumed without the cursor being at its end")
    # (2) consuming read, or a mark justified by the shared cursor standing at the end of the
    #     block (all its entries were consumed earlier) provided marks are idempotent
    if mark_site is not None and guarded(mark_site.body, mark_site.bb, checkpoint_edges(mark_site.body)):
        ctx.ok("C12.3", caller, "the mark (in the commit closure) is guarded by checkpoint", mark_site.body.relfile, mark_site.line)
    elif guarded(b, s.bb, checkpoint_edges(b)):
        ctx.ok("C12.3", caller, "mark is guarded by checkpoint", b.relfile, s.line)
    elif end_ok and cursor_ok and idem and (caller != "walrus_read::batch_read_for_topic" or guarded(b, s.bb, stateful_edges(b)[0])):
        ctx.ok("C12.3", caller, "mark justified by the shared cursor at end of block; marks are idempotent (C12.4)", b.relfile, s.line)
    else:
        ctx.violate("C12.3", caller, "mark reachable from a non-consuming read", b.relfile, s.line,
                    "set_checkpointed_true is reachable with checkpoint=false and is not an idempotent, cursor-justified mark: peeks/empty polls count blocks as consumed")


def check_marks(ctx, facts):
    idem = idempotent_marks(facts)
    cs = callers_of(facts, "allocator::BlockStateTracker::set_checkpointed_true")
    n_read = 0
    for caller, sites in sorted(cs.items()):
        for s in sites:
            b = s.body
            ctx.saw_body(b)
            base = re.sub(r"::\{closure#\d+\}.*$", "", caller)
            if base in ("walrus_read::read_next", "walrus_read::batch_read_for_topic") and base != caller:
                # a mark inside a closure of a read path: accepted only as the drain of a collector - the id comes
                # from iterating a captured Vec - and then every push into that Vec in the parent is judged as
                # the mark site it stands for
                n_read += 1
                from .core.symexpr import expr as _expr, strip_refs as _sr, show as _show
                parent = facts.body(base.split("::")[-1])
                txt = _show(_sr(_expr(b, s.node["args"][0])), 10)
                m = re.search(r"_1\.(\w+)", txt)
                coll = [l for l in parent.defs if m and parent.local_name(l) == m.group(1) and "Vec<" in parent.local_ty(l)] if m else []
                pushes = []
                for c in parent.calls(re.compile(r"Vec::push$|Vec(::<[^>]*>)?::push$")):
                    bl = borrowed_local(parent, c.node["args"][0])
                    if bl in coll:
                        pushes.append(c)
                if not coll or not pushes or "next(" not in txt and "iter" not in txt:
                    ctx.violate("C12.3", base, "mark-in-closure-not-judged", b.relfile, s.line,
                                "set_checkpointed_true is called from a closure of %s with an id (%s) that is not the drain of a collector filled in the function: the rule cannot "
                                "tie the mark to a position the consumer has reached (fail closed)" % (base, txt[:80]))
                    continue
                for c in pushes:
                    judge_mark(ctx, parent, c, c.node["args"][1], base, idem, via="pushed into `%s`, which the commit closure marks" % m.group(1), facts=facts, mark_site=s)
                continue
            if caller in ("walrus_read::read_next", "walrus_read::batch_read_for_topic"):
                n_read += 1
                judge_mark(ctx, b, s, s.node["args"][0], caller, idem, facts=facts)
            elif caller == "walrus::Walrus::startup_chore":
                asrc, _, _ = origins(b, s.node["args"][0], passthrough_extra=[r"slice::(get|first|last|get_unchecked)$", r"::take$", r"::skip$", r"::rev$", r"::filter$"])
                from_chain = any(o.kind == "field" and o.what[1] == "chain" for o in asrc) and any(o.kind == "field" and o.what[1] == "id" for o in asrc)
                if not from_chain and any(o.kind == "call" and re.search(r"Option::(map|and_then)$", o.what) for o in asrc):
                    # `chain.get(ib).map(|blk| (blk.id, blk.used))`: the id is read inside the mapping closure
                    asrc, _, _ = origins(b, s.node["args"][0], follow_all_calls=True)
                    from_chain = any(o.kind == "field" and o.what[1] == "chain" for o in asrc) and any(o.kind == "field" and o.what[1] == "id" for o in asrc)
                # dominated by the Some edge of WalIndex::get
                have_pos = False
                for T in all_tests(b):
                    if T.kind == "discr":
                        cs2 = call_site_of(b, {"k": "copy", "place": {"l": T.place["l"], "p": []}})
                        if cs2 is not None and re.search(r"WalIndex::get$", callee_name(cs2.node)):
                            e = T.variant_edges.get(1)
                            if e and b.edge_guards(e, s.bb):
                                have_pos = True
                if from_chain and have_pos:
                    ctx.ok("C12.3", caller, "recovery mark uses a chain block id under a persisted position", b.relfile, s.line)
                else:
                    ctx.violate("C12.3", caller, "recovery-mark-unjustified", b.relfile, s.line, "recovery marks a block consumed without a persisted cursor position covering it")
    ctx.floor("C12.3", "consumed-mark sites in the read paths", n_read, 2)


def idempotent_marks(facts):
    """True iff every increment of FileState.checkpoint_block_ctr is control-dependent on an atomic
    read-modify-write of BlockState.is_checkpointed (C12.4 holds)."""
    class _N:
        def __getattr__(self, k):
            return lambda *a, **kw: None
    res = check_idempotence(_N(), facts, collect=True)
    return bool(res) and all(res)


def check_idempotence(ctx, facts, collect=False):
    results = []
    ATOM = r"sync::atomic::Atomic(::<[^>]*>)?::"
    loads, stores, rmws = [], [], []
    for name, b in facts.bodies.items():
        if b.j["derived"]:
            continue
        for s in b.calls(re.compile(ATOM + r"(load|store|swap|compare_exchange|compare_exchange_weak|fetch_or|fetch_and)$")):
            pr = provenance(b, s.node["args"][0])
            if any(o.kind == "field" and o.what == ("wal::runtime::allocator::BlockState", "is_checkpointed") for o in pr):
                op = callee_name(s.node).split("::")[-1]
                (loads if op == "load" else stores if op == "store" else rmws).append(s)
    incs = []
    for name, b in facts.bodies.items():
        if b.j["derived"]:
            continue
        for s in b.calls(re.compile(ATOM + r"(fetch_add|store|swap)$")):
            pr = provenance(b, s.node["args"][0])
            if any(o.kind == "field" and o.what == ("wal::runtime::allocator::FileState", "checkpoint_block_ctr") for o in pr):
                incs.append(s)
    if not incs:
        ctx.anchor_missing("C12.4", "increment of FileState.checkpoint_block_ctr")
        return
    # the increment must be controlled by the previous value of the flag: in its own body, or - through the
    # bodies that call (or, for a closure, create) it - in every caller, up to the body that performs the swap
    def controlled(b, bb, depth=0, seen=None):
        """(verdict, body, line) - verdict True iff every way of reaching block bb of body b passes a branch on the result of the flag's RMW"""
        seen = seen if seen is not None else set()
        rm = [r for r in rmws if r.body is b]
        for r in rm:
            t = Taint(b, [r.node["dest"]["l"]], track_memory=False)
            for tb, (region, join) in t.branches.items():
                if bb in region:
                    return True, b, None
        if depth >= 5 or b.name in seen:
            return False, b, None
        seen = seen | {b.name}
        ups = []
        if b.kind == "Closure" and b.parent in facts.bodies:
            P = facts.bodies[b.parent]
            for site, st in P.assigns():
                rv = st["rv"]
                if rv["k"] == "agg" and rv.get("akind") == "closure" and rv.get("name") == b.name:
                    ups.append((P, site.bb, site.line))
            # the parent may have been absorbed into its callers (core/inline.py)
            for nm, B2 in facts.bodies.items():
                if b.parent in (B2.j.get("absorbed_parents") or ()):
                    for site, st in B2.assigns():
                        rv = st["rv"]
                        if rv["k"] == "agg" and rv.get("akind") == "closure" and rv.get("name") == b.name:
                            ups.append((B2, site.bb, site.line))
        else:
            for c_, ss in callers_of(facts, common.short_fn(b.name)).items():
                for s_ in ss:
                    ups.append((s_.body, s_.bb, s_.line))
        ups = [u for u in ups if not u[0].j.get("absorbed")]
        if not ups:
            return False, b, None
        for P, pbb, pline in ups:
            ok_, wb, wl = controlled(P, pbb, depth + 1, seen)
            if not ok_:
                return False, P, pline
        return True, ups[0][0], ups[0][2]

    for inc in incs:
        b = inc.body
        ctx.saw_body(b)
        dep, wb, wl = controlled(b, inc.bb)
        results.append(dep)
        holder = common.short_fn(b.name)
        if dep:
            ctx.ok("C12.4", holder, "consumed counter increment is controlled by the previous flag value", b.relfile, inc.line)
        else:
            detail = "is_checkpointed is stored %d time(s), loaded %d time(s), read-modify-written %d time(s) in the crate" % (len(stores), len(loads), len(rmws))
            ctx.violate("C12.4", common.short_fn(wb.name), "consumed-counter-increment-not-idempotent", wb.relfile, wl or inc.line,
                        "every call increments the per-file consumed counter, whether or not this block was already marked (%s): repeated marks of one block "
                        "inflate the counter past total_blocks and a file with unconsumed blocks becomes deletable" % detail)
    return results


def check_block_file_agreement(ctx, facts, rid="C12.5"):
    n = 0
    for fn in ("allocator::BlockAllocator::get_next_available_block", "allocator::BlockAllocator::alloc_block"):
        b = facts.body(fn)
        ctx.saw_body(b)
        regs = b.calls(re.compile(r"BlockStateTracker::register_block$|FileStateTracker::add_block_to_file_state$"))
        aggs = [site for site, st in b.assigns() if st["rv"]["k"] == "agg" and st["rv"].get("akind") == "adt" and str(st["rv"].get("name", "")).endswith("block::Block")]
        # ... or handed out as a copy of the allocator's own record (`data.clone()`)
        aggs += [c for c in b.calls(re.compile(r"Clone>?::clone$")) if c.node["args"] and b.local_ty(c.node["dest"]["l"]).endswith("block::Block")]
        if not regs or not aggs:
            ctx.anchor_missing(rid, "register_block / Block construction in " + fn)
            continue
        stores = []
        for site, st in b.assigns():
            p_ = st["place"]
            if any(e == "*" for e in p_["p"]) and p_["p"] and isinstance(p_["p"][-1], dict) and p_["p"][-1].get("n") == "file_path" and str(p_["p"][-1].get("o", "")).endswith("block::Block"):
                stores.append(site)
        for c in b.calls(re.compile(r"^std::mem::(replace|swap|take)$")):
            if c.node["args"] and ".file_path" in show(strip_refs(expr(b, c.node["args"][0])), 8):
                stores.append(c)
        def ix(x):
            return 10 ** 9 if x.idx == "term" else x.idx

        def leads(x, y):
            return (x.bb == y.bb and ix(x) < ix(y)) or (y.bb in b.reachable_after(x.bb) and not (x.bb == y.bb))
        for r in regs:
            n += 1
            bad = None
            # where the path handed over was READ from the allocator's record (the registration may use a copy taken earlier)
            reads = []
            if len(r.node["args"]) >= 1:
                parg = r.node["args"][-1]
                _src, _locs, trav = origins(b, parg, follow_all_calls=True)
                for x in trav:
                    nd = x.node
                    if x.idx == "term":
                        if re.search(r"Clone>?::clone$|::to_string$|::to_owned$", strip_generics(nd.get("callee") or "")) and nd.get("args") and ".file_path" in show(strip_refs(expr(b, nd["args"][0])), 8):
                            reads.append(x)
                    elif nd.get("k") == "assign" and nd["rv"]["k"] in ("use", "ref"):
                        pl_ = op_place(nd["rv"]["op"]) if nd["rv"]["k"] == "use" else nd["rv"]["place"]
                        if pl_ is not None and pl_["p"] and isinstance(pl_["p"][-1], dict) and pl_["p"][-1].get("n") == "file_path" and any(e == "*" for e in pl_["p"]):
                            reads.append(x)
            anchors = reads or [r]
            for a in aggs:
                for s_ in stores:
                    for r_ in anchors:
                        if (leads(r_, s_) and leads(s_, a)) or (leads(a, s_) and leads(s_, r_)):
                            bad = bad or (s_, a)
            if bad:
                ctx.violate(rid, fn, "block-registered-with-another-file", b.relfile, r.line,
                            "%s is given the allocator's file_path at line %s, but the file_path is replaced (line %s, rollover to a new file) before the Block that is handed out is "
                            "built (line %s): the block is accounted to the previous file, which can then be reclaimed while this block - or a block of its own - is unread"
                            % (callee_name(r.node).split("::")[-1], r.line, bad[0].line, bad[1].line))
            else:
                ctx.ok(rid, fn, "%s uses the file_path the handed-out Block carries" % callee_name(r.node).split("::")[-1], b.relfile, r.line)
    ctx.floor(rid, "block registrations in the allocator", n, 2)


def run(ctx):
    for k, v in RULES.items():
        ctx.rule(k, v)
    facts = common.mir(ctx, "walrus_rust")
    check_who_may_delete(ctx, facts)
    check_ready_predicate(ctx, facts)
    check_wmc(ctx, facts)
    check_marks(ctx, facts)
    check_idempotence(ctx, facts)
    check_block_file_agreement(ctx, facts)
    ctx.assume("'durably consumed' under AtLeastOnce and cross-instance block-id collisions (C13) are not decided here")
    ctx.assume("the readiness predicate is evaluated over (locked, checkpointed, total) in {0..3}^3 x bool: comparisons against constants <= 1 and between the counters are decided exactly on that domain")
    return {
        "explanation": "who-may-call tables over the resolved call graph for every reclamation tracker mutator and for file deletion, evaluation of the readiness predicate's "
                       "sub-CFG in flush_check over a finite abstract domain, edge-dominance obligations for every consumed-mark site, and a contradiction rule for the write-only "
                       "is_checkpointed flag (control dependence of the counter increment on an atomic read-modify-write of the flag).",
    }
