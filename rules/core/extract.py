"""Fact extraction: runs the mirfacts driver (MIR) / astfacts (syntax) over the current
working tree of /repo.  Facts are a deterministic function of the sources, so they are
cached under a key that is the SHA-256 of every input file; a cache hit is therefore
exactly the facts of the tree as it is now.  The driver copies the key into the fact
file (nonce) and facts with a different nonce are refused."""
import fcntl
import hashlib
import json
import os
import shutil
import subprocess
import sys
import time

VERIF = os.path.dirname(os.path.dirname(os.path.dirname(os.path.abspath(__file__))))
REPO = os.environ.get("VERIF_REPO", "/repo")
CACHE = os.environ.get("VERIF_CACHE", "/var/tmp/walrus-verif-cache")
MIRFACTS = os.path.join(VERIF, "tools", "mirfacts", "target", "debug", "mirfacts")
ASTFACTS = os.path.join(VERIF, "tools", "astfacts", "target", "debug", "astfacts")


class ExtractError(Exception):
    pass


def _cache_dir():
    global CACHE
    try:
        os.makedirs(os.path.join(CACHE, "facts"), exist_ok=True)
    except OSError:
        CACHE = os.path.join(VERIF, ".cache")
        os.makedirs(os.path.join(CACHE, "facts"), exist_ok=True)
    return CACHE


def _sha_files(paths, extra=b""):
    h = hashlib.sha256()
    h.update(extra)
    for p in sorted(paths):
        h.update(p.encode())
        h.update(b"\0")
        try:
            with open(p, "rb") as f:
                h.update(f.read())
        except OSError:
            h.update(b"<missing>")
        h.update(b"\0")
    return h.hexdigest()[:24]


def _walk_rs(root):
    out = []
    for d, dirs, files in os.walk(root):
        dirs[:] = [x for x in dirs if x not in ("target", ".git")]
        for f in files:
            if f.endswith(".rs") or f in ("Cargo.toml", "Cargo.lock"):
                out.append(os.path.join(d, f))
    return out


def _tool_stamp(path):
    try:
        st = os.stat(path)
        return ("%s:%d:%d" % (path, st.st_size, int(st.st_mtime))).encode()
    except OSError:
        raise ExtractError("tool not built: %s (run MANIFEST.setup_cmd: ./setup.sh)" % path)


def nightly_sysroot():
    return subprocess.check_output(["rustc", "+nightly", "--print", "sysroot"], text=True).strip()


# crate configurations -------------------------------------------------------
def _cfg(crate):
    repo = REPO
    if crate == "walrus_rust":
        return {
            "dir": repo,
            "inputs": _walk_rs(os.path.join(repo, "src")) + [os.path.join(repo, "Cargo.toml"), os.path.join(repo, "Cargo.lock"), os.path.join(repo, "build.rs")],
            "pkg_fingerprint": "walrus-rust-",
            "cargo_args": ["--lib"],
        }
    if crate in ("dwshim", "oshim"):
        src = os.path.join(VERIF, "harness", crate)
        if crate == "dwshim":
            repo_inputs = [os.path.join(repo, "distributed-walrus/src/metadata.rs"), os.path.join(repo, "distributed-walrus/src/controller/types.rs")]
            lib = ('#![allow(warnings)]\n#[path = "%s/distributed-walrus/src/metadata.rs"]\npub mod metadata;\n'
                   '#[path = "%s/distributed-walrus/src/controller/types.rs"]\npub mod types;\n' % (repo, repo))
        else:
            repo_inputs = _walk_rs(os.path.join(repo, "octopii/src/wal/wal"))
            lib = '#![allow(warnings)]\npub mod wal {\n    #[path = "%s/octopii/src/wal/wal/mod.rs"]\n    pub mod wal;\n}\n' % repo
        # the harness is instantiated outside /verif so that the #[path] can follow VERIF_REPO
        tag = hashlib.sha256(repo.encode()).hexdigest()[:10]
        hd = os.path.join(_cache_dir(), "harness-%s-%s" % (crate, tag))
        if not os.path.isdir(hd):
            shutil.copytree(src, hd, ignore=shutil.ignore_patterns("target"))
        libp = os.path.join(hd, "src", "lib.rs")
        cur = open(libp).read() if os.path.exists(libp) else ""
        if cur != lib:
            with open(libp, "w") as f:
                f.write(lib)
        for rel in ("Cargo.toml", "Cargo.lock"):
            sp, dp = os.path.join(src, rel), os.path.join(hd, rel)
            if os.path.exists(sp) and (not os.path.exists(dp) or open(sp).read() != open(dp).read()):
                shutil.copy(sp, dp)
        return {
            "dir": hd,
            "inputs": [os.path.join(src, "Cargo.toml")] + _walk_rs(os.path.join(src, "stubs")) + repo_inputs,
            "pkg_fingerprint": crate + "-",
            "cargo_args": ["--lib"],
        }
    raise ExtractError("unknown crate " + crate)


def mir_facts(crate, log=None):
    """Return (path_to_facts_json, info dict). Extracts if the cache has no facts for
    the current content hash."""
    cache = _cache_dir()
    cfg = _cfg(crate)
    key = _sha_files(cfg["inputs"], _tool_stamp(MIRFACTS) + crate.encode())
    out = os.path.join(cache, "facts", "%s-%s.json" % (crate, key))
    info = {"crate": crate, "source_hash": key, "reused": True, "extract_s": 0.0, "n_inputs": len(cfg["inputs"])}
    if os.path.exists(out) and os.environ.get("VERIF_NO_FACT_CACHE") != "1":
        return out, info
    lock_path = os.path.join(cache, "lock-" + crate)
    with open(lock_path, "w") as lk:
        fcntl.flock(lk, fcntl.LOCK_EX)
        if os.path.exists(out) and os.environ.get("VERIF_NO_FACT_CACHE") != "1":
            return out, info
        t0 = time.time()
        target = os.path.join(cache, "target-" + crate)
        # cargo replays cached results and skips the wrapper when the member is fresh
        fp = os.path.join(target, "debug", ".fingerprint")
        if os.path.isdir(fp):
            for d in os.listdir(fp):
                if d.startswith(cfg["pkg_fingerprint"]):
                    shutil.rmtree(os.path.join(fp, d), ignore_errors=True)
        tmp_out = os.path.join(cache, "facts", "tmp-%s-%d" % (crate, os.getpid()))
        os.makedirs(tmp_out, exist_ok=True)
        env = dict(os.environ)
        env.update({
            "CARGO_NET_OFFLINE": "true",
            "LD_LIBRARY_PATH": os.path.join(nightly_sysroot(), "lib") + ":" + env.get("LD_LIBRARY_PATH", ""),
            "RUSTFLAGS": "-Zmir-opt-level=0 -Awarnings",
            "RUSTC_WORKSPACE_WRAPPER": MIRFACTS,
            "CARGO_TARGET_DIR": target,
            "MIRFACTS_CRATES": crate,
            "MIRFACTS_OUT": tmp_out,
            "MIRFACTS_NONCE": key,
        })
        env.pop("RUSTC_WRAPPER", None)
        cmd = ["cargo", "+nightly", "check", "--offline"] + cfg["cargo_args"]
        p = subprocess.run(cmd, cwd=cfg["dir"], env=env, stdout=subprocess.PIPE, stderr=subprocess.STDOUT, text=True)
        produced = os.path.join(tmp_out, crate + ".json")
        if p.returncode != 0 or not os.path.exists(produced):
            shutil.rmtree(tmp_out, ignore_errors=True)
            tail = "\n".join(p.stdout.splitlines()[-40:])
            raise ExtractError("cargo check of %s failed (exit %s) or wrote no facts:\n%s" % (crate, p.returncode, tail))
        with open(produced) as f:
            head = f.read(4096)
        if ('"nonce":"%s"' % key) not in head:
            shutil.rmtree(tmp_out, ignore_errors=True)
            raise ExtractError("fact file for %s has a stale nonce" % crate)
        os.replace(produced, out)
        shutil.rmtree(tmp_out, ignore_errors=True)
        # keep the cache small: drop older fact files of this crate
        keep = sorted((f for f in os.listdir(os.path.join(cache, "facts")) if f.startswith(crate + "-") and f.endswith(".json")),
                      key=lambda f: os.path.getmtime(os.path.join(cache, "facts", f)))
        for f in keep[:-6]:
            try:
                os.remove(os.path.join(cache, "facts", f))
            except OSError:
                pass
        info["reused"] = False
        info["extract_s"] = round(time.time() - t0, 2)
    return out, info


def ast_facts(files, log=None):
    """files: list of paths relative to REPO. Returns (dict relpath -> facts json, info)."""
    cache = _cache_dir()
    abs_files = [os.path.join(REPO, f) for f in files]
    for a in abs_files:
        if not os.path.exists(a):
            raise ExtractError("source file missing: " + a)
    key = _sha_files(abs_files, _tool_stamp(ASTFACTS))
    out = os.path.join(cache, "facts", "ast-%s.json" % key)
    info = {"source_hash": key, "reused": True, "n_inputs": len(files)}
    if not (os.path.exists(out) and os.environ.get("VERIF_NO_FACT_CACHE") != "1"):
        t0 = time.time()
        p = subprocess.run([ASTFACTS] + abs_files, stdout=subprocess.PIPE, stderr=subprocess.PIPE, text=True)
        if p.returncode != 0:
            raise ExtractError("astfacts failed: " + p.stderr[-2000:])
        tmp = out + ".%d.tmp" % os.getpid()
        with open(tmp, "w") as f:
            f.write(p.stdout)
        os.replace(tmp, out)
        info["reused"] = False
        info["extract_s"] = round(time.time() - t0, 2)
    with open(out) as f:
        j = json.load(f)
    res = {}
    for f, a in zip(files, abs_files):
        res[f] = j["files"][a]
    return res, info
