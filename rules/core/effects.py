"""Effect analysis: which program points mutate tracked (observable) engine state.

Primitive effects are recognised on MIR:
  store:<Adt>.<field>    assignment through a pointer to a field of a tracked ADT
  mut:<Adt>.<field>      call taking `&mut` (or an interior-mutability handle: atomic RMW /
                         store, RwLock::write, Mutex::lock followed by a store) derived from a
                         tracked field or a tracked static
  send                   mpsc::Sender::send
  fs:<op>                filesystem mutation
and are closed over the crate-local call graph into per-function summaries.  An *effect
site* of a body is a primitive effect in it or a call to a local function (or closure)
whose summary is non-empty."""
import re
from .mir import op_place, strip_generics, callee_name, rv_operands, Site
from .slicing import origins

TRACKED_ADTS = {
    "wal::runtime::reader::ColReaderInfo": "reader cursor state",
    "wal::runtime::allocator::BlockState": "per-block reclamation flag",
    "wal::runtime::allocator::FileState": "per-file reclamation counters",
}
TRACKED_FIELDS = {
    ("wal::runtime::index::WalIndex", "store"): "persisted read offsets",
    ("wal::runtime::walrus::Walrus", "topic_entry_counts"): "per-topic entry counts",
}
ATOMIC_MUT = re.compile(r"sync::atomic::Atomic.*::(store|swap|fetch_add|fetch_sub|fetch_or|fetch_and|fetch_xor|fetch_max|fetch_min|fetch_update|compare_exchange|compare_exchange_weak)$")
MAP_MUT = re.compile(r"(HashMap|BTreeMap|HashSet|BTreeSet|Vec|VecDeque|String)(::<[^>]*>)?::(insert|remove|entry|clear|retain|extend|push|pop|drain|truncate|get_mut|append|swap_remove|remove_entry)$")
FS_MUT = re.compile(r"^std::fs::(write|rename|remove_file|remove_dir|remove_dir_all|create_dir|create_dir_all|copy|hard_link|set_permissions)$|^std::fs::File::(create|create_new|set_len)$|^std::fs::OpenOptions::open$")
SEND = re.compile(r"mpsc::Sender(::<[^>]*>)?::send$|mpsc::SyncSender(::<[^>]*>)?::send$")


def _tracked_field(owner, name):
    if owner in TRACKED_ADTS:
        return True
    return (owner, name) in TRACKED_FIELDS


def _short(owner):
    return owner.split("::")[-1]


PROV_CALLS = re.compile(r"::(deref|deref_mut|as_mut|as_ref|index|index_mut|borrow|borrow_mut|write|read|lock|try_lock|try_write|try_read|get_or_init|unwrap|expect|map_err|branch|ok|get|get_mut|or_insert|or_insert_with|or_default|entry|clone|as_deref_mut|as_deref)$")


def provenance(body, operand, max_nodes=200):
    """Pointer provenance of a receiver operand: follows only borrows, moves, deref-like and
    lock-acquisition calls (not arbitrary data flow). Returns a set of Origin
    ('field' / 'call' / 'arg' / 'static')."""
    from .slicing import Origin
    outs = set()
    seen = set()
    work = []
    p0 = op_place(operand)
    if p0 is None:
        return outs

    def note(p):
        for e in p["p"]:
            if isinstance(e, dict) and "f" in e and e.get("o") and e.get("n"):
                outs.add(Origin("field", (e["o"], e["n"])))
    note(p0)
    work.append(p0["l"])
    while work and len(seen) < max_nodes:
        l = work.pop()
        if l in seen:
            continue
        seen.add(l)
        if 1 <= l <= body.arg_count:
            outs.add(Origin("arg", body.local_name(l) or l))
        for site, kind, node in body.defs.get(l, []):
            if kind == "part":
                continue
            if kind == "assign":
                rv = node["rv"]
                if rv["k"] in ("ref", "rawptr"):
                    note(rv["place"])
                    work.append(rv["place"]["l"])
                elif rv["k"] in ("use", "cast"):
                    q = op_place(rv["op"])
                    if q is not None:
                        note(q)
                        work.append(q["l"])
                    elif rv["op"].get("static"):
                        outs.add(Origin("static", rv["op"]["static"]))
            else:
                cn = strip_generics(node.get("callee") or "")
                if PROV_CALLS.search(cn):
                    if node["args"]:
                        q = op_place(node["args"][0])
                        if q is not None:
                            note(q)
                            work.append(q["l"])
                        elif node["args"][0].get("static"):
                            outs.add(Origin("static", node["args"][0]["static"]))
                else:
                    outs.add(Origin("call", cn, site))
    return outs


class Effects:
    def __init__(self, facts):
        self.facts = facts
        self.prim = {}     # body name -> list of (Site, kind)
        self.summary = {}  # body name -> set of kinds (transitive)
        self._byname = {strip_generics(k): k for k in facts.bodies}
        for k, b in facts.bodies.items():
            self.prim[k] = self._primitive(b)
        self._close()

    # -- primitive effects --------------------------------------------------------
    def _primitive(self, body):
        out = []
        if body.j["derived"]:
            return out
        for site, st in body.assigns(live_only=False):
            p = st["place"]
            if not any(e == "*" for e in p["p"]):
                # direct store into a by-value local aggregate is construction, not mutation of shared state
                continue
            for e in p["p"]:
                if isinstance(e, dict) and "f" in e and e.get("o") and e.get("n") and _tracked_field(e["o"], e["n"]):
                    out.append((site, "store:%s.%s" % (_short(e["o"]), e["n"])))
                    break
        for s in body.calls(live_only=False):
            t = s.node
            cn = callee_name(t)
            if SEND.search(cn) or SEND.search(t.get("callee") or ""):
                out.append((s, "send"))
                continue
            if FS_MUT.search(cn):
                out.append((s, "fs:" + cn.split("::")[-1]))
                continue
            if ATOMIC_MUT.search(cn) or (MAP_MUT.search(cn) and t["args"]):
                src = provenance(body, t["args"][0])
                hit = None
                for o in src:
                    if o.kind == "field" and _tracked_field(o.what[0], o.what[1]):
                        hit = "mut:%s.%s" % (_short(o.what[0]), o.what[1])
                        break
                if hit is None:
                    for o in src:
                        if o.kind == "call" and re.search(r"(BlockStateTracker|FileStateTracker)::map$", o.what):
                            hit = "mut:%s" % o.what.split("::")[-2]
                            break
                if hit:
                    out.append((s, hit))
        return out

    def _close(self):
        cg = self.facts.callgraph
        summ = {k: {kind for _, kind in v} for k, v in self.prim.items()}
        changed = True
        while changed:
            changed = False
            for k in self.facts.bodies:
                for c in cg.get(k, ()):
                    add = summ.get(c, set()) - summ[k]
                    if add:
                        summ[k] |= add
                        changed = True
        self.summary = summ

    # -- effect sites of one body ----------------------------------------------------
    def sites(self, body, include_closure_creation=False):
        """list of (Site, kinds:set, callee_body_name or None)"""
        out = []
        for site, kind in self.prim.get(body.name, []):
            if site.bb in body.live_blocks:
                out.append((site, {kind}, None))
        for s in body.calls():
            cn = s.node.get("callee")
            if not cn:
                continue
            k = self._byname.get(strip_generics(cn))
            if k and self.summary.get(k):
                out.append((s, set(self.summary[k]), k))
        return out
