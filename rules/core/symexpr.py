"""Reconstruction of symbolic expressions from MIR operands (a tiny decompiler).

expr(body, operand) returns nested tuples:
  ('c', value)                     integer / bool / char constant
  ('s', text)                      string constant
  ('v', local, name)               a named / argument / multiply-defined local
  ('field', base, owner, name)     field access
  ('idx', base, index)             indexing (slice/Vec/array, Index::index or place index)
  ('len', base)                    len() of a slice/Vec/AlignedVec/str
  ('call', callee, [args])         any other call (callee without generics)
  ('agg', name, variant, {f: e})   aggregate construction
  (op, a, b)                       binary op: Add Sub Mul Div Rem BitAnd BitOr BitXor Shl Shr Eq Ne Lt Le Gt Ge
  ('not', a) / ('neg', a)
  ('ref', e) / ('deref', e)        borrows are mostly elided; kept only when they matter
  ('?', text)                      not reconstructed
Integer casts are elided.  *WithOverflow ops are mapped to their plain op when the `.0`
field is read."""
from .mir import op_place, strip_generics

_BIN = {"AddWithOverflow": "Add", "SubWithOverflow": "Sub", "MulWithOverflow": "Mul", "AddUnchecked": "Add", "SubUnchecked": "Sub",
        "MulUnchecked": "Mul", "ShlUnchecked": "Shl", "ShrUnchecked": "Shr"}
_PURE_ELIDE = ("::deref", "::deref_mut", "::as_ref", "::as_mut", "::borrow", "::as_slice", "::as_mut_slice", "::as_bytes", "::into", "::from", "hint::must_use", "::clone")


def expr(body, o, depth=40):
    if depth <= 0:
        return ("?", "depth")
    if o is None:
        return ("?", "none")
    k = o.get("k")
    if k == "const":
        if "val" in o:
            return ("c", o["val"])
        if "val_s" in o:
            return ("c", int(o["val_s"]))
        if "str" in o:
            return ("s", o["str"])
        if "fn" in o:
            return ("fn", strip_generics(o["fn"]))
        return ("?", o.get("dbg", "const"))
    p = op_place(o)
    if p is None:
        return ("?", str(o)[:40])
    return place_expr(body, p, depth)


def place_expr(body, p, depth=40):
    e = local_expr(body, p["l"], depth - 1, want_field=_first_field(p))
    projs = list(p["p"])
    # `.0` of a checked-arithmetic tuple was consumed by local_expr
    if e is not None and isinstance(e, tuple) and e and e[0] == "__ovf":
        e = e[1]
        projs = projs[1:]
    for pr in projs:
        if pr == "*":
            # deref of a reference expression: elide (references are transparent here)
            if e[0] == "ref":
                e = e[1]
            continue
        if isinstance(pr, dict) and "f" in pr:
            if e[0] == "agg" and (pr.get("n") in e[3]):
                e = e[3][pr["n"]]
            elif e[0] == "tuple" and pr["f"] < len(e[1]):
                e = e[1][pr["f"]]
            else:
                e = ("field", e, (pr.get("o") or "").split("::")[-1], pr.get("n") or str(pr["f"]))
        elif isinstance(pr, dict) and "d" in pr:
            e = ("variant", e, pr["d"])
        elif isinstance(pr, dict) and "i" in pr:
            e = ("idx", e, local_expr(body, pr["i"], depth - 1))
        elif isinstance(pr, dict) and "ci" in pr:
            e = ("idx", e, ("c", pr["ci"]))
        else:
            e = ("?", "proj")
    return e


def _first_field(p):
    if p["p"] and isinstance(p["p"][0], dict) and "f" in p["p"][0]:
        return p["p"][0]["f"]
    return None


def local_expr(body, l, depth=40, want_field=None):
    if depth <= 0:
        return ("?", "depth")
    name = body.local_name(l)
    if (1 <= l <= body.arg_count) or name is not None:
        sd = body.single_def(l)
        # named single-assignment locals are expanded too (let x = ...;), arguments are leaves
        if (1 <= l <= body.arg_count) or not sd:
            return ("v", l, name)
    sd = body.single_def(l)
    if not sd:
        return ("v", l, name)
    site, kind, node = sd
    if kind == "call":
        cn = strip_generics(node.get("callee") or node.get("callee_raw") or "?")
        args = node["args"]
        if any(cn.endswith(x) for x in _PURE_ELIDE) and args:
            return expr(body, args[0], depth - 1)
        if cn.endswith("::index") or cn.endswith("::index_mut"):
            return ("idx", expr(body, args[0], depth - 1), expr(body, args[1], depth - 1))
        if cn.endswith("::len") and len(args) == 1:
            return ("len", expr(body, args[0], depth - 1))
        return ("call", cn, [expr(body, a, depth - 1) for a in args])
    rv = node["rv"]
    k = rv["k"]
    if k == "use":
        return expr(body, rv["op"], depth - 1)
    if k == "cast":
        if rv["kind"] in ("IntToInt", "PtrToPtr", "Transmute") or "Pointer" in rv["kind"]:
            return expr(body, rv["op"], depth - 1)
        return ("cast", rv["ty"], expr(body, rv["op"], depth - 1))
    if k in ("ref", "rawptr"):
        return ("ref", place_expr(body, rv["place"], depth - 1))
    if k == "bin":
        op = rv["op"]
        a, b = expr(body, rv["a"], depth - 1), expr(body, rv["b"], depth - 1)
        if op in _BIN:
            e = (_BIN[op], a, b)
            if op.endswith("WithOverflow"):
                return ("__ovf", e) if want_field == 0 else ("tuple", [e, ("?", "ovf")])
            return e
        return (op, a, b)
    if k == "un":
        return ("not" if rv["op"] == "Not" else "neg", expr(body, rv["a"], depth - 1))
    if k == "agg":
        ak = rv.get("akind")
        if ak == "tuple":
            return ("tuple", [expr(body, x, depth - 1) for x in rv["ops"]])
        if ak == "adt":
            return ("agg", rv["name"].split("::")[-1], rv.get("variant"), {f: expr(body, x, depth - 1) for f, x in zip(rv.get("fields", []), rv["ops"])})
        if ak == "array":
            return ("array", [expr(body, x, depth - 1) for x in rv["ops"]])
        return ("?", "agg")
    if k == "discr":
        return ("discr", place_expr(body, rv["place"], depth - 1))
    if k == "repeat":
        return ("repeat", expr(body, rv["op"], depth - 1), rv["n"])
    return ("?", k)


def strip_refs(e):
    while isinstance(e, tuple) and e and e[0] in ("ref", "deref"):
        e = e[1]
    return e


def linear(e):
    """Normalise an integer expression to (frozenset of symbolic terms with coefficients, constant).
    Returns (terms: dict term->coef, const) or None if not linear."""
    e = strip_refs(e)
    if e[0] == "c" and isinstance(e[1], int):
        return {}, e[1]
    if e[0] in ("Add", "Sub"):
        a, b = linear(e[1]), linear(e[2])
        if a is None or b is None:
            return None
        ta, ca = a
        tb, cb = b
        out = dict(ta)
        sgn = 1 if e[0] == "Add" else -1
        for t, c in tb.items():
            out[t] = out.get(t, 0) + sgn * c
            if out[t] == 0:
                del out[t]
        return out, ca + sgn * cb
    return {show(e): 1}, 0


def show(e, depth=6):
    """Compact, position-independent rendering (local numbers replaced by names where known)."""
    if not isinstance(e, tuple) or not e:
        return str(e)
    if depth <= 0:
        return "..."
    h = e[0]
    if h == "c":
        return str(e[1])
    if h == "s":
        return repr(e[1])
    if h == "v":
        return e[2] or ("_%d" % e[1])
    if h == "field":
        return "%s.%s" % (show(e[1], depth - 1), e[3])
    if h == "variant":
        return "%s as %s" % (show(e[1], depth - 1), e[2])
    if h == "idx":
        return "%s[%s]" % (show(e[1], depth - 1), show(e[2], depth - 1))
    if h == "len":
        return "len(%s)" % show(e[1], depth - 1)
    if h == "call":
        return "%s(%s)" % (e[1].split("::")[-1], ", ".join(show(a, depth - 1) for a in e[2]))
    if h == "agg":
        return "%s::%s{%s}" % (e[1], e[2], ", ".join("%s: %s" % (k, show(v, depth - 1)) for k, v in e[3].items()))
    if h in ("ref", "deref", "not", "neg", "discr"):
        return "%s(%s)" % (h, show(e[1], depth - 1))
    if h in ("tuple", "array"):
        return "(%s)" % ", ".join(show(a, depth - 1) for a in e[1])
    if h == "repeat":
        return "[%s; %s]" % (show(e[1], depth - 1), e[2])
    if h == "?":
        return "?" + str(e[1])
    if len(e) == 3:
        return "%s(%s, %s)" % (h, show(e[1], depth - 1), show(e[2], depth - 1))
    return str(e)[:60]
