"""Decoding of branch conditions (switchInt discriminants) into atoms, and edge utilities."""
from .mir import op_local, op_place, strip_generics, Site
from .slicing import _borrowed_local


class Test:
    """A two-way branch: `kind` describes the tested atom.
    kind = 'cmp'  : op in Eq/Ne/Lt/Le/Gt/Ge, a, b operands (copy-resolved)
           'call' : boolean call result, site = call Site, callee, args
           'local': a boolean local / argument (operand)
           'discr': discriminant of a place; values -> variant index
           'not'  : wraps another test (handled by swapping edges)
    true_edge / false_edge: (from_bb, to_bb)"""

    def __init__(self, body, bb):
        self.body = body
        self.bb = bb
        self.kind = None
        self.op = None
        self.a = self.b = None
        self.site = None
        self.callee = None
        self.operand = None
        self.place = None
        self.true_edge = None
        self.false_edge = None
        self.variant_edges = {}
        self.otherwise = None

    def __repr__(self):
        return "<Test bb%d %s %s>" % (self.bb, self.kind, self.op or self.callee or "")


def decode_test(body, bb):
    t = body.term(bb)
    if not t or t["k"] != "switch":
        return None
    T = Test(body, bb)
    discr = t["discr"]
    targets = t["targets"]
    T.otherwise = t["otherwise"]
    neg = False
    o = body.resolve_copy(discr)
    # boolean switch: [0: F, otherwise: T]
    is_bool = t.get("discr_ty") == "bool"
    if is_bool:
        f = None
        for v, tg in targets:
            if v == 0:
                f = tg
        tr = t["otherwise"]
        if f is None:
            # [1: T, otherwise: F] shape
            for v, tg in targets:
                if v == 1:
                    tr = tg
            f = t["otherwise"]
        # peel Not
        for _ in range(4):
            l = op_local(o)
            if l is None:
                break
            d = body.def_rvalue(l)
            if d and d[0] == "rv" and d[1]["k"] == "un" and d[1]["op"] == "Not":
                neg = not neg
                o = body.resolve_copy(d[1]["a"])
                continue
            break
        if neg:
            tr, f = f, tr
        T.true_edge = (bb, tr)
        T.false_edge = (bb, f)
        l = op_local(o)
        d = body.def_rvalue(l) if l is not None else None
        if d and d[0] == "rv" and d[1]["k"] == "bin" and d[1]["op"] in ("Eq", "Ne", "Lt", "Le", "Gt", "Ge"):
            T.kind = "cmp"
            T.op = d[1]["op"]
            T.a = body.resolve_copy(d[1]["a"])
            T.b = body.resolve_copy(d[1]["b"])
            T.site = d[2]
            return T
        if d and d[0] == "call":
            T.kind = "call"
            T.site = d[2]
            T.callee = strip_generics(d[1].get("callee") or d[1].get("callee_raw") or "?")
            T.args = d[1]["args"]
            return T
        T.kind = "local"
        T.operand = o
        return T
    # discriminant switch
    l = op_local(o)
    d = body.def_rvalue(l) if l is not None else None
    if d and d[0] == "rv" and d[1]["k"] == "discr":
        T.kind = "discr"
        T.place = d[1]["place"]
        for v, tg in targets:
            T.variant_edges[v] = (bb, tg)
        return T
    T.kind = "int"
    T.operand = o
    for v, tg in targets:
        T.variant_edges[v] = (bb, tg)
    return T


def all_tests(body):
    out = []
    for b in sorted(body.live_blocks):
        t = body.term(b)
        if t and t["k"] == "switch":
            T = decode_test(body, b)
            if T:
                out.append(T)
    return out


def call_site_of(body, operand):
    """If operand (after copy resolution) is the result of a call, return its Site."""
    o = body.resolve_copy(operand)
    l = op_local(o)
    if l is None:
        return None
    d = body.def_rvalue(l)
    if d and d[0] == "call":
        return d[2]
    return None


def borrowed_local(body, operand):
    """For an operand that is `&x` / `&mut x` (possibly re-borrowed), the local x."""
    l = op_local(operand)
    if l is None:
        p = op_place(operand)
        return p["l"] if p else None
    return _borrowed_local(body, l)


def const_of(body, operand):
    o = body.resolve_copy(operand)
    if o.get("k") == "const" and "val" in o:
        return o["val"]
    return None


def flag_guarded(body, bb, flag_pred, value=True):
    """True iff block bb is only reachable through an edge on which a boolean atom
    satisfying `flag_pred(Test)` has the given truth value."""
    for T in all_tests(body):
        if T.true_edge is None:
            continue
        if flag_pred(T):
            e = T.true_edge if value else T.false_edge
            if body.edge_guards(e, bb):
                return True
    return False


def result_edges(body, call_site):
    """For a call returning Result<_, _>: the CFG edges taken when the result is Ok / Err,
    recognising `?` (Try::branch + discriminant switch), `match`/`if let` on the result and
    `is_ok()/is_err()` tests.  Returns (ok_edges, err_edges)."""
    dest = call_site.node["dest"]
    if dest["p"]:
        return [], []
    carriers = {dest["l"]: "result"}
    # values derived by moves and by Try::branch
    changed = True
    while changed:
        changed = False
        for site, st in body.assigns():
            if st["rv"]["k"] == "use":
                l = op_local(st["rv"]["op"])
                if l in carriers and not st["place"]["p"] and st["place"]["l"] not in carriers:
                    carriers[st["place"]["l"]] = carriers[l]
                    changed = True
        for s in body.calls():
            cn = strip_generics(s.node.get("callee") or "")
            if cn.endswith("::branch") and s.node["args"]:
                l = op_local(s.node["args"][0])
                if l in carriers and carriers[l] == "result" and not s.node["dest"]["p"] and s.node["dest"]["l"] not in carriers:
                    carriers[s.node["dest"]["l"]] = "controlflow"
                    changed = True
    ok, err = [], []
    for T in all_tests(body):
        if T.kind == "discr" and not T.place["p"] and T.place["l"] in carriers:
            # Result: Ok=0, Err=1 ; ControlFlow: Continue=0, Break=1
            e0 = T.variant_edges.get(0)
            e1 = T.variant_edges.get(1)
            if e0 is None and e1 is not None:
                e0 = (T.bb, T.otherwise)
            if e1 is None and e0 is not None:
                e1 = (T.bb, T.otherwise)
            if e0:
                ok.append(e0)
            if e1:
                err.append(e1)
        elif T.kind == "call" and T.callee.endswith(("::is_ok", "::is_err")):
            l = borrowed_local(body, T.args[0])
            if l in carriers:
                if T.callee.endswith("is_ok"):
                    ok.append(T.true_edge)
                    err.append(T.false_edge)
                else:
                    ok.append(T.false_edge)
                    err.append(T.true_edge)
    # drop-elaboration re-tests of the discriminant (both arms re-join) are harmless extras
    return ok, err


def bypass_edges(body, start_bb, target_blocks):
    """Edges on which a path that started at start_bb gives up reaching any target block:
    (u, v) with u reachable from start (without passing a target), some target reachable from
    u, none reachable from v.  A must-reach obligation then reads: every bypass edge belongs
    to an allowed class."""
    targets = set(target_blocks)
    can = set(targets)
    changed = True
    preds = body.pred
    work = list(targets)
    while work:
        x = work.pop()
        for p in preds[x]:
            if p not in can and p in body.live_blocks:
                can.add(p)
                work.append(p)
    out = []
    seen = set()
    work = [start_bb]
    while work:
        u = work.pop()
        if u in seen:
            continue
        seen.add(u)
        if u in targets and u != start_bb:
            continue
        for v in body.succ[u]:
            if v in can:
                work.append(v)
            else:
                if u in can:
                    out.append((u, v))
    return out


def classify_edge(body, edge):
    """Describe the branch an edge belongs to: returns (Test or None, 'true'|'false'|variant)."""
    u, v = edge
    for T in all_tests(body):
        if T.bb != u:
            continue
        if T.true_edge == edge:
            return T, "true"
        if T.false_edge == edge:
            return T, "false"
        for k, e in T.variant_edges.items():
            if e == edge:
                return T, k
        if T.otherwise == v:
            return T, "otherwise"
    return None, None
