"""Flags of the read paths: `checkpoint` (consuming read) and `stateful`
(start_offset.is_none(): the shared cursor is being used).  For a body (function or one of
its closures) these helpers return the CFG edges on which a flag is known to hold, so that
"site is GB(flag)" is an edge-dominance query."""
import re
from .mir import op_local, op_place, strip_generics
from .cond import all_tests, borrowed_local


def place_key(p):
    out = [p["l"]]
    for e in p["p"]:
        if e == "*":
            out.append("*")
        elif isinstance(e, dict) and "f" in e:
            out.append(("f", e["f"]))
        elif isinstance(e, dict) and "d" in e:
            out.append(("d", e.get("vi")))
        else:
            out.append(str(e))
    return tuple(out)


def flag_places(body, name):
    """Places that hold the boolean/option parameter `name` in this body: the argument local
    in the function itself, the captured place in a closure."""
    out = []
    l = body.arg_local(name)
    if l is not None:
        out.append(place_key({"l": l, "p": []}))
    c = body.captured(name)
    if c is not None:
        out.append(place_key(c))
        # by-ref captures are read as *capture
        out.append(place_key({"l": c["l"], "p": c["p"] + ["*"]}))
    return out


def _operand_is(body, operand, keys):
    o = body.resolve_copy(operand)
    p = op_place(o)
    if p is None:
        return False
    return place_key(p) in keys or place_key(body.canon_place(p)) in keys


_CE_CACHE = {}


def checkpoint_edges(body, name="checkpoint"):
    """Edges on which the flag is known to be true: the true edges of tests of the flag itself, and - derived -
    the Some edge of a test of an Option local all of whose Some(..) values are built under such an edge
    (`let p = if checkpoint { .. Some(x) .. } else { None }; if let Some(x) = p { .. }`)."""
    ck = (id(body), name)
    if ck in _CE_CACHE:
        return _CE_CACHE[ck]
    keys = flag_places(body, name)
    edges = []
    if not keys:
        return edges
    for T in all_tests(body):
        if T.kind == "local" and _operand_is(body, T.operand, keys):
            edges.append(T.true_edge)
    edges = derive_some_edges(body, edges, lambda c: checkpoint_edges(c, name))
    _CE_CACHE[ck] = edges
    return edges


def _option_none_edge(T):
    """edge on which an Option discriminant test says None"""
    if 0 in T.variant_edges:
        return T.variant_edges[0]
    if 1 in T.variant_edges and T.otherwise is not None:
        return (T.bb, T.otherwise)
    return None


def _option_some_edge(T):
    if 1 in T.variant_edges:
        return T.variant_edges[1]
    if 0 in T.variant_edges and T.otherwise is not None:
        return (T.bb, T.otherwise)
    return None


def option_edges(body, keys, want_none=True):
    edges = []
    for T in all_tests(body):
        if T.kind == "discr" and place_key(T.place) in keys:
            e = _option_none_edge(T) if want_none else _option_some_edge(T)
            if e:
                edges.append(e)
        elif T.kind == "call" and re.search(r"Option(::<[^>]*>)?::is_(none|some)$", T.callee):
            l = borrowed_local(body, T.args[0])
            if l is not None and place_key({"l": l, "p": []}) in keys:
                is_none = T.callee.endswith("is_none")
                if want_none:
                    edges.append(T.true_edge if is_none else T.false_edge)
                else:
                    edges.append(T.false_edge if is_none else T.true_edge)
    return edges


def _value_defs(body, local, field=None, depth=0, seen=None):
    """Definitions of the *value* of `local` (or of tuple field `field` of it), followed through
    moves and tuple packing/unpacking.  Yields (Site, rvalue json)."""
    if seen is None:
        seen = set()
    if (local, field) in seen or depth > 8:
        return
    seen.add((local, field))
    for site, kind, node in body.defs.get(local, []):
        if kind == "call":
            if field is None:
                yield site, {"k": "call", "node": node}
            continue
        if kind == "part":
            continue
        rv = node["rv"]
        if field is not None:
            if rv["k"] == "agg" and rv.get("akind") == "tuple":
                o = rv["ops"][field]
                p = op_place(o)
                if p is None:
                    yield site, {"k": "use", "op": o}
                elif not p["p"]:
                    yield from _value_defs(body, p["l"], None, depth + 1, seen)
                else:
                    yield site, {"k": "use", "op": o}
            elif rv["k"] == "use":
                p = op_place(rv["op"])
                if p is not None and not p["p"]:
                    yield from _value_defs(body, p["l"], field, depth + 1, seen)
            continue
        if rv["k"] == "use":
            p = op_place(rv["op"])
            if p is None:
                yield site, rv
            elif not p["p"]:
                yield from _value_defs(body, p["l"], None, depth + 1, seen)
            elif len(p["p"]) == 1 and isinstance(p["p"][0], dict) and "f" in p["p"][0] and p["p"][0].get("o") == "(tuple)":
                yield from _value_defs(body, p["l"], p["p"][0]["f"], depth + 1, seen)
            else:
                yield site, rv
        else:
            yield site, rv


def _closure_call_sites(body, clo):
    """call sites in `body` of the closure body `clo` (through the local that holds the closure value)"""
    holders = set()
    for site, st in body.assigns():
        rv = st["rv"]
        if rv["k"] == "agg" and rv.get("akind") == "closure" and rv.get("name") == clo.name and not st["place"]["p"]:
            holders.add(st["place"]["l"])
    out = []
    for c in body.calls():
        cn = strip_generics(c.node.get("callee") or "")
        if cn == strip_generics(clo.name):
            out.append(c)       # the call is resolved to the closure body itself
            continue
        if not re.search(r"ops::function::Fn(Mut|Once)?::call(_mut|_once)?$|ops::Fn(Mut|Once)?>::call(_mut|_once)?$|::call_mut$|::call_once$|::call$", cn):
            continue
        if not c.node["args"]:
            continue
        a0 = c.node["args"][0]
        l0 = op_local(body.resolve_copy(a0))
        bl = borrowed_local(body, a0)
        if l0 in holders or bl in holders:
            out.append(c)
    return out, holders


_OPT_PRESERVING = re.compile(r"^std::option::Option(::<[^>]*>)?::(map|and_then|filter|zip|inspect|as_ref|as_mut|as_deref|as_deref_mut|take|cloned|copied|flatten)$")


def _judge_value(facts, b, site, rv, edges_b, wanted, inner_edges_fn, clos, depth):
    """One definition of an Option (or enum) value in body `b`, where `edges_b` are the edges of `b` on which the flag F
    holds.  Returns (understood, every wanted variant is built under F, number of wanted values seen)."""
    if depth > 5:
        return False, True, 0
    if rv["k"] == "agg" and rv.get("akind") == "adt":
        if rv.get("variant") in wanted:
            return True, any(b.edge_guards(ge, site.bb) for ge in edges_b), 1
        return True, True, 0
    if rv["k"] == "use" and rv["op"].get("k") == "const":
        return True, True, 0
    if rv["k"] != "call":
        return False, True, 0
    if any(b.edge_guards(ge, site.bb) for ge in edges_b):
        # whatever this call yields (`cond.then(|| ..)`, a lookup, ..) is computed under F
        return True, True, 1
    node = rv["node"]
    cn = strip_generics(node.get("callee") or "")
    if "Some" in wanted and cn.endswith("::from_residual") and "option::Option" in cn:
        return True, True, 0        # `x?` on an Option: the early return hands back None
    clo = clos.get(cn)
    if clo is None and facts is not None and "{closure#" in cn:
        cb = facts.bodies.get(node.get("callee") or "") or facts.bodies.get(cn)
        if cb is not None and cb.kind == "Closure":
            clo = cb
    if clo is None and facts is not None and node.get("args") and re.search(r"::call(_mut|_once)?$", cn):
        # a call through a closure value that this body holds or captures: resolve it by the type of the callee operand
        l0 = op_local(b.resolve_copy(node["args"][0]))
        bl = borrowed_local(b, node["args"][0])
        for l_ in (l0, bl):
            ty = b.local_ty(l_) if l_ is not None else ""
            m = re.search(r"\{closure@([^:}]+):(\d+):(\d+)", ty)
            if m:
                hits = [cb for cb in facts.bodies.values() if cb.kind == "Closure" and cb.relfile == m.group(1) and cb.line == int(m.group(2))]
                if len(hits) == 1:
                    clo = hits[0]
            if clo is not None:
                break
    if clo is not None:
        # the value a closure returns: the wanted variant only where the closure builds it
        inner = inner_edges_fn(clo) if inner_edges_fn else []
        ok, some_ok, n = True, True, 0
        cl2 = {strip_generics(c_.name): c_ for c_ in facts.closures_of(clo, recursive=False)} if facts is not None else {}
        for vsite, vrv in _value_defs(clo, 0):
            o_, s_, n_ = _judge_value(facts, clo, vsite, vrv, inner, wanted, inner_edges_fn, cl2, depth + 1)
            ok, some_ok, n = ok and o_, some_ok and s_, n + n_
        return ok, some_ok, n
    if _OPT_PRESERVING.match(cn) and node.get("args") and "Some" in wanted:
        # `x.map(f)` / `x.and_then(f)` / `x.filter(p)` is Some only if x is: x being Some only under F is enough;
        # for and_then, so is f returning Some only under F
        tries = []
        rl = op_local(b.resolve_copy(node["args"][0]))
        if rl is None:
            rl = borrowed_local(b, node["args"][0])
        if rl is not None:
            tries.append(list(_value_defs(b, rl)))
        if cn.endswith("::and_then") and len(node["args"]) > 1:
            fl = op_local(b.resolve_copy(node["args"][1]))
            fd = b.single_def(fl) if fl is not None else None
            if fd and fd[1] == "assign" and fd[2]["rv"]["k"] == "agg" and fd[2]["rv"].get("akind") == "closure" and facts is not None:
                cb = facts.bodies.get(fd[2]["rv"].get("name"))
                if cb is not None:
                    tries.append([(None, {"k": "call", "node": {"callee": cb.name, "args": []}, "_clo": cb})])
        for vals in tries:
            ok, some_ok, n = bool(vals), True, 0
            for vsite, vrv in vals:
                if vsite is None:
                    cb = vrv["_clo"]
                    inner = inner_edges_fn(cb) if inner_edges_fn else []
                    cl2 = {strip_generics(c_.name): c_ for c_ in facts.closures_of(cb, recursive=False)}
                    for v2site, v2rv in _value_defs(cb, 0):
                        o_, s_, n_ = _judge_value(facts, cb, v2site, v2rv, inner, wanted, inner_edges_fn, cl2, depth + 1)
                        ok, some_ok, n = ok and o_, some_ok and s_, n + n_
                    continue
                o_, s_, n_ = _judge_value(facts, b, vsite, vrv, edges_b, wanted, inner_edges_fn, clos, depth + 1)
                ok, some_ok, n = ok and o_, some_ok and s_, n + n_
            if ok and some_ok:
                return True, True, max(n, 1)
        return False, True, 0
    return False, True, 0


def derive_some_edges(body, edges, inner_edges_fn=None):
    """Extend `edges` (edges on which a flag F is known to hold) by the Some edge of every test of an Option local
    that can be Some only under F: all its Some(..) values are built under F - in this body, or in a closure of it
    that captures the local by reference, where `under F` means guarded by F's edges inside the closure
    (inner_edges_fn) or the closure being called only under F."""
    edges = list(edges)
    facts = getattr(body, "facts", None)
    changed, rounds = True, 0
    while changed and rounds < 4:
        changed = False
        rounds += 1
        cands = []
        for T in all_tests(body):
            if T.kind != "discr" or T.place["p"]:
                continue
            l = T.place["l"]
            ty = body.local_ty(l)
            if ty.startswith("std::option::Option"):
                e = _option_some_edge(T)
                if e:
                    cands.append((T, e, ("Some", 1)))
            elif facts is not None:
                adt = facts.adts.get(ty) or facts.adts.get(strip_generics(ty))
                if adt and len(adt.get("variants", [])) >= 2:
                    for vi, e in T.variant_edges.items():
                        if isinstance(vi, int) and vi < len(adt["variants"]):
                            cands.append((T, e, (adt["variants"][vi]["name"],)))
        for T, e, wanted in cands:
            l = T.place["l"]
            if not e or e in edges:
                continue
            # the named variable the tested value is a copy of
            roots = {l}
            o = body.resolve_copy({"k": "copy", "place": {"l": l, "p": []}})
            if op_local(o) is not None:
                roots.add(op_local(o))
            some_ok, n_some, ok = True, 0, True
            clos = {strip_generics(c_.name): c_ for c_ in facts.closures_of(body, recursive=False)} if facts is not None and body.kind != "Closure" else {}
            for r in roots:
                for site, rv in _value_defs(body, r):
                    o_, s_, n_ = _judge_value(facts, body, site, rv, edges, wanted, inner_edges_fn, clos, 0)
                    ok = ok and o_
                    some_ok = some_ok and s_
                    n_some += n_
            # stores made by closures that capture the variable
            names = {body.local_name(r) for r in roots if body.local_name(r)}
            if facts is not None and names and body.kind != "Closure":
                for clo in facts.closures_of(body, recursive=False):
                    for nm in names:
                        cap = clo.captured(nm)
                        if cap is None:
                            continue
                        inner = inner_edges_fn(clo) if inner_edges_fn else []
                        calls, holders = _closure_call_sites(body, clo)
                        called_under = bool(calls) and all(any(body.edge_guards(ge, c.bb) for ge in edges) for c in calls)
                        ck = place_key(cap)
                        for site, st in clo.assigns():
                            pl = st["place"]
                            pk = place_key(clo.canon_place(pl)) if pl["p"] else place_key(pl)
                            if pk[:len(ck)] != ck and not (ck[-1] == "*" and pk == ck[:-1]):
                                continue
                            rest = pk[len(ck):]
                            if rest not in ((), ("*",)):
                                ok = False
                                continue
                            rv = st["rv"]
                            vals = [(site, rv)]
                            if rv["k"] == "use" and op_local(rv["op"]) is not None:
                                vals = list(_value_defs(clo, op_local(rv["op"])))
                            for vsite, vrv in vals:
                                if vrv["k"] == "agg" and vrv.get("akind") == "adt" and vrv.get("variant") in wanted:
                                    n_some += 1
                                    if not (called_under or (any(clo.edge_guards(ge, vsite.bb) for ge in inner) or any(clo.edge_guards(ge, site.bb) for ge in inner))):
                                        some_ok = False
                                elif vrv["k"] == "agg" and vrv.get("akind") == "adt":
                                    pass
                                elif vrv["k"] == "use" and vrv["op"].get("k") == "const":
                                    pass
                                else:
                                    ok = False
            if ok and some_ok and n_some:
                edges.append(e)
                changed = True
    return edges


def stateful_edges(body, so_name="start_offset"):
    """Edges on which `start_offset` is None.  Besides direct tests of the parameter, an
    Option<RwLockWriteGuard<ColReaderInfo>> local whose Some(..) values are all built in
    blocks dominated by the None arm of a start_offset test is a witness: is_some(G) implies
    stateful."""
    keys = flag_places(body, so_name)
    edges = option_edges(body, keys, want_none=True)
    witnesses = []
    if body.kind != "Closure" and edges:
        for l, ld in enumerate(body.locals):
            ty = ld["ty"]
            if ty.startswith("std::option::Option<std::sync::RwLockWriteGuard<") and "ColReaderInfo" in ty:
                somes, nones, unknown = [], [], []
                for site, rv in _value_defs(body, l):
                    if rv["k"] == "agg" and rv.get("akind") == "adt" and rv.get("variant") == "Some":
                        somes.append(site)
                    elif rv["k"] == "agg" and rv.get("akind") == "adt" and rv.get("variant") == "None":
                        nones.append(site)
                    elif rv["k"] == "call" and re.search(r"Option(::<[^>]*>)?::take$", strip_generics(rv["node"].get("callee") or "")):
                        nones.append(site)
                    else:
                        unknown.append(site)
                if unknown or not somes:
                    continue
                if all(any(body.edge_guards(e, s.bb) for e in edges) for s in somes):
                    witnesses.append(l)
        wkeys = [place_key({"l": w, "p": []}) for w in witnesses]
        edges = edges + option_edges(body, wkeys, want_none=False)
    if body.kind != "Closure" and edges:
        edges = derive_some_edges(body, edges, None)
    return edges, witnesses


def guarded(body, bb, edges):
    return any(body.edge_guards(e, bb) for e in edges) or body.edges_guard(edges, bb)
