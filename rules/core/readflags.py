"""Flags of the read paths: `checkpoint` (consuming read) and `stateful`
(start_offset.is_none(): the shared cursor is being used).  For a body (function or one of
its closures) these helpers return the CFG edges on which a flag is known to hold, so that
"site is GB(flag)" is an edge-dominance query."""
import re
from .mir import op_local, op_place, strip_generics
from .cond import all_tests, borrowed_local


def place_key(p):
    out = [p["l"]]
    for e in p["p"]:
        if e == "*":
            out.append("*")
        elif isinstance(e, dict) and "f" in e:
            out.append(("f", e["f"]))
        elif isinstance(e, dict) and "d" in e:
            out.append(("d", e.get("vi")))
        else:
            out.append(str(e))
    return tuple(out)


def flag_places(body, name):
    """Places that hold the boolean/option parameter `name` in this body: the argument local
    in the function itself, the captured place in a closure."""
    out = []
    l = body.arg_local(name)
    if l is not None:
        out.append(place_key({"l": l, "p": []}))
    c = body.captured(name)
    if c is not None:
        out.append(place_key(c))
        # by-ref captures are read as *capture
        out.append(place_key({"l": c["l"], "p": c["p"] + ["*"]}))
    return out


def _operand_is(body, operand, keys):
    o = body.resolve_copy(operand)
    p = op_place(o)
    if p is None:
        return False
    return place_key(p) in keys or place_key(body.canon_place(p)) in keys


_CE_CACHE = {}


def checkpoint_edges(body, name="checkpoint"):
    """Edges on which the flag is known to be true: the true edges of tests of the flag itself, and - derived -
    the Some edge of a test of an Option local all of whose Some(..) values are built under such an edge
    (`let p = if checkpoint { .. Some(x) .. } else { None }; if let Some(x) = p { .. }`)."""
    ck = (id(body), name)
    if ck in _CE_CACHE:
        return _CE_CACHE[ck]
    keys = flag_places(body, name)
    edges = []
    if not keys:
        return edges
    for T in all_tests(body):
        if T.kind == "local" and _operand_is(body, T.operand, keys):
            edges.append(T.true_edge)
    changed = True
    rounds = 0
    while changed and rounds < 4:
        changed = False
        rounds += 1
        for T in all_tests(body):
            if T.kind != "discr" or T.place["p"]:
                continue
            l = T.place["l"]
            if not body.local_ty(l).startswith("std::option::Option"):
                continue
            e = _option_some_edge(T)
            if not e or e in edges:
                continue
            some_sites, ok = [], True
            for site, rv in _value_defs(body, l):
                if rv["k"] == "agg" and rv.get("akind") == "adt":
                    if rv.get("variant") in ("Some", 1):
                        some_sites.append(site)
                elif rv["k"] == "use" and rv["op"].get("k") == "const":
                    pass        # a constant None
                else:
                    ok = False  # a call result or something else: unknown
            if ok and some_sites and all(any(body.edge_guards(ge, s_.bb) for ge in edges) for s_ in some_sites):
                edges.append(e)
                changed = True
    _CE_CACHE[ck] = edges
    return edges


def _option_none_edge(T):
    """edge on which an Option discriminant test says None"""
    if 0 in T.variant_edges:
        return T.variant_edges[0]
    if 1 in T.variant_edges and T.otherwise is not None:
        return (T.bb, T.otherwise)
    return None


def _option_some_edge(T):
    if 1 in T.variant_edges:
        return T.variant_edges[1]
    if 0 in T.variant_edges and T.otherwise is not None:
        return (T.bb, T.otherwise)
    return None


def option_edges(body, keys, want_none=True):
    edges = []
    for T in all_tests(body):
        if T.kind == "discr" and place_key(T.place) in keys:
            e = _option_none_edge(T) if want_none else _option_some_edge(T)
            if e:
                edges.append(e)
        elif T.kind == "call" and re.search(r"Option(::<[^>]*>)?::is_(none|some)$", T.callee):
            l = borrowed_local(body, T.args[0])
            if l is not None and place_key({"l": l, "p": []}) in keys:
                is_none = T.callee.endswith("is_none")
                if want_none:
                    edges.append(T.true_edge if is_none else T.false_edge)
                else:
                    edges.append(T.false_edge if is_none else T.true_edge)
    return edges


def _value_defs(body, local, field=None, depth=0, seen=None):
    """Definitions of the *value* of `local` (or of tuple field `field` of it), followed through
    moves and tuple packing/unpacking.  Yields (Site, rvalue json)."""
    if seen is None:
        seen = set()
    if (local, field) in seen or depth > 8:
        return
    seen.add((local, field))
    for site, kind, node in body.defs.get(local, []):
        if kind == "call":
            if field is None:
                yield site, {"k": "call", "node": node}
            continue
        if kind == "part":
            continue
        rv = node["rv"]
        if field is not None:
            if rv["k"] == "agg" and rv.get("akind") == "tuple":
                o = rv["ops"][field]
                p = op_place(o)
                if p is None:
                    yield site, {"k": "use", "op": o}
                elif not p["p"]:
                    yield from _value_defs(body, p["l"], None, depth + 1, seen)
                else:
                    yield site, {"k": "use", "op": o}
            elif rv["k"] == "use":
                p = op_place(rv["op"])
                if p is not None and not p["p"]:
                    yield from _value_defs(body, p["l"], field, depth + 1, seen)
            continue
        if rv["k"] == "use":
            p = op_place(rv["op"])
            if p is None:
                yield site, rv
            elif not p["p"]:
                yield from _value_defs(body, p["l"], None, depth + 1, seen)
            elif len(p["p"]) == 1 and isinstance(p["p"][0], dict) and "f" in p["p"][0] and p["p"][0].get("o") == "(tuple)":
                yield from _value_defs(body, p["l"], p["p"][0]["f"], depth + 1, seen)
            else:
                yield site, rv
        else:
            yield site, rv


def stateful_edges(body, so_name="start_offset"):
    """Edges on which `start_offset` is None.  Besides direct tests of the parameter, an
    Option<RwLockWriteGuard<ColReaderInfo>> local whose Some(..) values are all built in
    blocks dominated by the None arm of a start_offset test is a witness: is_some(G) implies
    stateful."""
    keys = flag_places(body, so_name)
    edges = option_edges(body, keys, want_none=True)
    witnesses = []
    if body.kind != "Closure" and edges:
        for l, ld in enumerate(body.locals):
            ty = ld["ty"]
            if ty.startswith("std::option::Option<std::sync::RwLockWriteGuard<") and "ColReaderInfo" in ty:
                somes, nones, unknown = [], [], []
                for site, rv in _value_defs(body, l):
                    if rv["k"] == "agg" and rv.get("akind") == "adt" and rv.get("variant") == "Some":
                        somes.append(site)
                    elif rv["k"] == "agg" and rv.get("akind") == "adt" and rv.get("variant") == "None":
                        nones.append(site)
                    elif rv["k"] == "call" and re.search(r"Option(::<[^>]*>)?::take$", strip_generics(rv["node"].get("callee") or "")):
                        nones.append(site)
                    else:
                        unknown.append(site)
                if unknown or not somes:
                    continue
                if all(any(body.edge_guards(e, s.bb) for e in edges) for s in somes):
                    witnesses.append(l)
        wkeys = [place_key({"l": w, "p": []}) for w in witnesses]
        edges = edges + option_edges(body, wkeys, want_none=False)
    return edges, witnesses


def guarded(body, bb, edges):
    return any(body.edge_guards(e, bb) for e in edges)
