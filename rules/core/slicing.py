"""Intraprocedural backward data slices over MIR def-use (flow-insensitive: every
definition of a local anywhere in the body is a possible definition; this over-approximates
the set of origins, which is the safe direction for 'must come from' and 'must not come
from' obligations alike, because rules state which they need)."""
import re
from .mir import op_place, rv_operands, strip_generics, Site

# calls whose result is (a view of / a copy of / a wrapper around) their first argument
PASSTHROUGH = [
    r"::deref$", r"::deref_mut$", r"^std::hint::must_use$", r"::as_deref$", r"::as_ref$", r"::as_mut$",
    r"::borrow$", r"::borrow_mut$", r"::clone$", r"::to_string$", r"::to_owned$", r"::into$", r"::from$",
    r"::unwrap$", r"::expect$", r"::unwrap_or$", r"::unwrap_or_default$", r"::as_str$", r"::as_bytes$", r"::as_path$",
    r"::to_path_buf$", r"::into_owned$", r"::to_string_lossy$", r"::as_slice$", r"::to_vec$", r"::copied$", r"::cloned$",
    r"::branch$", r"::from_residual$", r"::map_err$", r"::ok$", r"::into_iter$", r"::iter$", r"::next$", r"::enumerate$",
    r"::as_os_str$", r"::index$", r"::index_mut$", r"::min$", r"::max$",
]
_PASS_RE = [re.compile(p) for p in PASSTHROUGH]


def is_passthrough(callee, extra=()):
    c = strip_generics(callee or "")
    for r in _PASS_RE:
        if r.search(c):
            return True
    for e in extra:
        if re.search(e, c):
            return True
    return False


class Origin:
    __slots__ = ("kind", "what", "site", "extra")

    def __init__(self, kind, what, site=None, extra=None):
        self.kind, self.what, self.site, self.extra = kind, what, site, extra

    def __repr__(self):
        return "%s(%s)" % (self.kind, self.what)

    def key(self):
        return (self.kind, self.what, self.site.bb if self.site else None)

    def __hash__(self):
        return hash(self.key())

    def __eq__(self, o):
        return self.key() == o.key()


def origins(body, start, passthrough_extra=(), stop_calls=(), max_nodes=4000, follow_all_calls=False, _depth=0):
    """start: operand json, place json, or local index (or list of those).
    Returns (set of Origin, set of visited locals, list of traversed def sites).
    Origin kinds: 'arg' (argument index/name), 'const', 'call' (non-passthrough call result;
    what = callee def-path without generics), 'static', 'upvar' (closure capture name),
    'field' (load of a named ADT field through a pointer: what = (owner, field))."""
    work = []

    def push_any(x):
        if x is None:
            return
        if isinstance(x, list):
            for y in x:
                push_any(y)
            return
        if isinstance(x, int):
            work.append((x, None))
            return
        if "k" in x:  # operand
            if x["k"] == "const":
                outs.add(Origin("const", x.get("str", x.get("val", x.get("def", x.get("dbg")))), None, x))
                if "static" in x:
                    outs.add(Origin("static", x["static"]))
                return
            p = op_place(x)
            if p is not None:
                note_place(p)
                work.append((p["l"], _first_field(p)))
            return
        if "l" in x:  # place
            note_place(x)
            work.append((x["l"], _first_field(x)))

    def note_place(p):
        # loads through pointers of named fields are recorded as 'field' origins too
        for i, e in enumerate(p["p"]):
            if isinstance(e, dict) and "f" in e and e.get("o") and e.get("n"):
                outs.add(Origin("field", (e["o"], e["n"])))
        # index projections depend on the index local
        for e in p["p"]:
            if isinstance(e, dict) and "i" in e:
                pass

    outs = set()
    seen = set()
    sites = []
    push_any(start)
    seen_pairs = set()
    while work:
        l, want = work.pop()
        if (l, want) in seen_pairs or (l, None) in seen_pairs:
            continue
        seen_pairs.add((l, want))
        seen.add(l)
        if len(seen_pairs) > max_nodes:
            break
        if 1 <= l <= body.arg_count:
            name = body.local_name(l)
            outs.add(Origin("arg", name or l))
            # closure environment
            if body.kind == "Closure" and l == 1:
                outs.add(Origin("upvar", "*"))
            # arguments may also be reassigned; keep following defs
        for site, kind, node in body.defs.get(l, []):
            if kind == "part" and want is not None:
                # a store into another named field of the same aggregate does not define the field read
                wf = _first_field(node["place"]) if node.get("k") == "assign" else _first_field(node.get("dest", {"p": []}))
                if wf is not None and wf != want:
                    continue
            sites.append(site)
            if kind in ("assign", "part") and node["k"] == "assign":
                rv = node["rv"]
                if rv["k"] == "tlsref":
                    outs.add(Origin("static", rv["static"]))
                if follow_all_calls and rv["k"] == "agg" and rv.get("akind") == "closure" and _depth < 2:
                    # a closure value handed to a call (`x.and_then(|p| ..)`): what the call yields also depends on
                    # what the closure body reads - the fields it loads and the calls it makes
                    cb = getattr(body, "facts", None) and body.facts.bodies.get(rv.get("name"))
                    if cb is not None:
                        co, _, _ = origins(cb, {"l": 0, "p": []}, passthrough_extra=passthrough_extra, stop_calls=stop_calls, max_nodes=max_nodes, follow_all_calls=True, _depth=_depth + 1)
                        for o_ in co:
                            if o_.kind in ("field", "call", "static"):
                                outs.add(o_)
                for o in rv_operands(rv):
                    push_any(o)
            else:  # call
                callee = node.get("callee") or node.get("callee_raw") or "?"
                cn = strip_generics(callee)
                if any(re.search(s, cn) for s in stop_calls):
                    outs.add(Origin("call", cn, site))
                    continue
                if follow_all_calls or is_passthrough(callee, passthrough_extra):
                    if not is_passthrough(callee, passthrough_extra):
                        outs.add(Origin("call", cn, site))
                    for a in node["args"]:
                        push_any(a)
                else:
                    outs.add(Origin("call", cn, site))
    return outs, seen, sites


def _first_field(p):
    for e in p.get("p", []):
        if isinstance(e, dict) and "f" in e:
            return e.get("n") or str(e["f"])
    return None


def origin_calls(outs):
    return {o.what for o in outs if o.kind == "call"}


def origin_args(outs):
    return {o.what for o in outs if o.kind == "arg"}


def pointer_root_arg(body, local, depth=10):
    """If `local` is (a move / reborrow chain of) a reference argument of the function, return that argument's local."""
    cur = local
    while depth > 0:
        depth -= 1
        if 1 <= cur <= body.arg_count:
            return cur
        ds = body.unique_defs(cur)
        if len(ds) != 1 or ds[0][1] != "assign":
            return None
        rv = ds[0][2]["rv"]
        if rv["k"] in ("ref", "rawptr") and rv["place"]["p"] == ["*"]:
            cur = rv["place"]["l"]
        elif rv["k"] == "use" and op_place(rv["op"]) is not None and not op_place(rv["op"])["p"]:
            cur = op_place(rv["op"])["l"]
        else:
            return None
    return None


def guard_of_pointer(body, local, depth=10):
    """If `local` is the result of Deref::deref / DerefMut::deref_mut on a lock guard (or a
    reborrow chain of it), return the guard local; else None."""
    cur = local
    while depth > 0:
        depth -= 1
        ds = body.unique_defs(cur)
        if len(ds) != 1:
            return None
        site, kind, node = ds[0]
        if kind == "call":
            cn = strip_generics(node.get("callee") or "")
            if cn.endswith("::deref") or cn.endswith("::deref_mut"):
                a = node["args"][0]
                p = op_place(a)
                if p is None:
                    return None
                # the argument is a (re)borrow temp of the guard: follow to the borrowed local
                cur2 = p["l"]
                g = _borrowed_local(body, cur2)
                return g
            return None
        rv = node["rv"]
        if rv["k"] in ("ref", "rawptr"):
            p = rv["place"]
            if p["p"] == ["*"]:
                cur = p["l"]
                continue
            return None
        if rv["k"] == "use":
            p = op_place(rv["op"])
            if p is not None and not p["p"]:
                cur = p["l"]
                continue
            return None
        return None
    return None


def _borrowed_local(body, tmp, depth=8):
    """tmp = &mut _g  or  &mut (*tmp2) ... -> _g"""
    cur = tmp
    while depth > 0:
        depth -= 1
        ds = body.unique_defs(cur)
        if len(ds) != 1 or ds[0][1] != "assign":
            return cur
        rv = ds[0][2]["rv"]
        if rv["k"] in ("ref", "rawptr"):
            p = rv["place"]
            if not p["p"]:
                return p["l"]
            if p["p"] == ["*"]:
                cur = p["l"]
                continue
            return p["l"]
        if rv["k"] in ("use", "cast"):
            p = op_place(rv["op"])
            if p is not None and not p["p"]:
                cur = p["l"]
                continue
        return cur
    return cur


def index_counted_from_end(body, call):
    """A search call (`position`, or `find`/`find_map` over `enumerate()`) whose index counts from the END of the
    underlying sequence: `it.rev().position(..)`, `it.rev().enumerate().find(..)`.  (`enumerate().rev()` keeps forward
    indices.)  The type of the iterator the call is applied to tells."""
    node = call.node if hasattr(call, "node") else call
    cn = strip_generics(node.get("callee") or "")
    if not node.get("args"):
        return False
    l = _borrowed_local(body, op_place(node["args"][0])["l"]) if op_place(node["args"][0]) is not None else None
    ty = body.local_ty(l) if l is not None else ""
    ty = re.sub(r"^&(mut )?", "", ty)
    if re.search(r"Iterator>?::position$", cn):
        # the outermost adapters that do not renumber (Rev itself renumbers position)
        return bool(re.match(r"^(std::iter::(Peekable|Fuse|Inspect|Cloned|Copied|Map)<)*std::iter::Rev<", ty))
    if re.search(r"Iterator>?::(find|find_map|rfind|filter|filter_map|map|next)$", cn):
        return "std::iter::Enumerate<std::iter::Rev<" in ty
    return False
