"""Helper inlining on the MIR facts.

The rules are anchored on the functions that exist in the reviewed tree (rules/known_functions.json,
one list per crate).  A function that is NOT in that list - a helper that an edit extracted out of an
anchored function, or added next to it - has no rule of its own; what matters is what its callers do
through it.  So every call of such a function is replaced, in each caller, by the callee's blocks
(locals and blocks renumbered, arguments assigned to the parameter locals, `return` turned into an
assignment of the destination and a jump to the call's target).  The intraprocedural rules then judge
the caller exactly as if the code had been written in place.

  * only crate-local, non-closure, non-derived bodies whose name is unknown are inlined;
  * recursion among unknown functions is cut (a function is never inlined into its own expansion) and
    the expansion depth is bounded; what is not inlined stays an ordinary call;
  * a helper all of whose references were inlined is marked `absorbed` (and `derived`, the flag that
    whole-program iterations already skip): its code is judged through its callers;
  * closures created inside an inlined helper become closures of the caller (`absorbed_parents`).
"""
import copy
import json
import os
import re

_gen_re = re.compile(r"::<[^<>]*(?:<[^<>]*(?:<[^<>]*>[^<>]*)*>[^<>]*)*>")
MAX_DEPTH = 4
MAX_BLOCKS = 12000


def _sg(n):
    prev = None
    while prev != n:
        prev = n
        n = _gen_re.sub("", n)
    return n


def known_functions(crate):
    p = os.path.join(os.path.dirname(os.path.dirname(os.path.abspath(__file__))), "known_functions.json")
    try:
        with open(p) as f:
            return set(json.load(f).get(crate) or [])
    except FileNotFoundError:
        return None


def _ren(x, lo, bo):
    """deep copy of a statement / terminator / var_debug value with locals shifted by lo"""
    if isinstance(x, list):
        return [_ren(y, lo, bo) for y in x]
    if not isinstance(x, dict):
        return x
    out = {}
    for k, v in x.items():
        out[k] = _ren(v, lo, bo)
    if isinstance(x.get("l"), int) and ("p" in x or x.get("k") in ("live", "dead")):
        out["l"] = x["l"] + lo
    if len(x) == 1 and isinstance(x.get("i"), int):
        out["i"] = x["i"] + lo
    return out


def _ren_term(t, lo, bo):
    t2 = _ren(t, lo, bo)
    for key in ("target", "unwind", "otherwise"):
        if isinstance(t.get(key), int):
            t2[key] = t[key] + bo
    if "targets" in t and t.get("k") == "switch":
        t2["targets"] = [[v, b + bo] for v, b in t["targets"]]
    if "succ" in t:
        t2["succ"] = [b + bo for b in t["succ"]]
    return t2


def inline_unknown(jbodies, known, adts=None):
    """mutates jbodies in place; returns {helper name: number of call sites inlined}"""
    byname = {}
    for k in jbodies:
        byname.setdefault(_sg(k), k)

    def is_helper(k):
        b = jbodies[k]
        return b["kind"] != "Closure" and not b.get("derived") and _sg(k) not in known and not k.endswith("::{constant#0}")

    helpers = {k for k in jbodies if is_helper(k)}
    if not helpers:
        return {}
    pristine = {k: copy.deepcopy(jbodies[k]) for k in helpers}
    counts = {}
    for K, c in jbodies.items():
        # helpers are expanded too (a helper that stays a body of its own - handed on as a function item - may itself
        # call other helpers); the copies inlined elsewhere are taken from the pristine bodies
        stacks = {i: ((K,) if K in helpers else ()) for i in range(len(c["blocks"]))}
        i = 0
        absorbed = []
        while i < len(c["blocks"]) and len(c["blocks"]) < MAX_BLOCKS:
            blk = c["blocks"][i]
            t = blk.get("term")
            i += 1
            if not t or t.get("k") != "call" or not t.get("callee"):
                continue
            H = byname.get(_sg(t["callee"]))
            st = stacks.get(i - 1, ())
            if H is None or H not in helpers or H in st or len(st) >= MAX_DEPTH:
                continue
            h = pristine[H]
            if len(t["args"]) != h["arg_count"]:
                continue
            lo, bo = len(c["locals"]), len(c["blocks"])
            for ld in h["locals"]:
                ld2 = dict(ld)
                ld2["inl"] = H
                c["locals"].append(ld2)
            rty = h["locals"][0]["ty"]
            if re.match(r"^(std|core)::(result::Result|option::Option)<", rty) or (adts and _sg(rty) in ENUMS(adts)):
                c.setdefault("_inl_roots", []).append(lo)
            for vd in h.get("var_debug", []):
                vd2 = {k_: v_ for k_, v_ in vd.items() if k_ != "arg"}
                vd2["value"] = _ren(vd["value"], lo, bo)
                vd2["inl"] = H
                c.setdefault("var_debug", []).append(vd2)
            line = t.get("line")
            # arguments -> parameter locals
            for a_i, a in enumerate(t["args"]):
                blk["stmts"].append({"k": "assign", "place": {"l": lo + 1 + a_i, "p": []}, "rv": {"k": "use", "op": a}, "line": line, "exp": False, "inl_arg": H})
                # an Option / Result argument whose variant the call site fixes (`helper(x, Some(key))`): the helper's
                # test of it is resolved per call site
                pty = h["locals"][1 + a_i]["ty"] if 1 + a_i < len(h["locals"]) else ""
                if re.match(r"^(std|core)::(result::Result|option::Option)<", pty):
                    c.setdefault("_inl_roots", []).append(lo + 1 + a_i)
                    if a.get("k") in ("move", "copy") and _bare(a["place"]):
                        c["_inl_roots"].append(a["place"]["l"])
            target, unwind, dest = t.get("target"), t.get("unwind"), t["dest"]
            blk["term"] = {"k": "goto", "target": bo, "line": line, "exp": False, "inl_call": H, "inl_callee": t.get("callee")}
            for hb in h["blocks"]:
                nb = {"cleanup": hb["cleanup"], "stmts": [_ren(s_, lo, bo) for s_ in hb["stmts"]]}
                ht = hb.get("term")
                if ht is None:
                    nb["term"] = None
                elif ht["k"] == "return":
                    nb["stmts"].append({"k": "assign", "place": dest, "rv": {"k": "use", "op": {"k": "move", "place": {"l": lo, "p": []}}}, "line": ht.get("line"), "exp": False, "inl_ret": H})
                    if target is None:
                        nb["term"] = {"k": "unreachable", "line": ht.get("line"), "exp": False}
                    else:
                        nb["term"] = {"k": "goto", "target": target, "line": ht.get("line"), "exp": False, "inl_ret": H}
                elif ht["k"] == "resume" and unwind is not None:
                    nb["term"] = {"k": "goto", "target": unwind, "line": ht.get("line"), "exp": False}
                else:
                    nb["term"] = _ren_term(ht, lo, bo)
                stacks[len(c["blocks"])] = st + (H,)
                c["blocks"].append(nb)
            counts[H] = counts.get(H, 0) + 1
            if H not in absorbed:
                absorbed.append(H)
        if absorbed:
            c["absorbed_parents"] = absorbed
            _devirtualise(c)
            if c.get("_inl_roots"):
                split_variants(c, set(c["_inl_roots"]), vmaps=ENUMS(adts) if adts else None)
    # a helper is absorbed when nothing refers to it any more except other (absorbed) helpers
    still = set()

    def refs(x):
        if isinstance(x, list):
            for y in x:
                refs(y)
        elif isinstance(x, dict):
            if x.get("k") == "call" and x.get("callee"):
                H = byname.get(_sg(x["callee"]))
                if H in helpers:
                    still.add(H)
            if x.get("k") == "const" and "fn" in x:
                H = byname.get(_sg(x["fn"]))
                if H in helpers:
                    still.add(H)
            for v in x.values():
                refs(v)
    for K, c in jbodies.items():
        if K in helpers:
            continue
        refs(c["blocks"])
    for H in helpers:
        if counts.get(H) and H not in still:
            jbodies[H]["absorbed"] = True
            jbodies[H]["derived"] = True
    return counts


# ---------------------------------------------------------------------------------------------
# Path splitting on the variant of an inlined helper's return value
#
# `helper(..)?` inlined: the helper builds `Ok(..)` on one path and `Err(..)` on another, both paths
# meet at the call's continuation, which then branches on the discriminant.  On the merged CFG the
# failing path of the helper appears to reach what follows the `?`.  The blocks between the
# construction of the value and the switch that consumes it are duplicated per known variant and
# the switch is resolved, so that dominance and reachability see the same paths as before the
# extraction.  Only values that originate in the return place of an inlined helper are tracked.
# ---------------------------------------------------------------------------------------------
_ENUMS = {}


def ENUMS(adts):
    """enum name -> {variant name: index} for the crate's own enums with at least two variants"""
    k = id(adts)
    if k not in _ENUMS:
        out = {}
        for a in adts:
            vs = a.get("variants") or []
            if a.get("kind", "enum") in ("enum", "Enum") and len(vs) >= 2:
                out[_sg(a["name"])] = {v["name"]: i for i, v in enumerate(vs)}
        _ENUMS[k] = out
    return _ENUMS[k]


def _devirtualise(c):
    """a call through a local that holds a function item (a `fn` argument of an inlined helper that the caller
    passed as a constant) becomes a direct call"""
    defs = {}
    for blk in c["blocks"]:
        for st in blk["stmts"]:
            if st.get("k") == "assign" and not st["place"]["p"]:
                defs.setdefault(st["place"]["l"], []).append(st["rv"])
        t = blk.get("term")
        if t and t.get("k") == "call" and not t["dest"]["p"]:
            defs.setdefault(t["dest"]["l"], []).append(None)
    for blk in c["blocks"]:
        t = blk.get("term")
        if not t or t.get("k") != "call" or t.get("callee") or not _bare(t.get("callee_place")):
            continue
        l = t["callee_place"]["l"]
        for _ in range(6):
            ds = defs.get(l, [])
            if len(ds) != 1 or ds[0] is None or ds[0]["k"] not in ("use", "cast"):
                break
            op = ds[0]["op"]
            if op.get("k") == "const" and "fn" in op:
                t["callee"] = op["fn"]
                t["callee_raw"] = op["fn"]
                t["devirtualised"] = True
                break
            if op.get("k") in ("move", "copy") and _bare(op["place"]):
                l = op["place"]["l"]
                continue
            break


VAR = {"Ok": 0, "Err": 1, "None": 0, "Some": 1, "Continue": 0, "Break": 1}


def _bare(pl):
    return pl is not None and not pl.get("p")


def _flag_info(c):
    """materialised conditions: bool locals with a constant definition and a definition copied from an expression
    temp (`let over = a > b && !c;` -> `over = const false` on one path, `over = move _t` on the other).
    Returns (flags, temps) with temps: single-definition locals -> rvalue."""
    ndef, consts, exprs, rvs = {}, {}, {}, {}
    for blk in c["blocks"]:
        for st in blk["stmts"]:
            if st.get("k") == "assign" and not st["place"]["p"]:
                l = st["place"]["l"]
                ndef[l] = ndef.get(l, 0) + 1
                rvs[l] = st["rv"]
                rv = st["rv"]
                if rv["k"] == "use" and rv["op"].get("k") == "const" and rv["op"].get("ty") == "bool":
                    consts[l] = consts.get(l, 0) + 1
                elif (rv["k"] == "use" and rv["op"].get("k") in ("move", "copy") and _bare(rv["op"]["place"])) or (rv["k"] == "un" and rv.get("op") == "Not"):
                    exprs[l] = exprs.get(l, 0) + 1
        t = blk.get("term")
        if t and t.get("k") == "call" and _bare(t.get("dest")):
            l = t["dest"]["l"]
            ndef[l] = ndef.get(l, 0) + 1
            rvs[l] = {"k": "call"}
    flags = {l for l in consts if exprs.get(l) and consts[l] + exprs[l] == ndef.get(l) and c["locals"][l]["ty"] == "bool"}
    temps = {l: rv for l, rv in rvs.items() if ndef.get(l) == 1}
    return flags, temps


def _expr_of(M, temps, neg=False, depth=0):
    """(local holding the tested atom, negated?) for a bool temp chain of copies / Not"""
    while depth < 6:
        depth += 1
        rv = temps.get(M)
        if rv is None:
            return None
        if rv["k"] == "use" and rv["op"].get("k") in ("move", "copy") and _bare(rv["op"]["place"]):
            M = rv["op"]["place"]["l"]
            continue
        if rv["k"] == "un" and rv.get("op") == "Not" and rv["a"].get("k") in ("move", "copy") and _bare(rv["a"]["place"]):
            M = rv["a"]["place"]["l"]
            neg = not neg
            continue
        if rv["k"] in ("call", "bin"):
            return (M, neg)
        return None
    return None


def _transfer(blk, state, roots, vmaps=None, flags=None, temps=None):
    st_ = dict(state)
    rewrite = None
    for st in blk["stmts"]:
        k = st.get("k")
        if k == "dead":
            st_.pop(st["l"], None)
            st_.pop(("d", st["l"]), None)
            st_.pop(("b", st["l"]), None)
        elif k == "assign":
            P = st["place"]
            L = P["l"]
            if P["p"]:
                st_.pop(L, None)
                continue
            rv = st["rv"]
            rk = rv["k"]
            newv = None
            newd = None
            if flags and L in flags:
                nb = None
                if rk == "use" and rv["op"].get("k") == "const":
                    nb = ("c", 1 if rv["op"].get("val") else 0)
                elif rk == "use" and rv["op"].get("k") in ("move", "copy") and _bare(rv["op"]["place"]):
                    M_ = rv["op"]["place"]["l"]
                    if ("b", M_) in st_:
                        nb = st_[("b", M_)]
                    else:
                        ex = _expr_of(M_, temps or {})
                        nb = ("e", ex[0], ex[1]) if ex else None
                elif rk == "un" and rv.get("op") == "Not" and rv["a"].get("k") in ("move", "copy") and _bare(rv["a"]["place"]):
                    ex = _expr_of(rv["a"]["place"]["l"], temps or {}, neg=True)
                    nb = ("e", ex[0], ex[1]) if ex else None
                st_.pop(("b", L), None)
                if nb is not None:
                    st_[("b", L)] = nb
            elif flags:
                # a copy of a tracked flag into the temp that is then tested
                cp = None
                if rk == "use" and rv["op"].get("k") in ("move", "copy") and _bare(rv["op"]["place"]) and ("b", rv["op"]["place"]["l"]) in st_:
                    cp = st_[("b", rv["op"]["place"]["l"])]
                st_.pop(("b", L), None)
                if cp is not None:
                    st_[("b", L)] = cp
            if rk == "agg" and rv.get("akind") == "adt" and L in roots and rv.get("variant") in VAR and re.search(r"(Result|Option|ControlFlow)$", str(rv.get("name", ""))):
                newv = VAR[rv["variant"]]
            elif rk == "agg" and rv.get("akind") == "adt" and L in roots and vmaps and _sg(str(rv.get("name", ""))) in vmaps and rv.get("variant") in vmaps[_sg(str(rv.get("name", "")))]:
                newv = vmaps[_sg(str(rv.get("name", "")))][rv["variant"]]
            elif rk == "use" and rv["op"].get("k") in ("move", "copy") and _bare(rv["op"]["place"]):
                M = rv["op"]["place"]["l"]
                if M in st_:
                    newv = st_[M]
                    if rv["op"]["k"] == "move":
                        st_.pop(M, None)
                if ("d", M) in st_:
                    newd = st_[("d", M)]
            elif rk == "discr" and _bare(rv["place"]) and rv["place"]["l"] in st_:
                newd = (st_[rv["place"]["l"]], rv["place"]["l"])
            elif rk == "ref" and rv.get("mut") and rv["place"]["l"] in st_:
                st_.pop(rv["place"]["l"], None)
            st_.pop(L, None)
            st_.pop(("d", L), None)
            if newv is not None:
                st_[L] = newv
            if newd is not None:
                st_[("d", L)] = newd
    t = blk.get("term")
    resolved = None
    if t:
        k = t["k"]
        if k == "call":
            callee = t.get("callee") or ""
            D = t["dest"]["l"] if _bare(t.get("dest")) else None
            a0 = t["args"][0] if t.get("args") else None
            newv = None
            if callee.endswith("Try>::branch") and a0 and a0.get("k") in ("move", "copy") and _bare(a0["place"]) and a0["place"]["l"] in st_:
                v = st_[a0["place"]["l"]]
                newv = v if "Result<" in callee else (1 - v if "Option<" in callee else None)
            elif callee.endswith("::from_residual"):
                # `?` passing a failure on: the value built is Err(..) resp. None
                newv = 1 if "Result<" in callee else (0 if "Option<" in callee else None)
            for a in t.get("args") or []:
                if a.get("k") == "move" and _bare(a["place"]):
                    st_.pop(a["place"]["l"], None)
            if D is not None:
                st_.pop(D, None)
                st_.pop(("d", D), None)
                if newv is not None:
                    st_[D] = newv
        elif k == "drop":
            if _bare(t.get("place")):
                st_.pop(t["place"]["l"], None)
        elif k == "switch":
            d = t["discr"]
            if d.get("k") in ("move", "copy") and _bare(d["place"]) and ("b", d["place"]["l"]) in st_:
                fb = st_[("b", d["place"]["l"])]
                if fb[0] == "c":
                    resolved = t["otherwise"]
                    for v, bb in t["targets"]:
                        if v == fb[1]:
                            resolved = bb
                else:
                    rewrite = (fb[1], fb[2])
            elif d.get("k") in ("move", "copy") and _bare(d["place"]) and ("d", d["place"]["l"]) in st_:
                val, src_l = st_[("d", d["place"]["l"])]
                resolved = t["otherwise"]
                for v, bb in t["targets"]:
                    if v == val:
                        resolved = bb
                # the knowledge has served its purpose: forget it, so that the paths merge again behind the switch
                st_.pop(("d", d["place"]["l"]), None)
                st_.pop(src_l, None)
    return st_, resolved, rewrite


def split_variants(c, roots, factor=4, vmaps=None):
    blocks = c["blocks"]
    flags, temps = _flag_info(c)
    key0 = (0, frozenset())
    ids = {key0: 0}
    order = [key0]
    out = []
    i = 0
    limit = max(len(blocks) * factor, len(blocks) + 2000)
    while i < len(order):
        bb, fs = order[i]
        i += 1
        blk = blocks[bb]
        st_out, resolved, rewrite = _transfer(blk, dict(fs), roots, vmaps, flags, temps)
        fso = frozenset(st_out.items())

        def nid(tb):
            kx = (tb, fso)
            if kx not in ids:
                ids[kx] = len(order)
                order.append(kx)
            return ids[kx]
        t = blk.get("term")
        nb = {"cleanup": blk["cleanup"], "stmts": blk["stmts"], "orig_bb": bb}
        if t is None:
            nb["term"] = None
        elif resolved is not None:
            nb["term"] = {"k": "goto", "target": nid(resolved), "line": t.get("line"), "exp": t.get("exp", False), "resolved_switch": True}
        else:
            t2 = dict(t)
            for key in ("target", "unwind", "otherwise"):
                if isinstance(t.get(key), int):
                    t2[key] = nid(t[key])
            if t.get("k") == "switch":
                t2["targets"] = [[v, nid(b_)] for v, b_ in t["targets"]]
                if rewrite is not None and len(t["targets"]) == 1 and t["targets"][0][0] == 0:
                    # the flag tested here is, on this path, a copy (or the negation) of an expression temp: test that temp
                    t2["discr"] = {"k": "copy", "place": {"l": rewrite[0], "p": []}}
                    t2["rewritten_flag"] = t["discr"]["place"]["l"]
                    if rewrite[1]:
                        t2["targets"] = [[0, nid(t["otherwise"])]]
                        t2["otherwise"] = nid(t["targets"][0][1])
            if "succ" in t:
                t2["succ"] = [nid(b_) for b_ in t["succ"]]
            nb["term"] = t2
        out.append(nb)
        if len(order) > limit:
            return False
    c["blocks"] = out
    c["split_variants"] = True
    return True
