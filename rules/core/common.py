"""Shared helpers for rule modules."""
import ast
import re
from . import extract
from .mir import Facts, AnchorMissing, strip_generics

_FACTS = {}


def mir(ctx, crate):
    if crate not in _FACTS:
        path, info = extract.mir_facts(crate)
        ctx.extract_info.append(info)
        f = Facts(path)
        if f.nonce != info["source_hash"]:
            raise extract.ExtractError("facts nonce mismatch for " + crate)
        _FACTS[crate] = f
    return _FACTS[crate]


def mir_from_path(path):
    return Facts(path)


def short_fn(name):
    n = re.sub(r"<impl [^>]*>::", "", name)
    n = n.replace("wal::runtime::", "").replace("wal::", "")
    return n


def bytes_const(op):
    """Decode a `const {b"..."}` operand (the new format_args template encoding, or any
    byte string) to bytes; None if not a byte-string constant."""
    d = op.get("dbg") if op else None
    if not d:
        return None
    d = d.strip()
    m = re.match(r'^\{?(b"(?:[^"\\]|\\.)*")\}?$', d)
    if not m:
        return None
    try:
        return ast.literal_eval(m.group(1))
    except Exception:
        return None


def fmt_template_pieces(b):
    """Literal pieces of a std::fmt::Arguments template in the byte encoding used by this
    toolchain: runs `<len < 0x80><len bytes>` are literal text, 0xC0 is "next argument,
    default options", 0x00 terminates.  Returns the list of literal byte strings in order
    with None marking a placeholder, or None when another opcode occurs (unknown encoding:
    the caller fails closed)."""
    out = []
    i = 0
    n = len(b)
    while i < n:
        c = b[i]
        if c == 0:
            return out
        if c < 0x80:
            out.append(bytes(b[i + 1:i + 1 + c]))
            i += 1 + c
        elif c == 0xC0:
            out.append(None)
            i += 1
        else:
            return None
    return None
