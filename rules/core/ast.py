"""Syntax-tree rules support (for the crates that cannot be type-checked offline).

Facts come from tools/astfacts (syn 2).  No types, no resolved callees: rules built on this
module are phrased over names that are unambiguous in the file and fail closed when an
anchor is not found exactly once."""
import re
from . import extract


class AstFile:
    def __init__(self, rel, j):
        self.rel = rel
        self.items = j["items"]

    def fns(self, name=None, ctx=None):
        out = []
        for it in self.items:
            if it["k"] != "fn":
                continue
            if name is not None and it["name"] != name:
                continue
            if ctx is not None and ctx not in (it.get("ctx") or ""):
                continue
            out.append(it)
        return out

    def fn(self, name, ctx=None):
        fs = self.fns(name, ctx)
        if len(fs) != 1:
            raise AnchorMissingAst("fn %s%s in %s (found %d)" % (name, " [%s]" % ctx if ctx else "", self.rel, len(fs)))
        return fs[0]

    def item(self, kind, name):
        xs = [it for it in self.items if it["k"] == kind and it.get("name") == name]
        if len(xs) != 1:
            raise AnchorMissingAst("%s %s in %s (found %d)" % (kind, name, self.rel, len(xs)))
        return xs[0]


class AnchorMissingAst(Exception):
    pass


def load(ctx, files):
    facts, info = extract.ast_facts(files)
    ctx.extract_info.append(info)
    out = {f: AstFile(f, j) for f, j in facts.items()}
    inline_helpers(out)
    return out


# ------------------------------------------------------------------------------------
# helper inlining (the syntax-tree counterpart of core/inline.py)
#
# A function of an analysed file that is not in rules/known_functions.json["ast"][file] is a helper that an edit
# extracted: it has no rule of its own.  Every call of it - `helper(..)`, `Self::helper(..)`, `self.helper(..)` - from a
# function of the loaded files is replaced by an `inlined` node that carries the helper's body, so that the walkers and
# the path enumeration see its statements where they are used.  In the path enumeration a `return` / tail value of the
# helper ends the inlined node only, and `helper(..)?` continues on the Ok edge for the helper's Ok results and takes
# the error exit for its Err results.
# ------------------------------------------------------------------------------------
STD_METHOD_NAMES = {"len", "get", "map", "iter", "next", "clone", "push", "insert", "remove", "contains", "is_empty", "unwrap", "expect", "ok", "err", "and_then", "or_else",
                    "as_ref", "as_mut", "to_string", "into", "from", "read", "write", "lock", "send", "recv", "take", "clear", "extend", "drain", "first", "last", "min", "max",
                    "new", "default", "fmt", "eq", "cmp", "hash", "drop", "deref", "borrow", "append", "flush", "sync_all", "open", "create", "join", "split", "find", "position"}
_KNOWN_AST = None


def known_ast():
    global _KNOWN_AST
    if _KNOWN_AST is None:
        import json
        import os
        p = os.path.join(os.path.dirname(os.path.dirname(os.path.abspath(__file__))), "known_functions.json")
        try:
            with open(p) as f:
                _KNOWN_AST = json.load(f).get("ast")
        except FileNotFoundError:
            _KNOWN_AST = None
    return _KNOWN_AST


def _subst(n, mapping):
    if isinstance(n, list):
        for x in n:
            _subst(x, mapping)
        return
    if not isinstance(n, dict):
        return
    if n.get("k") == "let":
        # a binding that shadows a parameter ends the substitution for the rest of the block; rare in helpers - keep simple:
        pass
    for k_, v in n.items():
        if isinstance(v, (dict, list)):
            _subst(v, mapping)
    if n.get("k") == "path" and n.get("p") in mapping:
        n["p"] = mapping[n["p"]]
    if isinstance(n.get("text"), str):
        t = n["text"]
        for a, b_ in mapping.items():
            t = re.sub(r"(?<![\w.])(?<!\. )%s(?!\w)" % re.escape(a), b_, t)
        n["text"] = t


def inline_helpers(files, max_depth=3):
    import copy
    import os
    known = known_ast()
    if known is None or os.environ.get("VERIF_NO_INLINE") == "1":
        return
    helpers = {}
    for rel, f in files.items():
        kn = known.get(rel)
        if kn is None:
            continue
        for it in f.items:
            if it["k"] == "fn" and it["name"] not in kn:
                helpers.setdefault(it["name"], []).append(it)
    helpers = {n: v[0] for n, v in helpers.items() if len(v) == 1}
    if not helpers:
        return

    def target(n):
        if not isinstance(n, dict):
            return None
        if n.get("k") == "call" and isinstance(n.get("f"), dict) and n["f"].get("k") == "path":
            nm = n["f"]["p"].split("::")[-1]
            pre = n["f"]["p"].split("::")[:-1]
            if nm in helpers and (not pre or pre[-1] in ("Self", "self", "crate", "super") or pre[-1][:1].isupper()):
                return nm
        if n.get("k") == "mcall" and n["method"] in helpers:
            h = helpers[n["method"]]
            takes_self = bool(h.get("params")) and h["params"][0]["name"] in ("self", "&self", "&mut self", "mut self")
            if text(n["recv"]) in ("self", "Self", "&self", "&mutself"):
                return n["method"]
            # a method of another type of the file (`stored.to_snapshot()`): only when the name cannot be a std method
            if takes_self and n["method"] not in STD_METHOD_NAMES and len(n.get("args", [])) == len(h["params"]) - 1:
                return n["method"]
        return None

    def rewrite(n, stack):
        if isinstance(n, list):
            for i, x in enumerate(n):
                n[i] = rewrite(x, stack)
            return n
        if not isinstance(n, dict):
            return n
        for k_, v in list(n.items()):
            if isinstance(v, (dict, list)):
                n[k_] = rewrite(v, stack)
        nm = target(n)
        if nm and nm not in stack and len(stack) < max_depth:
            h = helpers[nm]
            body = rewrite(copy.deepcopy(h["body"]), stack + (nm,))
            # parameter names stand for the argument expressions at this call site (text-level substitution, so that
            # rules which compare expression texts see `wal_key(topic, cursor.segment)` rather than `wal_key(topic, segment)`)
            mapping = {}
            params = [p_["name"].replace("mut ", "").strip() for p_ in h.get("params", [])]
            args_ = list(n.get("args", []) or [])
            if params and params[0] in ("self", "&self", "&mut self"):
                if n.get("k") == "mcall":
                    mapping["self"] = text(n["recv"])
                params = params[1:]
            for pn_, an_ in zip(params, args_):
                at_ = text(an_)
                if re.match(r"^\w+$", pn_) and at_ and not at_.startswith("<"):
                    mapping[pn_] = at_[1:] if at_.startswith("&") and re.match(r"^&\w+(\.\w+)*$", at_) else at_
            mapping = {k_: v_ for k_, v_ in mapping.items() if k_ != v_}
            if mapping:
                _subst(body, mapping)
            return {"k": "inlined", "name": nm, "line": n.get("line"), "text": n.get("text", ""), "args": n.get("args", []), "recv": n.get("recv") if n.get("k") == "mcall" else None,
                    "params": [p_["name"] for p_ in h.get("params", [])], "body": body, "callee_line": h.get("line")}
        return n
    for rel, f in files.items():
        for it in f.items:
            if it["k"] == "fn" and it["name"] not in helpers:
                it["body"] = rewrite(it["body"], (it["name"],))
    for rel, f in files.items():
        f.inlined = sorted(helpers)


# ------------------------------------------------------------------------------------
# tree helpers
# ------------------------------------------------------------------------------------
CHILD_KEYS = ("e", "f", "recv", "cond", "then", "else", "body", "init", "lhs", "rhs", "l", "r", "base", "idx", "iter", "from", "to", "len", "rest", "guard")
LIST_KEYS = ("args", "stmts", "elems")


def children(n):
    if not isinstance(n, dict):
        return
    for k in CHILD_KEYS:
        v = n.get(k)
        if isinstance(v, dict):
            yield v
    for k in LIST_KEYS:
        v = n.get(k)
        if isinstance(v, list):
            for x in v:
                if isinstance(x, dict):
                    yield x
    if n.get("k") == "match":
        for a in n.get("arms", []):
            if isinstance(a.get("guard"), dict):
                yield a["guard"]
            yield a["body"]
    if n.get("k") == "struct":
        for f in n.get("fields", []):
            yield f["e"]


def walk(n):
    if not isinstance(n, dict):
        return
    yield n
    for c in children(n):
        yield from walk(c)


def find(n, pred):
    return [x for x in walk(n) if pred(x)]


def is_mcall(n, method=None, recv_text=None):
    if not isinstance(n, dict) or n.get("k") != "mcall":
        return False
    if method is not None and n["method"] != method:
        return False
    if recv_text is not None and text(n["recv"]) != recv_text:
        return False
    return True


def is_call(n, path=None):
    if not isinstance(n, dict) or n.get("k") != "call":
        return False
    if path is not None:
        f = n["f"]
        if f.get("k") != "path" or not (f["p"] == path or f["p"].endswith("::" + path)):
            return False
    return True


def is_macro(n, name=None):
    if not isinstance(n, dict) or n.get("k") != "macro":
        return False
    if name is not None and n["name"].split("::")[-1] != name:
        return False
    return True


def text(n):
    """Token text of an expression node (whitespace-normalised)."""
    if n is None:
        return ""
    if "text" in n:
        return n["text"].replace(" ", "")
    k = n.get("k")
    if k == "path":
        return n["p"]
    if k == "lit":
        return n.get("text", "")
    if k == "ref":
        return "&" + ("mut" if n.get("mut") else "") + text(n["e"])
    if k == "await":
        return text(n["e"]) + ".await"
    if k == "try":
        return text(n["e"]) + "?"
    if k == "macro":
        return n["name"] + "!(" + n["tokens"].replace(" ", "") + ")"
    if k == "tuple":
        return "(" + ",".join(text(x) for x in n["elems"]) + ")"
    return "<%s>" % k


def unwrap(n):
    """strip await / try / paren / ref wrappers"""
    while isinstance(n, dict) and n.get("k") in ("await", "try", "ref"):
        n = n["e"]
    return n


# ------------------------------------------------------------------------------------
# path enumeration over the structured tree
# ------------------------------------------------------------------------------------
class Path:
    __slots__ = ("events", "exit", "conds", "res")

    def __init__(self, events=None, exit="fall", conds=None, res=None):
        self.events = events or []
        self.exit = exit          # fall | continue | break | return | err
        self.conds = conds or []  # (cond node, branch label)
        self.res = res            # 'ok' | 'err' | None: what an inlined helper returned on this path (consumed by `?`)

    def extend(self, other):
        return Path(self.events + other.events, other.exit, self.conds + other.conds, other.res)


MAX_PATHS = 20000


class TooManyPaths(Exception):
    pass


def _seq(paths_a, fn_b):
    """continue every falling path of a with the paths produced by fn_b()"""
    out = []
    pb = None
    for p in paths_a:
        if p.exit != "fall":
            out.append(p)
            continue
        if pb is None:
            pb = fn_b()
        for q in pb:
            out.append(p.extend(q))
            if len(out) > MAX_PATHS:
                raise TooManyPaths()
    return out


def expr_paths(n):
    """Acyclic control paths through the evaluation of expression n."""
    if not isinstance(n, dict):
        return [Path()]
    k = n.get("k")
    if k == "block":
        return block_paths(n)
    if k in ("unsafe", "async"):
        if k == "async":
            return [Path([("async", n)])]   # body runs elsewhere
        return block_paths(n["body"])
    if k == "if":
        cond = n["cond"]
        cps = expr_paths(cond)
        out = []
        thenp = _seq(cps, lambda: [Path([], "fall", [(n, "then")])])
        thenp = _seq(thenp, lambda: block_paths(n["then"]))
        out += thenp
        if n.get("else") is not None:
            ep = _seq(cps, lambda: [Path([], "fall", [(n, "else")])])
            ep = _seq(ep, lambda: expr_paths(n["else"]))
            out += ep
        else:
            out += _seq(cps, lambda: [Path([], "fall", [(n, "else")])])
        return out
    if k == "letcond":
        return expr_paths(n["e"])
    if k == "match":
        sp = expr_paths(n["e"])
        out = []
        for i, a in enumerate(n["arms"]):
            ap = _seq(sp, lambda a=a, i=i: [Path([], "fall", [(n, ("arm", i, a["pat"]))])])
            if isinstance(a.get("guard"), dict):
                ap = _seq(ap, lambda a=a: expr_paths(a["guard"]))
            ap = _seq(ap, lambda a=a: expr_paths(a["body"]))
            out += ap
        return out
    if k in ("loop", "while", "for"):
        pre = expr_paths(n.get("cond") or n.get("iter") or {}) if k != "loop" else [Path()]
        body = block_paths(n["body"])
        # zero iterations (not for `loop`) or one iteration; break/continue are absorbed
        once = []
        for p in body:
            ex = p.exit
            if ex in ("continue", "break", "fall"):
                ex = "fall"
            once.append(Path([("loop-iter", n)] + p.events, ex, p.conds))
        res = _seq(pre, lambda: once)
        if k != "loop":
            res += _seq(pre, lambda: [Path([("loop-skip", n)])])
        return res
    if k == "return":
        ps = expr_paths(n.get("e")) if n.get("e") else [Path()]
        return [Path(p.events + [("return", n)], "return" if p.exit == "fall" else p.exit, p.conds) for p in ps]
    if k == "break":
        return [Path([("break", n)], "break")]
    if k == "continue":
        return [Path([("continue", n)], "continue")]
    if k == "inlined":
        ps = [Path()]
        if n.get("recv") is not None:
            ps = _seq(ps, lambda: expr_paths(n["recv"]))
        for a in n.get("args", []) or []:
            ps = _seq(ps, lambda a=a: expr_paths(a))
        conv = []
        for p in block_paths(n["body"]):
            res = None
            if p.exit == "err":
                res = "err"
            elif p.exit in ("return", "fall"):
                last = None
                for kind_, nd_ in reversed(p.events):
                    if kind_ == "return":
                        last = nd_.get("e")
                        break
                    if kind_ == "tail":
                        last = nd_
                        break
                t_ = text(last) if isinstance(last, dict) else ""
                res = "ok" if t_.startswith("Ok(") else "err" if t_.startswith("Err(") else None
            conv.append(Path(p.events, "fall", p.conds, res))
        return _seq(ps, lambda: conv)
    if k == "try":
        ps = expr_paths(n["e"])
        out = []
        inner = n["e"]
        while isinstance(inner, dict) and inner.get("k") in ("await", "paren"):
            inner = inner.get("e")
        from_helper = isinstance(inner, dict) and inner.get("k") == "inlined"
        for p in ps:
            if p.exit != "fall":
                out.append(p)
                continue
            if not (from_helper and p.res == "err"):
                out.append(Path(p.events + [("try-ok", n)], "fall", p.conds))
            if not (from_helper and p.res == "ok"):
                out.append(Path(p.events + [("try-err", n)], "err", p.conds))
        return out
    if k == "closure":
        return [Path([("closure", n)])]
    if k == "macro":
        nm = n["name"].split("::")[-1]
        ps = [Path()]
        for a in n.get("args", []) or []:
            ps = _seq(ps, lambda a=a: expr_paths(a))
        if nm in ("bail",):
            return [Path(p.events + [("macro", n)], "err" if p.exit == "fall" else p.exit, p.conds) for p in ps]
        return [Path(p.events + [("macro", n)], p.exit, p.conds) for p in ps]
    # generic: evaluate children left to right, then the node itself is an event for calls / assigns
    ps = [Path()]
    for c in children(n):
        ps = _seq(ps, lambda c=c: expr_paths(c))
    keep = k in ("await", "paren")
    if k in ("call", "mcall", "assign", "await", "struct"):
        ps = [Path(p.events + [(k, n)], p.exit, p.conds, p.res if keep else None) if p.exit == "fall" else p for p in ps]
    elif k == "binary" and n.get("op", "").endswith("=") and n.get("op") not in ("==", "!=", "<=", ">="):
        ps = [Path(p.events + [("assign", n)], p.exit, p.conds) if p.exit == "fall" else p for p in ps]
    return ps


def block_paths(b):
    ps = [Path()]
    stmts = b.get("stmts", [])
    for i, st in enumerate(stmts):
        ps = _seq(ps, lambda st=st: stmt_paths(st))
        if i == len(stmts) - 1 and st.get("k") == "expr" and not st.get("semi") and isinstance(st.get("e"), dict) and st["e"].get("k") not in ("if", "match", "block", "loop", "while", "for", "unsafe", "return", "break", "continue"):
            # the block's value (used to tell what an inlined helper returns on this path)
            ps = [Path(p.events + [("tail", st["e"])], p.exit, p.conds, p.res) if p.exit == "fall" else p for p in ps]
    return ps


def stmt_paths(st):
    k = st.get("k")
    if k == "let":
        ps = expr_paths(st.get("init")) if st.get("init") else [Path()]
        if st.get("else") is not None:
            out = []
            for p in ps:
                if p.exit != "fall":
                    out.append(p)
                    continue
                out.append(Path(p.events + [("let", st)], "fall", p.conds + [(st, "let-ok")]))
                for q in expr_paths(st["else"]):
                    out.append(Path(p.events + q.events, q.exit if q.exit != "fall" else "return", p.conds + [(st, "let-else")] + q.conds))
            return out
        return [Path(p.events + [("let", st)], p.exit, p.conds) if p.exit == "fall" else p for p in ps]
    if k == "expr":
        return expr_paths(st["e"])
    return [Path()]


def events_of(p, kind=None, pred=None):
    out = []
    for (k, n) in p.events:
        if kind is not None and k != kind:
            continue
        if pred is not None and not pred(n):
            continue
        out.append(n)
    return out
