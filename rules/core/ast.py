"""Syntax-tree rules support (for the crates that cannot be type-checked offline).

Facts come from tools/astfacts (syn 2).  No types, no resolved callees: rules built on this
module are phrased over names that are unambiguous in the file and fail closed when an
anchor is not found exactly once."""
from . import extract


class AstFile:
    def __init__(self, rel, j):
        self.rel = rel
        self.items = j["items"]

    def fns(self, name=None, ctx=None):
        out = []
        for it in self.items:
            if it["k"] != "fn":
                continue
            if name is not None and it["name"] != name:
                continue
            if ctx is not None and ctx not in (it.get("ctx") or ""):
                continue
            out.append(it)
        return out

    def fn(self, name, ctx=None):
        fs = self.fns(name, ctx)
        if len(fs) != 1:
            raise AnchorMissingAst("fn %s%s in %s (found %d)" % (name, " [%s]" % ctx if ctx else "", self.rel, len(fs)))
        return fs[0]

    def item(self, kind, name):
        xs = [it for it in self.items if it["k"] == kind and it.get("name") == name]
        if len(xs) != 1:
            raise AnchorMissingAst("%s %s in %s (found %d)" % (kind, name, self.rel, len(xs)))
        return xs[0]


class AnchorMissingAst(Exception):
    pass


def load(ctx, files):
    facts, info = extract.ast_facts(files)
    ctx.extract_info.append(info)
    return {f: AstFile(f, j) for f, j in facts.items()}


# ------------------------------------------------------------------------------------
# tree helpers
# ------------------------------------------------------------------------------------
CHILD_KEYS = ("e", "f", "recv", "cond", "then", "else", "body", "init", "lhs", "rhs", "l", "r", "base", "idx", "iter", "from", "to", "len", "rest", "guard")
LIST_KEYS = ("args", "stmts", "elems")


def children(n):
    if not isinstance(n, dict):
        return
    for k in CHILD_KEYS:
        v = n.get(k)
        if isinstance(v, dict):
            yield v
    for k in LIST_KEYS:
        v = n.get(k)
        if isinstance(v, list):
            for x in v:
                if isinstance(x, dict):
                    yield x
    if n.get("k") == "match":
        for a in n.get("arms", []):
            if isinstance(a.get("guard"), dict):
                yield a["guard"]
            yield a["body"]
    if n.get("k") == "struct":
        for f in n.get("fields", []):
            yield f["e"]


def walk(n):
    if not isinstance(n, dict):
        return
    yield n
    for c in children(n):
        yield from walk(c)


def find(n, pred):
    return [x for x in walk(n) if pred(x)]


def is_mcall(n, method=None, recv_text=None):
    if not isinstance(n, dict) or n.get("k") != "mcall":
        return False
    if method is not None and n["method"] != method:
        return False
    if recv_text is not None and text(n["recv"]) != recv_text:
        return False
    return True


def is_call(n, path=None):
    if not isinstance(n, dict) or n.get("k") != "call":
        return False
    if path is not None:
        f = n["f"]
        if f.get("k") != "path" or not (f["p"] == path or f["p"].endswith("::" + path)):
            return False
    return True


def is_macro(n, name=None):
    if not isinstance(n, dict) or n.get("k") != "macro":
        return False
    if name is not None and n["name"].split("::")[-1] != name:
        return False
    return True


def text(n):
    """Token text of an expression node (whitespace-normalised)."""
    if n is None:
        return ""
    if "text" in n:
        return n["text"].replace(" ", "")
    k = n.get("k")
    if k == "path":
        return n["p"]
    if k == "lit":
        return n.get("text", "")
    if k == "ref":
        return "&" + ("mut" if n.get("mut") else "") + text(n["e"])
    if k == "await":
        return text(n["e"]) + ".await"
    if k == "try":
        return text(n["e"]) + "?"
    if k == "macro":
        return n["name"] + "!(" + n["tokens"].replace(" ", "") + ")"
    if k == "tuple":
        return "(" + ",".join(text(x) for x in n["elems"]) + ")"
    return "<%s>" % k


def unwrap(n):
    """strip await / try / paren / ref wrappers"""
    while isinstance(n, dict) and n.get("k") in ("await", "try", "ref"):
        n = n["e"]
    return n


# ------------------------------------------------------------------------------------
# path enumeration over the structured tree
# ------------------------------------------------------------------------------------
class Path:
    __slots__ = ("events", "exit", "conds")

    def __init__(self, events=None, exit="fall", conds=None):
        self.events = events or []
        self.exit = exit          # fall | continue | break | return | err
        self.conds = conds or []  # (cond node, branch label)

    def extend(self, other):
        return Path(self.events + other.events, other.exit, self.conds + other.conds)


MAX_PATHS = 20000


class TooManyPaths(Exception):
    pass


def _seq(paths_a, fn_b):
    """continue every falling path of a with the paths produced by fn_b()"""
    out = []
    pb = None
    for p in paths_a:
        if p.exit != "fall":
            out.append(p)
            continue
        if pb is None:
            pb = fn_b()
        for q in pb:
            out.append(p.extend(q))
            if len(out) > MAX_PATHS:
                raise TooManyPaths()
    return out


def expr_paths(n):
    """Acyclic control paths through the evaluation of expression n."""
    if not isinstance(n, dict):
        return [Path()]
    k = n.get("k")
    if k == "block":
        return block_paths(n)
    if k in ("unsafe", "async"):
        if k == "async":
            return [Path([("async", n)])]   # body runs elsewhere
        return block_paths(n["body"])
    if k == "if":
        cond = n["cond"]
        cps = expr_paths(cond)
        out = []
        thenp = _seq(cps, lambda: [Path([], "fall", [(n, "then")])])
        thenp = _seq(thenp, lambda: block_paths(n["then"]))
        out += thenp
        if n.get("else") is not None:
            ep = _seq(cps, lambda: [Path([], "fall", [(n, "else")])])
            ep = _seq(ep, lambda: expr_paths(n["else"]))
            out += ep
        else:
            out += _seq(cps, lambda: [Path([], "fall", [(n, "else")])])
        return out
    if k == "letcond":
        return expr_paths(n["e"])
    if k == "match":
        sp = expr_paths(n["e"])
        out = []
        for i, a in enumerate(n["arms"]):
            ap = _seq(sp, lambda a=a, i=i: [Path([], "fall", [(n, ("arm", i, a["pat"]))])])
            if isinstance(a.get("guard"), dict):
                ap = _seq(ap, lambda a=a: expr_paths(a["guard"]))
            ap = _seq(ap, lambda a=a: expr_paths(a["body"]))
            out += ap
        return out
    if k in ("loop", "while", "for"):
        pre = expr_paths(n.get("cond") or n.get("iter") or {}) if k != "loop" else [Path()]
        body = block_paths(n["body"])
        # zero iterations (not for `loop`) or one iteration; break/continue are absorbed
        once = []
        for p in body:
            ex = p.exit
            if ex in ("continue", "break", "fall"):
                ex = "fall"
            once.append(Path([("loop-iter", n)] + p.events, ex, p.conds))
        res = _seq(pre, lambda: once)
        if k != "loop":
            res += _seq(pre, lambda: [Path([("loop-skip", n)])])
        return res
    if k == "return":
        ps = expr_paths(n.get("e")) if n.get("e") else [Path()]
        return [Path(p.events + [("return", n)], "return" if p.exit == "fall" else p.exit, p.conds) for p in ps]
    if k == "break":
        return [Path([("break", n)], "break")]
    if k == "continue":
        return [Path([("continue", n)], "continue")]
    if k == "try":
        ps = expr_paths(n["e"])
        out = []
        for p in ps:
            if p.exit != "fall":
                out.append(p)
                continue
            out.append(Path(p.events + [("try-ok", n)], "fall", p.conds))
            out.append(Path(p.events + [("try-err", n)], "err", p.conds))
        return out
    if k == "closure":
        return [Path([("closure", n)])]
    if k == "macro":
        nm = n["name"].split("::")[-1]
        ps = [Path()]
        for a in n.get("args", []) or []:
            ps = _seq(ps, lambda a=a: expr_paths(a))
        if nm in ("bail",):
            return [Path(p.events + [("macro", n)], "err" if p.exit == "fall" else p.exit, p.conds) for p in ps]
        return [Path(p.events + [("macro", n)], p.exit, p.conds) for p in ps]
    # generic: evaluate children left to right, then the node itself is an event for calls / assigns
    ps = [Path()]
    for c in children(n):
        ps = _seq(ps, lambda c=c: expr_paths(c))
    if k in ("call", "mcall", "assign", "await", "struct"):
        ps = [Path(p.events + [(k, n)], p.exit, p.conds) if p.exit == "fall" else p for p in ps]
    elif k == "binary" and n.get("op", "").endswith("=") and n.get("op") not in ("==", "!=", "<=", ">="):
        ps = [Path(p.events + [("assign", n)], p.exit, p.conds) if p.exit == "fall" else p for p in ps]
    return ps


def block_paths(b):
    ps = [Path()]
    for st in b.get("stmts", []):
        ps = _seq(ps, lambda st=st: stmt_paths(st))
    return ps


def stmt_paths(st):
    k = st.get("k")
    if k == "let":
        ps = expr_paths(st.get("init")) if st.get("init") else [Path()]
        if st.get("else") is not None:
            out = []
            for p in ps:
                if p.exit != "fall":
                    out.append(p)
                    continue
                out.append(Path(p.events + [("let", st)], "fall", p.conds + [(st, "let-ok")]))
                for q in expr_paths(st["else"]):
                    out.append(Path(p.events + q.events, q.exit if q.exit != "fall" else "return", p.conds + [(st, "let-else")] + q.conds))
            return out
        return [Path(p.events + [("let", st)], p.exit, p.conds) if p.exit == "fall" else p for p in ps]
    if k == "expr":
        return expr_paths(st["e"])
    return [Path()]


def events_of(p, kind=None, pred=None):
    out = []
    for (k, n) in p.events:
        if kind is not None and k != kind:
            continue
        if pred is not None and not pred(n):
            continue
        out.append(n)
    return out
