"""A small abstract interpreter over MIR for *finite* domains.

It evaluates loop-free (or bounded) MIR regions on abstract inputs: concrete scalars for
singleton classes, `Sym` tokens for classes that stand for many concrete values.  Any
construct whose result is not determined by the abstract inputs raises `Undecided`, and
the calling rule then fails closed.  Used for
  * CHARABS: the exact image of a `char -> char` / `char -> bool` closure over a finite
    partition of `char`,
  * BOOL: truth tables of boolean locals defined by short-circuit regions.
"""
from .mir import op_place, place_str


class Undecided(Exception):
    pass


class Sym:
    """An abstract value standing for a whole class of concrete values."""

    def __init__(self, name, props=None):
        self.name = name
        self.props = props or {}

    def __repr__(self):
        return "Sym(%s)" % self.name

    def __eq__(self, o):
        return isinstance(o, Sym) and o.name == self.name

    def __hash__(self):
        return hash(("Sym", self.name))


class Ref:
    def __init__(self, local, proj=()):
        self.local, self.proj = local, tuple(proj)

    def __repr__(self):
        return "Ref(_%d%s)" % (self.local, self.proj)


class Interp:
    def __init__(self, body, call_model=None, sym_binop=None, sym_switch=None, max_steps=20000):
        self.body = body
        self.call_model = call_model
        self.sym_binop = sym_binop
        self.sym_switch = sym_switch
        self.max_steps = max_steps

    # -- places ---------------------------------------------------------------
    def read_place(self, env, p):
        l = p["l"]
        if l not in env:
            raise Undecided("read of unset local %s" % place_str(p))
        v = env[l]
        for e in p["p"]:
            if e == "*":
                if isinstance(v, Ref):
                    if v.local not in env:
                        raise Undecided("deref of ref to unset local")
                    vv = env[v.local]
                    for pe in v.proj:
                        vv = self._proj(vv, pe)
                    v = vv
                else:
                    raise Undecided("deref of non-ref %r" % (v,))
            else:
                v = self._proj(v, e)
        return v

    def _proj(self, v, e):
        if isinstance(e, dict) and "f" in e:
            if isinstance(v, tuple):
                return v[e["f"]]
            if isinstance(v, dict) and e.get("n") in v:
                return v[e["n"]]
            raise Undecided("field of %r" % (v,))
        if isinstance(e, dict) and "d" in e:
            return v
        raise Undecided("projection %r" % (e,))

    def operand(self, env, o):
        k = o["k"]
        if k in ("copy", "move"):
            return self.read_place(env, o["place"])
        if k == "const":
            if "val" in o:
                if o["ty"] == "bool":
                    return bool(o["val"])
                return o["val"]
            if "str" in o:
                return o["str"]
            if o.get("dbg") == "()" or o["ty"] == "()":
                return ()
            if "fn" in o:
                return ("fn", o["fn"])
            return ("const", o.get("dbg"))
        raise Undecided("operand %r" % (o,))

    def rvalue(self, env, rv):
        k = rv["k"]
        if k == "use":
            return self.operand(env, rv["op"])
        if k == "ref" or k == "rawptr":
            p = rv["place"]
            # &(*_x) re-borrows: resolve to the underlying ref
            if p["p"] and p["p"][0] == "*" and len(p["p"]) == 1:
                v = env.get(p["l"])
                if isinstance(v, Ref):
                    return v
            return Ref(p["l"], p["p"])
        if k == "bin":
            a = self.operand(env, rv["a"])
            b = self.operand(env, rv["b"])
            return self.binop(rv["op"], a, b)
        if k == "un":
            a = self.operand(env, rv["a"])
            if rv["op"] == "Not":
                if isinstance(a, bool):
                    return not a
                raise Undecided("Not of %r" % (a,))
            raise Undecided("unop " + rv["op"])
        if k == "cast":
            v = self.operand(env, rv["op"])
            if isinstance(v, (int, bool)) and rv["kind"] in ("IntToInt",):
                return int(v)
            return v
        if k == "agg":
            vals = tuple(self.operand(env, o) for o in rv["ops"])
            if rv.get("akind") == "adt":
                return {"__adt": rv["name"], "__variant": rv["variant"], **dict(zip(rv.get("fields", []), vals))}
            return vals
        if k == "discr":
            v = self.read_place(env, rv["place"])
            if isinstance(v, dict) and "__discr" in v:
                return v["__discr"]
            if isinstance(v, bool):
                return int(v)
            raise Undecided("discriminant of %r" % (v,))
        raise Undecided("rvalue " + k)

    def binop(self, op, a, b):
        if isinstance(a, Sym) or isinstance(b, Sym):
            if self.sym_binop:
                return self.sym_binop(op, a, b)
            raise Undecided("binop on Sym")
        if isinstance(a, bool) and isinstance(b, bool) or (isinstance(a, int) and isinstance(b, int)):
            a2, b2 = int(a), int(b)
            t = {
                "Eq": a2 == b2, "Ne": a2 != b2, "Lt": a2 < b2, "Le": a2 <= b2, "Gt": a2 > b2, "Ge": a2 >= b2,
            }
            if op in t:
                return t[op]
            if op == "BitAnd":
                return (a and b) if isinstance(a, bool) else (a2 & b2)
            if op == "BitOr":
                return (a or b) if isinstance(a, bool) else (a2 | b2)
            if op == "BitXor":
                return (a != b) if isinstance(a, bool) else (a2 ^ b2)
            if op in ("Add", "AddUnchecked"):
                return a2 + b2
            if op in ("Sub", "SubUnchecked"):
                return a2 - b2
            if op == "AddWithOverflow":
                return (a2 + b2, False)
            if op == "SubWithOverflow":
                return (a2 - b2, a2 - b2 < 0)
        raise Undecided("binop %s(%r,%r)" % (op, a, b))

    # -- run ------------------------------------------------------------------
    def run(self, args, start_bb=0, stop_blocks=(), env=None):
        """args: dict local -> abstract value.  Returns (value of _0, env, path) on Return,
        or ('stop', bb, env, path) when a stop block is reached."""
        env = dict(env or {})
        env.update(args)
        bb = start_bb
        path = []
        steps = 0
        while True:
            steps += 1
            if steps > self.max_steps:
                raise Undecided("step bound exceeded (loop?)")
            if bb in stop_blocks and path:
                return ("stop", bb, env, path)
            path.append(bb)
            blk = self.body.blocks[bb]
            for st in blk["stmts"]:
                if st["k"] == "assign":
                    val = self.rvalue(env, st["rv"])
                    p = st["place"]
                    if p["p"]:
                        raise Undecided("store through projection %s" % place_str(p))
                    env[p["l"]] = val
            t = blk["term"]
            k = t["k"]
            if k == "goto":
                bb = t["target"]
            elif k == "return":
                return ("return", env.get(0), env, path)
            elif k == "switch":
                v = self.operand(env, t["discr"])
                if isinstance(v, Sym):
                    if not self.sym_switch:
                        raise Undecided("switch on Sym")
                    bb = self.sym_switch(v, t)
                    continue
                if isinstance(v, bool):
                    v = int(v)
                if not isinstance(v, int):
                    raise Undecided("switch on %r" % (v,))
                nxt = t["otherwise"]
                for val, tgt in t["targets"]:
                    if val == v:
                        nxt = tgt
                        break
                bb = nxt
            elif k == "call":
                if not self.call_model:
                    raise Undecided("call " + str(t.get("callee")))
                argv = [self.operand(env, a) for a in t["args"]]
                res = self.call_model(self, env, t, argv)
                p = t["dest"]
                if p["p"]:
                    raise Undecided("call dest projection")
                env[p["l"]] = res
                if t.get("target") is None:
                    raise Undecided("diverging call")
                bb = t["target"]
            elif k == "drop":
                bb = t["target"]
            elif k == "assert":
                c = self.operand(env, t["cond"])
                if isinstance(c, bool) and c == t["expected"]:
                    bb = t["target"]
                else:
                    raise Undecided("assert may fail")
            else:
                raise Undecided("terminator " + k)

    def deref_arg(self, env, v):
        """Value behind a Ref argument."""
        while isinstance(v, Ref):
            vv = env.get(v.local)
            if vv is None:
                raise Undecided("ref to unset local")
            for pe in v.proj:
                if pe == "*":
                    continue
                vv = self._proj(vv, pe)
            v = vv
        return v


# --------------------------------------------------------------------------
# char partition
# --------------------------------------------------------------------------
NONASCII = [
    Sym("nonascii-alphabetic", {"alphabetic": True, "alphanumeric": True}),
    Sym("nonascii-numeric", {"numeric": True, "alphanumeric": True}),
    Sym("nonascii-whitespace", {"whitespace": True}),
    Sym("nonascii-control", {"control": True}),
    Sym("nonascii-other", {}),
]


def char_atoms():
    """Exact finite partition of `char`: 128 ASCII singletons + 5 non-ASCII classes that the
    std predicates modelled below cannot split further."""
    return list(range(128)) + NONASCII


def _ascii_pred(name, c):
    ch = chr(c)
    if name == "is_ascii":
        return True
    if name == "is_ascii_alphanumeric" or name == "is_alphanumeric":
        return ch.isalnum() and c < 128
    if name == "is_ascii_alphabetic" or name == "is_alphabetic":
        return ch.isalpha()
    if name == "is_ascii_digit" or name == "is_numeric":
        return ch.isdigit()
    if name == "is_ascii_lowercase" or name == "is_lowercase":
        return "a" <= ch <= "z"
    if name == "is_ascii_uppercase" or name == "is_uppercase":
        return "A" <= ch <= "Z"
    if name == "is_ascii_hexdigit":
        return ch in "0123456789abcdefABCDEF"
    if name == "is_ascii_punctuation":
        return (33 <= c <= 47) or (58 <= c <= 64) or (91 <= c <= 96) or (123 <= c <= 126)
    if name == "is_ascii_graphic":
        return 33 <= c <= 126
    if name == "is_ascii_whitespace":
        return c in (0x20, 0x09, 0x0A, 0x0C, 0x0D)
    if name == "is_whitespace":
        return c in (0x20, 0x09, 0x0A, 0x0B, 0x0C, 0x0D)
    if name == "is_ascii_control" or name == "is_control":
        return c < 32 or c == 127
    raise Undecided("char predicate " + name)


_NONASCII_PRED = {
    "is_ascii": lambda s: False,
    "is_alphanumeric": lambda s: bool(s.props.get("alphanumeric")),
    "is_alphabetic": lambda s: bool(s.props.get("alphabetic")),
    "is_numeric": lambda s: bool(s.props.get("numeric")),
    "is_whitespace": lambda s: bool(s.props.get("whitespace")),
    "is_control": lambda s: bool(s.props.get("control")),
}


def char_pred(name, v):
    if isinstance(v, Sym):
        if name.startswith("is_ascii"):
            return False
        if name in _NONASCII_PRED:
            return _NONASCII_PRED[name](v)
        raise Undecided("predicate %s on non-ASCII class" % name)
    return _ascii_pred(name, v)


def char_call_model(interp, env, t, argv):
    name = (t.get("callee") or "").split("::")[-1]
    callee = t.get("callee") or ""
    if "char" in callee and name.startswith("is_"):
        v = interp.deref_arg(env, argv[0])
        return char_pred(name, v)
    if "char" in callee and name in ("to_ascii_lowercase", "to_ascii_uppercase"):
        v = interp.deref_arg(env, argv[0])
        if isinstance(v, Sym):
            return v
        return ord(chr(v).lower() if name.endswith("lowercase") else chr(v).upper())
    if name in ("eq", "ne") and len(argv) == 2:
        a = interp.deref_arg(env, argv[0])
        b = interp.deref_arg(env, argv[1])
        r = char_sym_binop("Eq", a, b) if (isinstance(a, Sym) or isinstance(b, Sym)) else (a == b)
        return r if name == "eq" else (not r)
    raise Undecided("call %s in char closure" % callee)


def char_sym_binop(op, a, b):
    """Comparison between a non-ASCII class and an ASCII constant is decided; anything else
    is not."""
    if isinstance(a, Sym) and isinstance(b, int) and b < 128:
        return {"Eq": False, "Ne": True, "Lt": False, "Le": False, "Gt": True, "Ge": True}.get(op, None) if op in ("Eq", "Ne", "Lt", "Le", "Gt", "Ge") else _und(op)
    if isinstance(b, Sym) and isinstance(a, int) and a < 128:
        return {"Eq": False, "Ne": True, "Lt": True, "Le": True, "Gt": False, "Ge": False}[op] if op in ("Eq", "Ne", "Lt", "Le", "Gt", "Ge") else _und(op)
    raise Undecided("comparison of class %r with %r" % (a, b))


def _und(op):
    raise Undecided("binop %s on class" % op)


def char_sym_switch(v, t):
    for val, tgt in t["targets"]:
        if val >= 128:
            raise Undecided("switch compares a non-ASCII class with non-ASCII constant")
    return t["otherwise"]


def char_closure_image(body, char_arg_local=2):
    """Exact image of a closure `|c: char| -> char|bool` per atom.
    Returns dict atom -> result (int code point, Sym (identity on a class), or bool)."""
    it = Interp(body, call_model=char_call_model, sym_binop=char_sym_binop, sym_switch=char_sym_switch)
    out = {}
    for a in char_atoms():
        args = {1: ("closure-env",)}
        args[char_arg_local] = a      # a plain fn has the char as its first parameter
        r = it.run(args)
        if r[0] != "return":
            raise Undecided("closure did not return")
        out[a] = r[1]
    return out


def char_region_image(body, start_bb, env_fn, sink_re, sink_arg=1, stop_after=True):
    """Image of a code region that computes a char from a char and hands it to a sink call (`s.push(f(c))`):
    the region is entered at start_bb with the environment env_fn(atom) and evaluated until the first call matching
    sink_re; returns dict atom -> the abstract value of that call's argument `sink_arg`."""
    import re as _re
    rx = _re.compile(sink_re)
    out = {}

    class _Hit(Exception):
        def __init__(self, v):
            self.v = v

    def model(interp, env, t, argv):
        if rx.search(t.get("callee") or ""):
            raise _Hit(interp.deref_arg(env, argv[sink_arg]) if isinstance(argv[sink_arg], Ref) else argv[sink_arg])
        return char_call_model(interp, env, t, argv)
    it = Interp(body, call_model=model, sym_binop=char_sym_binop, sym_switch=char_sym_switch)
    for a in char_atoms():
        try:
            r = it.run({}, start_bb=start_bb, env=env_fn(a))
        except _Hit as h:
            out[a] = h.v
            continue
        raise Undecided("the region does not reach the sink for atom %r" % (a,))
    return out


def explore_consts(body, env0, on_call, max_nodes=20000):
    """Path-sensitive constant propagation over the CFG of `body`: env maps locals to known scalars (ints / bools);
    env0 is the initial knowledge (e.g. a parameter: for a fieldless enum give its variant index under key
    ('variant', local)).  Switches on known values follow one successor, others all.  on_call(site_bb, term, env) is
    called at every call terminator reached.  Loops are cut by memoising (block, env)."""
    seen = set()
    work = [(0, tuple(sorted(env0.items(), key=str)))]
    n = 0
    while work:
        bb, envt = work.pop()
        if (bb, envt) in seen:
            continue
        seen.add((bb, envt))
        n += 1
        if n > max_nodes:
            raise Undecided("too many (block, constants) states")
        env = dict(envt)
        blk = body.blocks[bb]
        for st in blk["stmts"]:
            if st["k"] == "assign":
                p = st["place"]
                if p["p"]:
                    env.pop(p["l"], None)
                    continue
                rv = st["rv"]
                val = None
                var = None
                if rv["k"] in ("use", "cast"):
                    o = rv["op"]
                    if o.get("k") == "const" and "val" in o:
                        val = o["val"]
                    elif o.get("k") == "const" and o.get("variant") is not None:
                        var = o.get("variant")
                    elif o.get("k") in ("move", "copy") and not o["place"]["p"]:
                        val = env.get(o["place"]["l"])
                        var = env.get(("variant", o["place"]["l"]))
                elif rv["k"] == "discr" and not rv["place"]["p"]:
                    val = env.get(("variant", rv["place"]["l"]))
                elif rv["k"] == "agg" and rv.get("akind") == "adt" and not rv.get("ops"):
                    var = rv.get("variant_index", rv.get("variant"))
                elif rv["k"] == "un" and rv.get("op") == "Not" and rv["a"].get("k") in ("move", "copy") and not rv["a"]["place"]["p"]:
                    v0 = env.get(rv["a"]["place"]["l"])
                    val = (0 if v0 else 1) if v0 is not None else None
                env.pop(p["l"], None)
                env.pop(("variant", p["l"]), None)
                if val is not None:
                    env[p["l"]] = val
                if var is not None:
                    env[("variant", p["l"])] = var
        t = blk["term"]
        if t is None:
            continue
        k = t["k"]
        succ = []
        if k == "switch":
            d = t["discr"]
            v = None
            if d.get("k") == "const" and "val" in d:
                v = d["val"]
            elif d.get("k") in ("move", "copy") and not d["place"]["p"]:
                v = env.get(d["place"]["l"])
            if v is not None and not isinstance(v, str):
                nxt = t["otherwise"]
                for val, tgt in t["targets"]:
                    if val == int(v):
                        nxt = tgt
                succ = [nxt]
            else:
                succ = [x[1] for x in t["targets"]] + [t["otherwise"]]
        elif k == "call":
            on_call(bb, t, env)
            if not t["dest"]["p"]:
                env.pop(t["dest"]["l"], None)
                env.pop(("variant", t["dest"]["l"]), None)
            if t.get("target") is not None:
                succ = [t["target"]]
        elif k in ("goto", "drop", "assert"):
            if t.get("target") is not None:
                succ = [t["target"]]
        elif k == "other":
            succ = list(t.get("succ", []))
        et = tuple(sorted(env.items(), key=str))
        for s_ in succ:
            work.append((s_, et))
    return n


def explore_paths(body, env0=None, place_fn=None, on_call=None, on_return=None, store_key=None, variant_index=None, max_nodes=40000):
    """Path-sensitive propagation of known scalars and enum variants over the CFG of `body` (a generalisation of
    explore_consts).  The environment maps
        local            -> known scalar (int / bool as 0|1)
        ('variant', l)   -> variant of the enum value held by local l (an index where variant_index can tell, else the name)
        ('store', key)   -> variant last stored into a tracked place (see store_key), 'unknown' if it cannot be told
    place_fn(canonical place json) -> ('val', v) | ('variant', v) | None gives what is known about a projected place that
    is read (a captured flag, a field of self); store_key(canonical place json) -> hashable | None selects the projected
    places whose stores are tracked.  on_call(bb, term, env) may return {'val': v} / {'variant': v} to describe the
    call's result.  on_return(bb, env) is called at every return reached.  Switches on known values follow one
    successor, others all; loops are cut by memoising (block, environment)."""
    env0 = dict(env0 or {})
    seen = set()
    work = [(0, tuple(sorted(env0.items(), key=str)))]
    n = 0

    def vidx(rv):
        v = rv.get("variant")
        if variant_index is not None:
            i = variant_index(rv.get("name"), v)
            if i is not None:
                return i
        return v

    def known(env, o):
        """(val, variant) of an operand"""
        if o.get("k") == "const":
            return (o.get("val") if "val" in o else None), o.get("variant")
        p = o.get("place")
        if p is None:
            return None, None
        if not p["p"]:
            return env.get(p["l"]), env.get(("variant", p["l"]))
        cp = body.canon_place(p)
        if not cp["p"]:
            return env.get(cp["l"]), env.get(("variant", cp["l"]))
        if place_fn is not None:
            r = place_fn(cp)
            if r is not None:
                return (r[1], None) if r[0] == "val" else (None, r[1])
        # `*tmp` where tmp is a copy of a known local reference is not tracked
        return None, None

    while work:
        bb, envt = work.pop()
        if (bb, envt) in seen:
            continue
        seen.add((bb, envt))
        n += 1
        if n > max_nodes:
            raise Undecided("too many (block, constants) states")
        env = dict(envt)
        blk = body.blocks[bb]
        for st in blk["stmts"]:
            if st["k"] != "assign":
                continue
            p = st["place"]
            rv = st["rv"]
            val = var = None
            if rv["k"] in ("use", "cast"):
                val, var = known(env, rv["op"])
                if rv["k"] == "cast":
                    var = None
            elif rv["k"] == "discr":
                _, v_ = known(env, {"k": "copy", "place": rv["place"]})
                if isinstance(v_, int):
                    val = v_
            elif rv["k"] == "agg" and rv.get("akind") == "adt":
                var = vidx(rv)
            elif rv["k"] == "un" and str(rv.get("op")) == "Not":
                v0, _ = known(env, rv["a"])
                val = (0 if v0 else 1) if v0 is not None else None
            elif rv["k"] == "bin" and str(rv.get("op")) in ("Eq", "Ne", "BitAnd", "BitOr", "Lt", "Le", "Gt", "Ge"):
                a_, _ = known(env, rv["a"])
                b_, _ = known(env, rv["b"])
                op = str(rv["op"])
                if a_ is not None and b_ is not None:
                    val = {"Eq": a_ == b_, "Ne": a_ != b_, "BitAnd": a_ & b_, "BitOr": a_ | b_, "Lt": a_ < b_, "Le": a_ <= b_, "Gt": a_ > b_, "Ge": a_ >= b_}[op]
                    val = int(val)
                elif op == "BitAnd" and 0 in (a_, b_):
                    val = 0
                elif op == "BitOr" and 1 in (a_, b_):
                    val = 1
            if p["p"]:
                key = store_key(body.canon_place(p)) if store_key is not None else None
                if key is not None:
                    env[("store", key)] = var if var is not None else "unknown"
                elif not any(e == "*" for e in p["p"]):
                    env.pop(p["l"], None)
                    env.pop(("variant", p["l"]), None)
                continue
            env.pop(p["l"], None)
            env.pop(("variant", p["l"]), None)
            if val is not None:
                env[p["l"]] = val
            if var is not None:
                env[("variant", p["l"])] = var
        t = blk["term"]
        if t is None:
            continue
        k = t["k"]
        succ = []
        if k == "switch":
            v, _ = known(env, t["discr"])
            if v is not None and not isinstance(v, str):
                nxt = t["otherwise"]
                for val_, tgt in t["targets"]:
                    if val_ == int(v):
                        nxt = tgt
                succ = [nxt]
            else:
                succ = [x[1] for x in t["targets"]] + [t["otherwise"]]
        elif k == "call":
            r = on_call(bb, t, env) if on_call is not None else None
            if not t["dest"]["p"]:
                env.pop(t["dest"]["l"], None)
                env.pop(("variant", t["dest"]["l"]), None)
                if isinstance(r, dict):
                    if r.get("val") is not None:
                        env[t["dest"]["l"]] = r["val"]
                    if r.get("variant") is not None:
                        env[("variant", t["dest"]["l"])] = r["variant"]
            if t.get("target") is not None:
                succ = [t["target"]]
        elif k == "return":
            if on_return is not None:
                on_return(bb, env)
        elif k in ("goto", "drop", "assert"):
            if t.get("target") is not None:
                succ = [t["target"]]
        elif k == "other":
            succ = list(t.get("succ", []))
        et = tuple(sorted(env.items(), key=str))
        for s_ in succ:
            work.append((s_, et))
    return n
