"""Core library over the JSON MIR facts written by tools/mirfacts.

Everything here is *static*: CFG construction, dominance, reachability, def-use
slices and a small amount of boolean-region evaluation over MIR.  No code of the
analysed crate is executed.
"""
import json
import os
import re
from collections import defaultdict, deque


# --------------------------------------------------------------------------
# places / operands
# --------------------------------------------------------------------------
def place_local(p):
    return p["l"]


def place_is_local(p):
    return not p["p"]


def proj_str(e):
    if e == "*":
        return "*"
    if "f" in e:
        return "." + (e.get("n") or str(e["f"]))
    if "d" in e:
        return " as " + e["d"]
    if "i" in e:
        return "[_%d]" % e["i"]
    if "ci" in e:
        return "[%d]" % e["ci"]
    if "sub" in e:
        return "[%d..%d]" % (e["sub"], e["to"])
    return "?" + str(e)


def place_str(p):
    s = "_%d" % p["l"]
    for e in p["p"]:
        if e == "*":
            s = "(*%s)" % s
        else:
            s += proj_str(e)
    return s


def place_fields(p):
    """Names of the field projections of a place, outermost last."""
    out = []
    for e in p["p"]:
        if isinstance(e, dict) and "f" in e:
            out.append((e.get("o"), e.get("n") or str(e["f"])))
    return out


def op_place(o):
    if o and o.get("k") in ("copy", "move"):
        return o["place"]
    return None


def op_local(o):
    """The local an operand reads, if it is a bare local."""
    p = op_place(o)
    if p is not None and not p["p"]:
        return p["l"]
    return None


def op_const_val(o):
    if o and o.get("k") == "const":
        return o.get("val")
    return None


def op_str(o):
    if o is None:
        return "?"
    k = o.get("k")
    if k in ("copy", "move"):
        return "%s %s" % (k, place_str(o["place"]))
    if k == "const":
        if "fn" in o:
            return "fn " + o["fn"]
        if "str" in o:
            return "const %r" % o["str"]
        if "val" in o:
            d = o.get("def")
            return "const %s%s" % (o["val"], (" /*%s*/" % d) if d else "")
        return "const {%s}" % o.get("dbg", "?")
    return str(o)


def rv_str(rv):
    k = rv["k"]
    if k == "use":
        return op_str(rv["op"])
    if k == "ref":
        return "&%s%s" % ("mut " if rv["mut"] else "", place_str(rv["place"]))
    if k == "rawptr":
        return "&raw %s%s" % ("mut " if rv["mut"] else "const ", place_str(rv["place"]))
    if k == "bin":
        return "%s(%s, %s)" % (rv["op"], op_str(rv["a"]), op_str(rv["b"]))
    if k == "un":
        return "%s(%s)" % (rv["op"], op_str(rv["a"]))
    if k == "cast":
        return "%s as %s (%s)" % (op_str(rv["op"]), rv["ty"], rv["kind"])
    if k == "discr":
        return "discriminant(%s)" % place_str(rv["place"])
    if k == "agg":
        nm = rv.get("name", rv.get("akind"))
        if rv.get("akind") == "adt":
            nm = "%s::%s" % (nm, rv.get("variant"))
            fl = rv.get("fields", [])
            return "%s{%s}" % (nm, ", ".join("%s: %s" % (f, op_str(o)) for f, o in zip(fl, rv["ops"])))
        return "%s(%s)" % (nm, ", ".join(op_str(o) for o in rv["ops"]))
    if k == "repeat":
        return "[%s; %s]" % (op_str(rv["op"]), rv["n"])
    if k == "tlsref":
        return "tls(%s)" % rv["static"]
    return "<%s %s>" % (k, rv.get("dbg", ""))


def rv_operands(rv):
    """All operands read by an rvalue (as operand dicts)."""
    k = rv["k"]
    if k in ("use", "cast", "repeat"):
        return [rv["op"]]
    if k == "bin":
        return [rv["a"], rv["b"]]
    if k == "un":
        return [rv["a"]]
    if k == "agg":
        return list(rv["ops"])
    if k in ("ref", "rawptr", "discr"):
        return [{"k": "copy", "place": rv["place"]}]
    return []


def rv_read_places(rv):
    return [op_place(o) for o in rv_operands(rv) if op_place(o) is not None]


# --------------------------------------------------------------------------
# Body
# --------------------------------------------------------------------------
class Site:
    """A program point: (body, block index, statement index or 'term')."""

    __slots__ = ("body", "bb", "idx")

    def __init__(self, body, bb, idx):
        self.body, self.bb, self.idx = body, bb, idx

    @property
    def node(self):
        b = self.body.blocks[self.bb]
        return b["term"] if self.idx == "term" else b["stmts"][self.idx]

    @property
    def line(self):
        return self.node.get("line")

    def loc(self):
        return "%s:%s" % (self.body.relfile, self.line)

    def __repr__(self):
        return "<%s bb%d[%s] L%s>" % (self.body.short, self.bb, self.idx, self.line)


class Body:
    def __init__(self, name, j, facts):
        self.name = name
        self.j = j
        self.facts = facts
        self.blocks = j["blocks"]
        self.locals = j["locals"]
        self.kind = j["kind"]
        self.file = j["span"]["file"]
        self.line = j["span"]["line"]
        self.arg_count = j["arg_count"]
        self.parent = j.get("parent")
        self._succ = None
        self._pred = None
        self._dom = None
        self._defs = None
        self._reach_cache = {}

    # -- naming ------------------------------------------------------------
    @property
    def short(self):
        n = self.name
        n = re.sub(r"<impl [^>]*>::", "", n)
        n = n.replace("wal::runtime::", "").replace("wal::", "")
        return n

    @property
    def relfile(self):
        f = self.file
        import os
        for pre in (os.environ.get("VERIF_REPO", "/repo").rstrip("/") + "/", "/repo/"):
            if f.startswith(pre):
                return f[len(pre):]
        return f

    def local_name(self, l):
        return self.locals[l].get("name")

    def local_ty(self, l):
        return self.locals[l]["ty"]

    def locals_named(self, name):
        out = []
        for vd in self.j["var_debug"]:
            if vd["name"] == name and "l" in vd["value"] and not vd["value"]["p"]:
                out.append(vd["value"]["l"])
        return out

    def arg_local(self, name):
        """Local index of the argument with the given debug name (1-based locals)."""
        for vd in self.j["var_debug"]:
            if vd["name"] == name and "arg" in vd and "l" in vd["value"] and not vd["value"]["p"]:
                return vd["value"]["l"]
        return None

    def captured(self, name):
        """For closures: var_debug entry of a captured variable -> place json."""
        for vd in self.j["var_debug"]:
            if vd["name"] == name and "l" in vd["value"] and vd["value"]["p"]:
                return vd["value"]
        return None

    # -- CFG ---------------------------------------------------------------
    def term(self, bb):
        return self.blocks[bb]["term"]

    def is_cleanup(self, bb):
        return self.blocks[bb]["cleanup"]

    def term_targets(self, bb, unwind=False):
        t = self.term(bb)
        if t is None:
            return []
        k = t["k"]
        out = []
        if k == "goto":
            out = [t["target"]]
        elif k == "switch":
            out = [x[1] for x in t["targets"]] + [t["otherwise"]]
        elif k in ("call", "drop", "assert"):
            if t.get("target") is not None:
                out = [t["target"]]
            if unwind and t.get("unwind") is not None:
                out.append(t["unwind"])
        elif k == "other":
            out = list(t.get("succ", []))
        return out

    @property
    def succ(self):
        if self._succ is None:
            self._succ = [list(dict.fromkeys(self.term_targets(b))) for b in range(len(self.blocks))]
        return self._succ

    @property
    def pred(self):
        if self._pred is None:
            p = [[] for _ in self.blocks]
            for b, ss in enumerate(self.succ):
                for s in ss:
                    p[s].append(b)
            self._pred = p
        return self._pred

    def reachable_from(self, starts, removed_blocks=(), removed_edges=()):
        """Blocks reachable from `starts` (inclusive) on the normal CFG, with some
        blocks / edges deleted."""
        removed_blocks = set(removed_blocks)
        removed_edges = set(removed_edges)
        seen = set()
        dq = deque(s for s in starts if s not in removed_blocks)
        seen.update(dq)
        while dq:
            b = dq.popleft()
            for s in self.succ[b]:
                if s in seen or s in removed_blocks or (b, s) in removed_edges:
                    continue
                seen.add(s)
                dq.append(s)
        return seen

    def reachable_after(self, bb, removed_blocks=(), removed_edges=()):
        """Blocks reachable from the *successors* of bb (bb itself only if on a cycle)."""
        rb = set(removed_blocks)
        starts = [s for s in self.succ[bb] if (bb, s) not in set(removed_edges) and s not in rb]
        return self.reachable_from(starts, removed_blocks, removed_edges)

    @property
    def live_blocks(self):
        if "live" not in self._reach_cache:
            self._reach_cache["live"] = self.reachable_from([0])
        return self._reach_cache["live"]

    # dominators (iterative, Cooper-Harvey-Kennedy on RPO)
    @property
    def idom(self):
        if self._dom is None:
            order = []
            seen = set()

            def dfs(root):
                stack = [(root, iter(self.succ[root]))]
                seen.add(root)
                while stack:
                    n, it = stack[-1]
                    adv = False
                    for s in it:
                        if s not in seen:
                            seen.add(s)
                            stack.append((s, iter(self.succ[s])))
                            adv = True
                            break
                    if not adv:
                        order.append(n)
                        stack.pop()

            dfs(0)
            rpo = list(reversed(order))
            num = {b: i for i, b in enumerate(rpo)}
            idom = {0: 0}
            changed = True
            while changed:
                changed = False
                for b in rpo[1:]:
                    ps = [p for p in self.pred[b] if p in idom]
                    if not ps:
                        continue
                    new = ps[0]
                    for p in ps[1:]:
                        a, c = p, new
                        while a != c:
                            while num[a] > num[c]:
                                a = idom[a]
                            while num[c] > num[a]:
                                c = idom[c]
                        new = a
                    if idom.get(b) != new:
                        idom[b] = new
                        changed = True
            self._dom = idom
        return self._dom

    def dominates(self, a, b):
        """block a dominates block b (reflexive)."""
        idom = self.idom
        if b not in idom or a not in idom:
            return False
        while True:
            if a == b:
                return True
            if b == 0:
                return False
            b = idom[b]

    def site_dominates(self, s1, s2):
        """site s1 dominates site s2 (strictly before in the same block, or block dominance)."""
        if s1.bb == s2.bb:
            i1 = 10**9 if s1.idx == "term" else s1.idx
            i2 = 10**9 if s2.idx == "term" else s2.idx
            return i1 < i2
        return self.dominates(s1.bb, s2.bb)

    # post-dominators on the normal CFG with a virtual exit (-1)
    @property
    def ipdom(self):
        if "ipdom" in self._reach_cache:
            return self._reach_cache["ipdom"]
        live = set(self.live_blocks)
        # `unreachable` arms of exhaustive matches and diverging (panicking) calls are not
        # normal exits: prune them so that they do not destroy post-dominance
        changed = True
        while changed:
            changed = False
            for b in list(live):
                t = self.term(b)
                if t["k"] == "return":
                    continue
                if not [x for x in self.succ[b] if x in live]:
                    live.discard(b)
                    changed = True
        EXIT = -1
        rsucc = {EXIT: []}   # reversed graph: successors in reverse = predecessors in CFG
        for b in live:
            rsucc.setdefault(b, [])
        exits = [b for b in live if not [s for s in self.succ[b] if s in live]]
        rpred = {b: [] for b in live}
        rpred[EXIT] = []
        for b in live:
            ss = [s for s in self.succ[b] if s in live]
            for s in ss:
                rsucc[s].append(b)      # reverse edge s -> b
                rpred[b].append(s)
            if not ss:
                rsucc[EXIT].append(b)
                rpred[b].append(EXIT)
        order, seen = [], set()
        stack = [(EXIT, iter(rsucc[EXIT]))]
        seen.add(EXIT)
        while stack:
            n, it = stack[-1]
            adv = False
            for x in it:
                if x not in seen:
                    seen.add(x)
                    stack.append((x, iter(rsucc[x])))
                    adv = True
                    break
            if not adv:
                order.append(n)
                stack.pop()
        rpo = list(reversed(order))
        num = {b: i for i, b in enumerate(rpo)}
        idom = {EXIT: EXIT}
        changed = True
        while changed:
            changed = False
            for b in rpo[1:]:
                ps = [p for p in rpred[b] if p in idom]
                if not ps:
                    continue
                new = ps[0]
                for p in ps[1:]:
                    a, c = p, new
                    while a != c:
                        while num[a] > num[c]:
                            a = idom[a]
                        while num[c] > num[a]:
                            c = idom[c]
                    new = a
                if idom.get(b) != new:
                    idom[b] = new
                    changed = True
        self._reach_cache["ipdom"] = idom
        return idom

    def control_region(self, bb):
        """Blocks whose execution is decided by the branch at bb: reachable from bb's
        successors without passing bb's immediate post-dominator. Returns (region, join)."""
        j = self.ipdom.get(bb, -1)
        removed = [j] if j != -1 else []
        region = self.reachable_after(bb, removed_blocks=removed)
        region.discard(bb) if False else None
        return region, j

    def natural_loop(self, header):
        """Natural loop of `header`: for every back edge t -> header (header dominates t), the
        header plus all blocks that reach t without passing through the header."""
        live = self.live_blocks
        tails = [t for t in self.pred[header] if t in live and self.dominates(header, t)]
        if not tails:
            return set()
        loop = {header}
        work = list(tails)
        while work:
            x = work.pop()
            if x in loop:
                continue
            loop.add(x)
            for p in self.pred[x]:
                if p in live and p not in loop:
                    work.append(p)
        return loop

    def field_loads(self, owner_suffix, field):
        """Sites whose rvalue / call arguments / switch operand read `<owner>.field`."""
        out = []

        def has(pl):
            return pl is not None and any(isinstance(e, dict) and e.get("n") == field and str(e.get("o", "")).endswith(owner_suffix) for e in pl.get("p", []))

        def ops_of(node):
            if node is None:
                return
            if isinstance(node, dict):
                if "place" in node and isinstance(node["place"], dict) and node.get("k") in ("copy", "move", "ref", "rawptr", "discr", "len"):
                    yield node["place"]
                for k, v in node.items():
                    if k == "place" and node.get("k") not in ("copy", "move", "ref", "rawptr", "discr", "len"):
                        continue
                    if isinstance(v, (dict, list)):
                        yield from ops_of(v)
            elif isinstance(node, list):
                for x in node:
                    yield from ops_of(x)
        for bb in sorted(self.live_blocks):
            blk = self.blocks[bb]
            for i, st in enumerate(blk["stmts"]):
                if st["k"] == "assign" and any(has(pl) for pl in ops_of(st["rv"])):
                    out.append(Site(self, bb, i))
            t = blk["term"]
            srcs = []
            if t["k"] == "call":
                srcs = t["args"]
            elif t["k"] == "switch":
                srcs = [t["discr"]]
            if any(has(pl) for pl in ops_of(srcs)):
                out.append(Site(self, bb, "term"))
        return out

    def reachable_with_flags(self, start_bb, env=None, max_states=20000):
        """Blocks reachable from start_bb when boolean locals that were assigned a constant on the
        way are taken at their value in `switchInt` on that very local (a small path-sensitive
        refinement: `flag = true; break; ... if flag { break }`)."""
        out = set()
        seen = set()
        work = [(start_bb, frozenset((env or {}).items()))]
        while work:
            bb, fe = work.pop()
            if (bb, fe) in seen or bb not in self.live_blocks:
                continue
            seen.add((bb, fe))
            if len(seen) > max_states:
                return self.reachable_from([start_bb])
            out.add(bb)
            e = dict(fe)
            for st in self.blocks[bb]["stmts"]:
                if st["k"] != "assign" or st["place"]["p"]:
                    continue
                l = st["place"]["l"]
                rv = st["rv"]
                if rv["k"] == "use" and rv["op"].get("k") == "const" and rv["op"].get("ty") == "bool":
                    e[l] = bool(rv["op"].get("val"))
                elif rv["k"] == "use" and op_local(rv["op"]) in e and not (op_place(rv["op"]) or {}).get("p"):
                    e[l] = e[op_local(rv["op"])]
                elif rv["k"] == "un" and rv.get("op") == "Not" and op_local(rv["a"]) in e:
                    e[l] = not e[op_local(rv["a"])]
                else:
                    e.pop(l, None)
            t = self.blocks[bb]["term"]
            if t["k"] == "call" and not t["dest"]["p"]:
                e.pop(t["dest"]["l"], None)
            nxt = list(self.succ[bb])
            if t["k"] == "switch":
                dl = op_local(t["discr"])
                pl = op_place(t["discr"])
                if dl in e and pl is not None and not pl["p"]:
                    v = int(e[dl])
                    tgt = t["otherwise"]
                    for val, tg in t["targets"]:
                        if val == v:
                            tgt = tg
                    nxt = [tgt]
            fe2 = frozenset(e.items())
            for n in nxt:
                work.append((n, fe2))
        return out

    def enclosing_loop(self, bb, max_up=24):
        """(header, loop) of the innermost natural loop that contains bb, or (None, None)."""
        hb = bb
        for _ in range(max_up):
            L = self.natural_loop(hb)
            if L and bb in L:
                return hb, L
            nxt = self.idom.get(hb) if isinstance(self.idom, dict) else self.idom[hb]
            if nxt is None or nxt == hb:
                break
            hb = nxt
        return None, None

    def iteration_can_skip(self, header, loop, bb):
        """True iff the loop can get from its header back to its header (one full iteration)
        without executing block bb."""
        seen, work = set(), [x for x in self.succ[header] if x in loop]
        while work:
            n = work.pop()
            if n in seen or n not in loop or n == bb:
                continue
            seen.add(n)
            if header in self.succ[n]:
                return True
            work.extend(self.succ[n])
        return False

    def loop_exits(self, loop):
        return [(u, v) for u in sorted(loop) for v in self.succ[u] if v not in loop]

    def edge_guards(self, edge, bb):
        """True iff every entry->bb path uses CFG edge `edge`=(from,to)."""
        if bb not in self.live_blocks:
            return False
        return bb not in self.reachable_from([0], removed_edges=[edge])

    def edges_guard(self, edges, bb):
        """True iff every entry->bb path uses one of the CFG edges `edges` (edges that all establish the same fact,
        e.g. the copies of one test that path splitting made)."""
        edges = [e for e in edges if e]
        if bb not in self.live_blocks or not edges:
            return False
        return bb not in self.reachable_from([0], removed_edges=edges)

    def must_pass(self, start_blocks, target_blocks, through_blocks, removed_edges=()):
        """True iff every path from any start block to any target block contains a
        block of `through_blocks` (start block itself excluded, target included)."""
        through = set(through_blocks)
        r = set()
        for s in start_blocks:
            r |= self.reachable_after(s, removed_blocks=through, removed_edges=removed_edges)
        return not (r & set(target_blocks))

    # -- sites ---------------------------------------------------------------
    def calls(self, pattern=None, live_only=True):
        out = []
        for b, blk in enumerate(self.blocks):
            if live_only and (b not in self.live_blocks):
                continue
            t = blk["term"]
            if t and t["k"] in ("call", "tailcall"):
                if pattern is None or callee_is(t, pattern):
                    out.append(Site(self, b, "term"))
        return out

    def stmts(self, live_only=True):
        for b, blk in enumerate(self.blocks):
            if live_only and b not in self.live_blocks:
                continue
            for i, st in enumerate(blk["stmts"]):
                yield Site(self, b, i), st

    def assigns(self, live_only=True):
        for site, st in self.stmts(live_only):
            if st["k"] == "assign":
                yield site, st

    def return_blocks(self):
        return [b for b in self.live_blocks if self.term(b) and self.term(b)["k"] == "return"]

    # -- definitions -----------------------------------------------------------
    @property
    def defs(self):
        """local -> list of (Site, kind, node) that write the *whole* local or a part of it.
        kind: 'assign' (stmt), 'call' (call destination), 'part' (projection store)."""
        if self._defs is None:
            d = defaultdict(list)
            for b, blk in enumerate(self.blocks):
                for i, st in enumerate(blk["stmts"]):
                    if st["k"] == "assign":
                        p = st["place"]
                        kind = "assign" if not p["p"] else "part"
                        d[p["l"]].append((Site(self, b, i), kind, st))
                t = blk["term"]
                if t and t["k"] == "call":
                    p = t["dest"]
                    kind = "call" if not p["p"] else "part"
                    d[p["l"]].append((Site(self, b, "term"), kind, t))
            self._defs = d
        return self._defs

    def unique_defs(self, l):
        """whole-local definitions of l, the copies of one original statement (split bodies) counted once"""
        ds = [x for x in self.defs.get(l, []) if x[1] != "part"]
        if len(ds) > 1 and self.j.get("split_variants"):
            seen, out = set(), []
            for x in ds:
                k = (self.blocks[x[0].bb].get("orig_bb"), x[0].idx)
                if k[0] is None or k not in seen:
                    seen.add(k)
                    out.append(x)
            return out
        return ds

    def single_def(self, l):
        ds = [x for x in self.defs.get(l, []) if x[1] != "part"]
        if len(ds) == 1:
            return ds[0]
        if len(ds) > 1 and self.j.get("split_variants"):
            # a body whose paths were split (core/inline.py) holds copies of one original block: the copies of
            # one definition count once
            keys = {(self.blocks[x[0].bb].get("orig_bb"), x[0].idx) for x in ds}
            if len(keys) == 1 and None not in {k[0] for k in keys}:
                return ds[0]
        return None

    def resolve_copy(self, o, depth=12):
        """Follow a chain of single-definition `use copy/move` temps back to the
        originating operand / place.  Returns an operand json."""
        while depth > 0:
            depth -= 1
            l = op_local(o)
            if l is None:
                return o
            if l <= self.arg_count and l != 0:
                return o
            if self.local_name(l) is not None:
                return o
            sd = self.single_def(l)
            if not sd or sd[1] != "assign":
                return o
            rv = sd[2]["rv"]
            if rv["k"] == "use":
                o = rv["op"]
                continue
            return o
        return o

    def canon_place(self, p, depth=8):
        """Inline unnamed single-definition temps at the base of a place:
        (*_t).f with _t = copy Q  becomes  (*Q).f ."""
        while depth > 0:
            depth -= 1
            l = p["l"]
            if (1 <= l <= self.arg_count) or self.local_name(l) is not None:
                return p
            sd = self.single_def(l)
            if not sd or sd[1] != "assign":
                return p
            rv = sd[2]["rv"]
            if rv["k"] == "use" and op_place(rv["op"]) is not None:
                q = op_place(rv["op"])
                p = {"l": q["l"], "p": list(q["p"]) + list(p["p"])}
                continue
            if rv["k"] == "ref" and p["p"] and p["p"][0] == "*":
                q = rv["place"]
                p = {"l": q["l"], "p": list(q["p"]) + list(p["p"][1:])}
                continue
            return p
        return p

    def def_rvalue(self, l):
        """rvalue json of the single definition of temp `l`, or the call terminator."""
        sd = self.single_def(l)
        if not sd:
            return None
        if sd[1] == "assign":
            return ("rv", sd[2]["rv"], sd[0])
        return ("call", sd[2], sd[0])


def callee_is(t, pattern):
    """pattern: str (exact def-path or suffix after '::'), compiled regex, or list thereof."""
    if isinstance(pattern, (list, tuple, set)):
        return any(callee_is(t, p) for p in pattern)
    names = [t.get("callee"), t.get("callee_raw")]
    for n in names:
        if not n:
            continue
        if hasattr(pattern, "search"):
            if pattern.search(n) or pattern.search(strip_generics(n)):
                return True
        else:
            if n == pattern or n.endswith("::" + pattern) or strip_generics(n) == pattern or strip_generics(n).endswith("::" + pattern):
                return True
    return False


_gen_re = re.compile(r"::<[^<>]*(?:<[^<>]*(?:<[^<>]*>[^<>]*)*>[^<>]*)*>")


def strip_generics(n):
    prev = None
    while prev != n:
        prev = n
        n = _gen_re.sub("", n)
    return n


def callee_name(t):
    return strip_generics(t.get("callee") or t.get("callee_raw") or "?")


# --------------------------------------------------------------------------
# Facts
# --------------------------------------------------------------------------
class Facts:
    def __init__(self, path):
        with open(path) as f:
            self.j = json.load(f)
        self.crate = self.j["crate"]
        self.nonce = self.j.get("nonce")
        # functions unknown to the reviewed tree (extracted helpers) are judged through their callers
        self.inlined = {}
        if os.environ.get("VERIF_NO_INLINE") != "1":
            from . import inline
            known = inline.known_functions(self.crate)
            if known is not None:
                self.inlined = inline.inline_unknown(self.j["bodies"], known, self.j.get("adts"))
        self.bodies = {k: Body(k, v, self) for k, v in self.j["bodies"].items()}
        self.statics = self.j["statics"]
        self.consts = {c["name"]: c for c in self.j["consts"]}
        self.adts = {a["name"]: a for a in self.j["adts"]}
        self.impls = self.j["impls"]
        self._cg = None

    def body(self, suffix, required=True):
        """Find a body by exact name or by '::'-suffix (generics and impl blocks ignored)."""
        hits = []
        for k, b in self.bodies.items():
            norm = re.sub(r"<impl [^>]*>::", "", k)
            if k == suffix or norm == suffix or norm.endswith("::" + suffix):
                hits.append(b)
        if len(hits) == 1:
            return hits[0]
        if not hits:
            if required:
                raise AnchorMissing("body", suffix)
            return None
        raise AnchorMissing("body-ambiguous", suffix)

    def closures_of(self, body, recursive=True):
        out = []
        for k, b in self.bodies.items():
            if b.kind == "Closure" and (b.parent == body.name or b.parent in (body.j.get("absorbed_parents") or ())):
                out.append(b)
                if recursive:
                    out.extend(self.closures_of(b, True))
        return out

    def const_val(self, suffix):
        for k, c in self.consts.items():
            if k == suffix or k.endswith("::" + suffix):
                if "val" in c:
                    return c["val"]
        raise AnchorMissing("const", suffix)

    # crate-local call graph: body name -> set of callee body names (closures are
    # attached to the body that creates them)
    @property
    def callgraph(self):
        if self._cg is None:
            byname = {}
            for k in self.bodies:
                byname[strip_generics(k)] = k
            cg = defaultdict(set)
            for k, b in self.bodies.items():
                for s in b.calls(live_only=False):
                    cn = s.node.get("callee")
                    if cn and strip_generics(cn) in byname:
                        cg[k].add(byname[strip_generics(cn)])
                # closures created here
                for site, st in b.assigns(live_only=False):
                    rv = st["rv"]
                    if rv["k"] == "agg" and rv.get("akind") == "closure":
                        nm = rv.get("name")
                        if nm in self.bodies:
                            cg[k].add(nm)
                # fn items passed as values
                for site, st in b.assigns(live_only=False):
                    for o in rv_operands(st["rv"]):
                        if o.get("k") == "const" and "fn" in o and strip_generics(o["fn"]) in byname:
                            cg[k].add(byname[strip_generics(o["fn"])])
                for s in b.calls(live_only=False):
                    for o in s.node["args"]:
                        if o.get("k") == "const" and "fn" in o and strip_generics(o["fn"]) in byname:
                            cg[k].add(byname[strip_generics(o["fn"])])
            self._cg = cg
        return self._cg

    def reaches(self, start_name, pred):
        """Set of body names reachable from start (inclusive) in the local call graph
        for which pred(body) holds."""
        seen = {start_name}
        dq = deque([start_name])
        while dq:
            n = dq.popleft()
            for m in self.callgraph.get(n, ()):
                if m not in seen:
                    seen.add(m)
                    dq.append(m)
        return {n for n in seen if pred(self.bodies[n])}

    def closure_reach(self, start_name):
        seen = {start_name}
        dq = deque([start_name])
        while dq:
            n = dq.popleft()
            for m in self.callgraph.get(n, ()):
                if m not in seen:
                    seen.add(m)
                    dq.append(m)
        return seen


class AnchorMissing(Exception):
    def __init__(self, kind, what):
        Exception.__init__(self, "%s:%s" % (kind, what))
        self.kind, self.what = kind, what


# --------------------------------------------------------------------------
# pretty printer (debugging / --explain)
# --------------------------------------------------------------------------
def pp_body(body, only=None):
    out = []
    out.append("fn %s  (%s:%s)" % (body.name, body.relfile, body.line))
    for i, l in enumerate(body.locals):
        if l.get("name"):
            out.append("  let _%d: %s  // %s" % (i, l["ty"], l["name"]))
    for vd in body.j["var_debug"]:
        if "l" in vd["value"] and vd["value"]["p"]:
            out.append("  debug %s => %s" % (vd["name"], place_str(vd["value"])))
    for b, blk in enumerate(body.blocks):
        if only is not None and b not in only:
            continue
        out.append("  bb%d%s:" % (b, " (cleanup)" if blk["cleanup"] else ""))
        for st in blk["stmts"]:
            if st["k"] == "assign":
                out.append("    %s = %s;  // L%s" % (place_str(st["place"]), rv_str(st["rv"]), st["line"]))
            elif st["k"] == "setdiscr":
                out.append("    discriminant(%s) = %s" % (place_str(st["place"]), st["vi"]))
        t = blk["term"]
        if t is None:
            continue
        k = t["k"]
        if k == "call":
            out.append("    %s = %s(%s) -> bb%s;  // L%s" % (
                place_str(t["dest"]), t.get("callee") or ("(*%s)" % place_str(t["callee_place"]) if "callee_place" in t else "?"),
                ", ".join(op_str(a) for a in t["args"]), t.get("target"), t["line"]))
        elif k == "switch":
            out.append("    switchInt(%s) -> [%s, otherwise: bb%d];  // L%s" % (
                op_str(t["discr"]), ", ".join("%d: bb%d" % (v, x) for v, x in t["targets"]), t["otherwise"], t["line"]))
        elif k == "drop":
            out.append("    drop(%s) -> bb%d;  // %s L%s" % (place_str(t["place"]), t["target"], t["ty"], t["line"]))
        elif k == "assert":
            out.append("    assert(%s == %s, %s) -> bb%d;  // L%s" % (op_str(t["cond"]), t["expected"], t["msg"], t["target"], t["line"]))
        elif k == "goto":
            out.append("    goto -> bb%d;" % t["target"])
        else:
            out.append("    %s;  // L%s" % (k, t.get("line")))
    return "\n".join(out)
