"""Non-interference (taint) analysis over one MIR body.

taint(seeds) = least fixed point of
  data:    an assignment / call that reads a tainted local (or loads tainted memory) taints
           the local it writes;
  memory:  a store through a pointer that is tainted (by data or control) taints the memory
           of every local the pointer may point into, *from that program point on*: a later
           load through any pointer into the same local is tainted iff the load is reachable
           from the store in the CFG (flow-sensitive in the store->load direction);
           `&mut` arguments of a call that is tainted (operands or control) are treated as
           stores at the call;
  control: every write inside the control region of a branch whose discriminant is tainted
           is tainted (region = blocks between the branch and its immediate post-dominator).
The result lists the tainted branches with their regions so that rules can demand that
regions contain no `return` and do not define the returned value."""
from .mir import op_place, rv_operands, strip_generics

PTR_CALLS = ("::deref", "::deref_mut", "::as_mut", "::as_ref", "::index_mut", "::index", "::borrow_mut", "::borrow",
             "::as_deref", "::as_deref_mut", "::get_mut")


def _is_ptr_call(node):
    cn = strip_generics(node.get("callee") or "")
    return any(cn.endswith(x) for x in PTR_CALLS)


def roots(body, l, depth=8, _cache={}):
    """locals that `l` (a pointer temp) may point into: follow deref()/reborrow chains."""
    key = (id(body), l)
    if key in _cache:
        return _cache[key]
    out = {l}
    cur = [l]
    while cur and depth > 0:
        depth -= 1
        nxt = []
        for x in cur:
            for site, kind, node in body.defs.get(x, []):
                if kind == "assign":
                    rv = node["rv"]
                    if rv["k"] in ("ref", "rawptr"):
                        b = rv["place"]["l"]
                        if b not in out:
                            out.add(b)
                            nxt.append(b)
                    elif rv["k"] in ("use", "cast"):
                        p = op_place(rv["op"])
                        if p is not None and p["l"] not in out:
                            out.add(p["l"])
                            nxt.append(p["l"])
                    elif rv["k"] == "agg":
                        for o in rv["ops"]:
                            p = op_place(o)
                            if p is not None and p["l"] not in out:
                                out.add(p["l"])
                                nxt.append(p["l"])
                elif kind == "call" and _is_ptr_call(node):
                    for a in node["args"][:1]:
                        p = op_place(a)
                        if p is not None and p["l"] not in out:
                            out.add(p["l"])
                            nxt.append(p["l"])
        cur = nxt
    _cache[key] = out
    return out


class Taint:
    def __init__(self, body, seed_locals=(), seed_places=(), track_memory=True, mem_seeds=None):
        self.body = body
        self.track_memory = track_memory
        self.t = set(seed_locals)
        self.seed_places = list(seed_places)   # tainted source places (closure captures)
        self.mem = {k: set(v) for k, v in (mem_seeds or {}).items()}   # root local -> set of (bb, idx) tainted stores
        self.branches = {}                     # bb -> (region, join)
        self._reach = {}
        self.why = {}
        self._run()

    # -- queries ----------------------------------------------------------------
    def _after(self, sb, si, b, i):
        if sb == b:
            si2 = 10**9 if si == "term" else si
            i2 = 10**9 if i == "term" else i
            if si2 < i2:
                return True
        if sb not in self._reach:
            self._reach[sb] = self.body.reachable_after(sb)
        return b in self._reach[sb]

    def mem_tainted(self, l, at):
        if not self.track_memory:
            return False
        for r in roots(self.body, l):
            for (sb, si) in self.mem.get(r, ()):
                if self._after(sb, si, at[0], at[1]):
                    return True
        return False

    def place_tainted(self, p, at):
        if p["l"] in self.t:
            return True
        for sp in self.seed_places:
            if sp["l"] == p["l"] and p["p"][:len(sp["p"])] == sp["p"]:
                return True
        for e in p["p"]:
            if isinstance(e, dict) and "i" in e and e["i"] in self.t:
                return True
        if any(e == "*" for e in p["p"]):
            if self.mem_tainted(p["l"], at):
                return True
        elif self.track_memory and p["l"] in self.mem:
            # by-value read of a local whose own storage was written through a pointer
            for (sb, si) in self.mem[p["l"]]:
                if self._after(sb, si, at[0], at[1]):
                    return True
        return False

    def op_tainted(self, o, at):
        p = op_place(o)
        return p is not None and self.place_tainted(p, at)

    def arg_tainted(self, o, at):
        """call argument: tainted value, or a pointer into tainted memory"""
        p = op_place(o)
        if p is None:
            return False
        if self.place_tainted(p, at):
            return True
        ty = self.body.local_ty(p["l"])
        if "&" in ty or "*" in ty or ty.startswith("(") or "closure" in ty or "Guard" in ty:
            return self.mem_tainted(p["l"], at)
        return False

    # -- updates ----------------------------------------------------------------
    def _taint_write(self, p, at, why=None):
        changed = False
        if why is not None:
            self.why.setdefault(("w", p["l"], at), why)
        if any(e == "*" for e in p["p"]):
            if not self.track_memory:
                return False
            for r in roots(self.body, p["l"]):
                s = self.mem.setdefault(r, set())
                if at not in s:
                    s.add(at)
                    changed = True
        else:
            if p["l"] not in self.t:
                self.t.add(p["l"])
                changed = True
        return changed

    def _mut_targets(self, arg):
        """locals whose memory a call may write through this argument"""
        p = op_place(arg)
        if p is None:
            return set()
        ty = self.body.local_ty(p["l"])
        if "&mut" in ty or "*mut" in ty or "closure" in ty:
            return roots(self.body, p["l"]) - {p["l"]}
        return set()

    def _run(self):
        body = self.body
        changed = True
        rounds = 0
        while changed and rounds < 60:
            rounds += 1
            changed = False
            in_region = set()
            for bb, (region, j) in self.branches.items():
                in_region |= region
            for b in sorted(body.live_blocks):
                blk = body.blocks[b]
                ctl = b in in_region
                for i, st in enumerate(blk["stmts"]):
                    if st["k"] != "assign":
                        continue
                    at = (b, i)
                    data = any(self.op_tainted(o, at) for o in rv_operands(st["rv"]))
                    if data or ctl:
                        if self._taint_write(st["place"], at, "data" if data else "ctl"):
                            changed = True
                t = blk["term"]
                if not t:
                    continue
                at = (b, "term")
                if t["k"] == "call":
                    if _is_ptr_call(t):
                        data = any(self.op_tainted(a, at) for a in t["args"])
                    else:
                        data = any(self.arg_tainted(a, at) for a in t["args"])
                    if data or ctl:
                        if self._taint_write(t["dest"], at, "data" if data else "ctl"):
                            changed = True
                        if self.track_memory and not _is_ptr_call(t):
                            for a in t["args"]:
                                for r in self._mut_targets(a):
                                    s = self.mem.setdefault(r, set())
                                    if at not in s:
                                        s.add(at)
                                        changed = True
                elif t["k"] == "switch":
                    if self.op_tainted(t["discr"], at) and b not in self.branches:
                        self.branches[b] = body.control_region(b)
                        changed = True
        return self.t
