"""Obligation bookkeeping, known-findings matching, evidence and replay files."""
import json
import os
import re
import sys
import time

VERIF = os.path.dirname(os.path.dirname(os.path.dirname(os.path.abspath(__file__))))
KNOWN_FILE = os.path.join(VERIF, "known_findings.json")


def load_known():
    with open(KNOWN_FILE) as f:
        return json.load(f)["findings"]


class Ctx:
    def __init__(self, prop_id, tier="quick", seed=0):
        self.prop = prop_id
        self.tier = tier
        self.seed = seed
        self.t0 = time.time()
        self.obligations = []      # every (rule, site) at which a rule had something to decide
        self.violations = []       # subset with verdict 'violation'
        self.rules = {}            # rule id -> text
        self.assumptions = []
        self.analysed = {"functions": set(), "blocks": 0, "call_sites": 0, "files": set()}
        self.extract_info = []
        self.selftest = []         # fixture / mutant results
        self.notes = []
        self._ord = {}
        self.broken = None         # checker-broken diagnostic (exit 2)

    # -- declarations -------------------------------------------------------
    def rule(self, rid, text):
        self.rules[rid] = text

    def assume(self, text):
        if text not in self.assumptions:
            self.assumptions.append(text)

    def note(self, text):
        self.notes.append(text)

    def saw_body(self, body):
        if body.name not in self.analysed["functions"]:
            self.analysed["functions"].add(body.name)
            self.analysed["blocks"] += len(body.blocks)
            self.analysed["call_sites"] += len(body.calls(live_only=False))
            self.analysed["files"].add(body.relfile)

    def saw_fn(self, name, file=None, n_stmts=0):
        if name not in self.analysed["functions"]:
            self.analysed["functions"].add(name)
            self.analysed["blocks"] += n_stmts
            if file:
                self.analysed["files"].add(file)

    # -- verdicts -----------------------------------------------------------
    def _key(self, rule, function, what):
        base = "%s:%s:%s" % (rule, function, what)
        n = self._ord.get(base, 0)
        self._ord[base] = n + 1
        return "%s#%d" % (base, n)

    def ok(self, rule, function, what, file=None, line=None, detail=None, trivial=False):
        self.obligations.append({
            "rule": rule, "function": function, "what": what, "verdict": "ok",
            "file": file, "line": line, "detail": detail, "trivial": trivial,
        })

    def violate(self, rule, function, what, file, line, message, witness=None):
        key = self._key(rule, function, what)
        rec = {
            "rule": rule, "function": function, "what": what, "verdict": "violation",
            "file": file, "line": line, "detail": message, "key": key, "witness": witness,
            "trivial": False,
        }
        self.obligations.append(rec)
        self.violations.append(rec)
        return key

    def anchor_missing(self, rule, anchor, message=None):
        return self.violate(rule, "anchor-missing", anchor, None, None,
                            message or ("anchor %s not found: the rule has nothing to check and fails closed" % anchor))

    def floor(self, rule, what, count, minimum):
        """A rule that matched fewer instances than were confirmed by hand fails closed."""
        if count < minimum:
            self.violate(rule, "floor", what, None, None,
                         "rule matched %d instance(s) of %s, at least %d were confirmed on the pinned tree: the rule would pass vacuously" % (count, what, minimum))
            return False
        self.ok(rule, "floor", "%s: %d >= %d" % (what, count, minimum), trivial=True)
        return True

    # -- finish -------------------------------------------------------------
    def finish(self, explanation, lemma=None, extra_coverage=None):
        known = [k for k in load_known() if k["property"] == self.prop]
        known_keys = {k["key"]: k for k in known if k["status"] == "known"}
        lines = []
        unknown = []
        matched = []
        for v in self.violations:
            if v["key"] in known_keys:
                matched.append(v["key"])
                lines.append("KNOWN-FINDING: property=%s %s [%s]" % (self.prop, known_keys[v["key"]]["what"], v["key"]))
            else:
                unknown.append(v)
        stale = [k for k in known_keys if k not in matched]
        evdir = os.environ.get("VERIF_EVIDENCE_DIR") or os.path.join(VERIF, "evidence")
        replay_dir = os.path.join(evdir, "replay", self.prop)
        os.makedirs(replay_dir, exist_ok=True)
        # clean old replay files
        for f in os.listdir(replay_dir):
            try:
                os.remove(os.path.join(replay_dir, f))
            except OSError:
                pass
        for v in unknown:
            fn = re.sub(r"[^A-Za-z0-9_.#-]+", "_", v["key"])[:180] + ".json"
            path = os.path.join(replay_dir, fn)
            with open(path, "w") as f:
                json.dump(v, f, indent=1, default=str)
            lines.append("VIOLATION property=%s replay=%s" % (self.prop, path))
            lines.append("  rule %s at %s:%s in %s: %s" % (v["rule"], v["file"], v["line"], v["function"], v["detail"]))
        for k in stale:
            sys.stderr.write("note: known finding no longer reported (stale entry?): %s\n" % k)

        nontrivial = {}
        for o in self.obligations:
            if not o.get("trivial"):
                nontrivial[(o["rule"], o["function"], o["what"], o.get("line"))] = 1
        samples = []
        seen_rules = set()
        for o in self.obligations:  # one sample per rule first, then fill
            if o["rule"] not in seen_rules and not o.get("trivial"):
                seen_rules.add(o["rule"])
                samples.append(o)
        for o in self.obligations:
            if len(samples) >= 40:
                break
            if o not in samples and not o.get("trivial"):
                samples.append(o)
        cov = {
            "explanation": explanation,
            "evaluations": max(1, len(self.obligations)),
            "distinct_nontrivial": len(nontrivial),
            "rule": "one evaluation per (rule, site) pair at which a rule had an obligation to decide on the current tree; "
                    "a pair is non-trivial when the obligation is about program behaviour (floor/anchor bookkeeping is counted as trivial); "
                    "distinct = distinct (rule, function, site, line)",
            "samples": [
                {k: v for k, v in s.items() if k in ("rule", "function", "what", "verdict", "file", "line", "detail", "key") and v is not None}
                for s in samples
            ],
            "rules_applied": self.rules,
            "functions_analysed": len(self.analysed["functions"]),
            "function_names": sorted(self.analysed["functions"])[:80],
            "blocks_analysed": self.analysed["blocks"],
            "call_sites_resolved": self.analysed["call_sites"],
            "files": sorted(self.analysed["files"]),
            "facts": self.extract_info,
            "known_findings_matched": matched,
            "known_findings_stale": stale,
            "unlisted_violations": [v["key"] for v in unknown],
            "self_test": self.selftest,
            "notes": self.notes,
            "exhaustive": True,
        }
        if lemma:
            cov["lemma"] = lemma
        if extra_coverage:
            cov.update(extra_coverage)
        ev = {
            "property_id": self.prop,
            "tier": self.tier,
            "seed": self.seed,
            "level": "other",
            "coverage": cov,
            "assumptions": self.assumptions,
            "wall_s": round(time.time() - self.t0, 3),
            "violations": len(unknown),
        }
        os.makedirs(evdir, exist_ok=True)
        path = os.path.join(evdir, "%s.json" % self.prop)
        tmp = path + ".tmp"
        with open(tmp, "w") as f:
            json.dump(ev, f, indent=1, default=str)
        os.replace(tmp, path)
        for l in lines:
            print(l)
        n_ok = sum(1 for o in self.obligations if o["verdict"] == "ok")
        print("%s %s: %d obligations over %d functions (%d ok, %d known findings, %d unlisted violations) in %.1fs" % (
            self.prop, self.tier, len(self.obligations), len(self.analysed["functions"]), n_ok, len(matched), len(unknown), time.time() - self.t0))
        return 1 if unknown else 0
