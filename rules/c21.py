"""C21 - Raft log store and peer address book survive any number of restarts (partial, syntax-tree
rules + MIR of the vendored engine copy)."""
import re
from .core import ast as A
from .core import common
from .core.mir import callee_name, strip_generics
from .core.effects import Effects
from .core.readflags import checkpoint_edges, stateful_edges, guarded

STORAGE = "octopii/src/openraft/storage.rs"
WALMOD = "octopii/src/wal/mod.rs"
NODE = "octopii/src/openraft/node.rs"

RULES = {
    "C21.1": "the recovery read is not destructive: WriteAheadLog::read_all must not call batch_read_for_topic with checkpoint = true and start_offset = None on an instance opened with "
             "ReadConsistency::StrictlyAtOnce, because in the vendored engine such a read reaches the persisted cursor index (WalIndex::set -> fsync -> rename, shown on the MIR of "
             "octopii/src/wal/wal): the consumption is durable and the next reopen starts after the whole log",
    "C21.2": "persist before acknowledge (ASTPATH over WalLogStore): every non-error path of save_committed, save_vote, truncate and purge contains self.persist_record(..).await with "
             "its result returned or `?`-ed; in append every entry pushed into the in-memory log is also pushed into the vector that the persist loop iterates, the loop body "
             "`?`-propagates persist_record, and the loop precedes callback.io_completed",
    "C21.3": "record kinds: recover_from_wal's `match record` lists every WalLogRecord variant with no wildcard arm, and every variant has at least one persist_record site",
    "C21.5": "the engine under the store recovers only verified records (= C07.3 on the vendored engine copy octopii/src/wal/wal, MIR through harness/oshim): the recovery scan of "
             "startup_chore advances a block's `used` only by sizes returned from a reader that compares the payload checksum. A record whose header reached the disk but whose "
             "payload did not (a kill during an append) would otherwise be counted into the block; the batch read that WriteAheadLog::read_all issues then fails on it as a whole and "
             "read_all reports no records at all",
    "C21.6": "recovery can get past every record (= C03.3 on the vendored engine copy): read_all reads with a 10 MiB byte budget, so the engine's batch read must widen its first "
             "planned range to the size of the entry at the cursor; otherwise a record larger than the budget is never returned, read_all sees two empty batches and stops in front "
             "of it, and that record and every acknowledged record behind it are missing after a restart",
    "C21.7": "the recovery read resumes where it stopped (= C01.8 on the vendored engine copy): read_all recovers in consecutive batch reads, each starting at the cursor the "
             "previous one committed; the two halves of that cursor - (chain index, offset) and (tail block id, tail offset) - are assigned together wherever the batch read "
             "assigns one of them. A log that spans several blocks is otherwise recovered with a whole block of acknowledged records missing",
    "C21.8": "the vendored engine's reader accepts what its writer acknowledged (= C07.6 on octopii/src/wal/wal): every comparison in Block::read, with which the restart scan "
             "measures how much of a block is in use, is the header-length sanity test, `entry end > file length` or the checksum comparison",
    "C21.9": "the recovery read does not fail on a budget cut (= C03.5 on the vendored engine): read_all's 10 MiB reads cut the last planned range inside an entry whenever the log "
             "spans two blocks; the batch read returns Err only on a failed completion or a checksum mismatch, never for an entry that is incomplete in its range - read_all "
             "swallows the error and the reopened store comes back empty",
    "C21.4": "peer addresses: in persist_peer_addr_if_needed the map insert and the `needs persist` flag are set together, and the flag's then-branch `?`-propagates "
             "append_peer_addr_record; load_peer_addr_records and recover_from_wal both read through WriteAheadLog::read_all (so C21.1 covers both)",
}


def check_read_all(ctx, files):
    f = files[WALMOD]
    ra = f.fn("read_all")
    ctx.saw_fn("wal::WriteAheadLog::read_all", WALMOD, len(list(A.walk(ra["body"]))))
    calls = [n for n in A.walk(ra["body"]) if A.is_mcall(n, "batch_read_for_topic") or A.is_mcall(n, "read_next")]
    if not calls:
        ctx.anchor_missing("C21.1", "engine read call in WriteAheadLog::read_all")
        return
    # mode the instance is opened with
    new = f.fn("new", ctx="WriteAheadLog")
    strict = any("ReadConsistency::StrictlyAtOnce" in A.text(n) for n in A.walk(new["body"]) if n.get("k") in ("path", "call"))
    for c in calls:
        if c["method"] == "batch_read_for_topic" and len(c["args"]) == 4:
            ck, so = A.text(c["args"][2]), A.text(c["args"][3])
            if ck == "false" or so.startswith("Some("):
                ctx.ok("C21.1", "wal::WriteAheadLog::read_all", "recovery read is non-consuming (checkpoint=%s, start_offset=%s)" % (ck, so), WALMOD, c["line"])
            elif not strict:
                ctx.ok("C21.1", "wal::WriteAheadLog::read_all", "consuming read on an instance that does not persist every position", WALMOD, c["line"])
            else:
                ctx.violate("C21.1", "wal::WriteAheadLog::read_all", "recovery-read-consumes-the-log", WALMOD, c["line"],
                            "read_all reads with batch_read_for_topic(.., checkpoint=%s, start_offset=%s) on a StrictlyAtOnce instance: every record it returns is durably consumed, so the "
                            "second reopen of the same store recovers nothing (log entries, vote, committed id and peer addresses are lost)" % (ck, so))
        elif c["method"] == "read_next":
            ck = A.text(c["args"][1]) if len(c["args"]) > 1 else "?"
            if ck == "false":
                ctx.ok("C21.1", "wal::WriteAheadLog::read_all", "recovery read is a peek", WALMOD, c["line"])
            else:
                ctx.violate("C21.1", "wal::WriteAheadLog::read_all", "recovery-read-consumes-the-log", WALMOD, c["line"], "read_all consumes with read_next(checkpoint=%s)" % ck)
    if strict:
        ctx.ok("C21.1", "wal::WriteAheadLog::new", "the store's engine instance is opened with ReadConsistency::StrictlyAtOnce", WALMOD, new["line"])


def check_engine_durable_consumption(ctx):
    """MIR of the vendored engine: a consuming stateful batch read reaches the durable index."""
    try:
        facts = common.mir(ctx, "oshim")
    except Exception as e:
        ctx.violate("C21.1", "harness/oshim", "vendored-engine-not-analysable", "octopii/src/wal/wal", None, "the vendored engine copy could not be type-checked: %s" % str(e)[:200])
        return
    eff = Effects(facts)
    b = facts.body("batch_read_for_topic")
    ctx.saw_body(b)
    cp = checkpoint_edges(b)
    reach_set = False
    for site, kinds, callee in eff.sites(b):
        if callee and callee.endswith("WalIndex::set") and guarded(b, site.bb, cp):
            if any(k.startswith("fs:rename") for k in kinds):
                reach_set = True
    if reach_set:
        ctx.ok("C21.1", "octopii::wal::wal::batch_read_for_topic", "checkpoint=true reaches WalIndex::set -> fs::rename (consumption is durable) in the vendored engine", b.relfile, b.line)
    else:
        ctx.note("in the vendored engine a consuming batch read does not reach a durable index write; C21.1's oracle would not apply")


def _persist_events(p):
    return [n for n in A.events_of(p, "mcall") if A.is_mcall(n, "persist_record")]


def check_persist_before_ack(ctx, files):
    f = files[STORAGE]
    CTX = "RaftLogStorage<AppTypeConfig> for WalLogStore"
    for name in ("save_committed", "save_vote", "truncate", "purge"):
        try:
            fn = f.fn(name, ctx=CTX)
        except A.AnchorMissingAst as e:
            ctx.anchor_missing("C21.2", str(e))
            continue
        F = "WalLogStore::" + name
        ctx.saw_fn(F, STORAGE, len(list(A.walk(fn["body"]))))
        paths = A.block_paths(fn["body"])
        bad = [p for p in paths if p.exit in ("fall", "return") and not _persist_events(p)]
        if bad:
            ctx.violate("C21.2", F, "ack-without-persist", STORAGE, fn["line"], "%s can return Ok without having appended its record to the WAL" % name)
        else:
            ctx.ok("C21.2", F, "every non-error path awaits persist_record", STORAGE, fn["line"], "%d paths" % len(paths))
        # the result of persist_record is the tail expression, returned, or `?`-ed
        for pr in [n for n in A.walk(fn["body"]) if A.is_mcall(n, "persist_record")]:
            used = False
            stmts = fn["body"]["stmts"]
            last = stmts[-1] if stmts else None
            if last is not None and last.get("k") == "expr" and not last.get("semi") and pr in list(A.walk(last["e"])):
                used = True
            for t in A.walk(fn["body"]):
                if t.get("k") in ("try", "return") and t.get("e") is not None and pr in list(A.walk(t["e"])):
                    used = True
            if used:
                ctx.ok("C21.2", F, "the result of persist_record is returned/propagated", STORAGE, pr["line"])
            else:
                ctx.violate("C21.2", F, "persist-result-dropped", STORAGE, pr["line"], "the result of persist_record is discarded: a failed WAL append is acknowledged")
        # the record persisted carries the function's argument
        for pr in [n for n in A.walk(fn["body"]) if A.is_mcall(n, "persist_record")]:
            arg = A.text(pr["args"][0]) if pr["args"] else ""
            pnames = [p_["name"].replace("mut ", "") for p_ in fn["params"] if p_["name"] != "self"]
            if any(re.search(r"\b%s\b" % re.escape(pn), arg) for pn in pnames):
                ctx.ok("C21.2", F, "the persisted record carries the call's argument", STORAGE, pr["line"], arg[:80])
            else:
                ctx.violate("C21.2", F, "persisted-record-unrelated", STORAGE, pr["line"], "the record persisted (%s) does not carry the argument of %s" % (arg[:60], name))
    # append
    try:
        ap = f.fn("append", ctx=CTX)
    except A.AnchorMissingAst as e:
        ctx.anchor_missing("C21.2", str(e))
        return
    F = "WalLogStore::append"
    ctx.saw_fn(F, STORAGE, len(list(A.walk(ap["body"]))))
    fors = [n for n in A.walk(ap["body"]) if n.get("k") == "for"]
    ins_loop = persist_loop = None
    for lp in fors:
        if any(A.is_mcall(n, "insert") for n in A.walk(lp["body"])):
            ins_loop = lp
        if any(A.is_mcall(n, "persist_record") for n in A.walk(lp["body"])):
            persist_loop = lp
    ioc = [n for n in A.walk(ap["body"]) if A.is_mcall(n, "io_completed")]
    if ins_loop is None or persist_loop is None or len(ioc) != 1:
        ctx.anchor_missing("C21.2", "insert loop / persist loop / io_completed in WalLogStore::append")
        return
    vec = A.text(persist_loop["iter"])
    pushes = [n for n in A.walk(ins_loop["body"]) if A.is_mcall(n, "push", vec)]
    # push and insert are unconditional statements of the same loop body
    top = ins_loop["body"]["stmts"]
    uncond_push = any(st.get("k") == "expr" and A.is_mcall(st["e"], "push", vec) for st in top)
    uncond_ins = any(st.get("k") == "expr" and A.is_mcall(A.unwrap(st["e"]), "insert") for st in top)
    if pushes and uncond_push and uncond_ins:
        ctx.ok("C21.2", F, "every entry inserted into the in-memory log is also queued for persistence (`%s`)" % vec, STORAGE, pushes[0]["line"])
    else:
        ctx.violate("C21.2", F, "entry-not-queued-for-persist", STORAGE, ins_loop["line"], "an entry can be inserted into the in-memory log without being queued in `%s`" % vec)
    prs = [n for n in A.walk(persist_loop["body"]) if A.is_mcall(n, "persist_record")]
    tries = [t for t in A.walk(persist_loop["body"]) if t.get("k") == "try" and any(x is prs[0] for x in A.walk(t["e"]))]
    top_p = persist_loop["body"]["stmts"]
    uncond = any(st.get("k") == "expr" and any(x is prs[0] for x in A.walk(st["e"])) for st in top_p)
    if prs and tries and uncond:
        ctx.ok("C21.2", F, "the persist loop `?`-propagates persist_record for every queued entry", STORAGE, prs[0]["line"])
    else:
        ctx.violate("C21.2", F, "persist-error-dropped-in-append", STORAGE, persist_loop["line"], "the persist loop does not propagate the result of persist_record for every entry")
    if persist_loop["line"] < ioc[0]["line"]:
        # on the path structure: io_completed is a top-level statement after the loop
        body_top = ap["body"]["stmts"]
        idx_loop = [i for i, st in enumerate(body_top) if st.get("k") == "expr" and st["e"] is persist_loop]
        idx_ioc = [i for i, st in enumerate(body_top) if st.get("k") == "expr" and any(x is ioc[0] for x in A.walk(st["e"]))]
        if idx_loop and idx_ioc and idx_loop[0] < idx_ioc[0]:
            ctx.ok("C21.2", F, "the flush callback is completed only after the persist loop", STORAGE, ioc[0]["line"])
        else:
            ctx.violate("C21.2", F, "callback-before-persist", STORAGE, ioc[0]["line"], "callback.io_completed is not sequenced after the persist loop")
    else:
        ctx.violate("C21.2", F, "callback-before-persist", STORAGE, ioc[0]["line"], "callback.io_completed(Ok) is signalled before the entries are persisted")


def check_record_kinds(ctx, files):
    f = files[STORAGE]
    try:
        en = f.item("enum", "WalLogRecord")
        rec = f.fn("recover_from_wal")
    except A.AnchorMissingAst as e:
        ctx.anchor_missing("C21.3", str(e))
        return
    ctx.saw_fn("WalLogStore::recover_from_wal", STORAGE, len(list(A.walk(rec["body"]))))
    variants = [v["name"] for v in en["variants"]]
    ms = [n for n in A.walk(rec["body"]) if n.get("k") == "match" and A.text(n["e"]) == "record"]
    if len(ms) != 1:
        ctx.anchor_missing("C21.3", "`match record` in recover_from_wal")
        return
    pats = [a["pat"].replace(" ", "") for a in ms[0]["arms"]]
    wild = [p for p in pats if p == "_" or re.match(r"^[a-z_]\w*$", p)]
    handled = {v for v in variants if any(p.startswith("WalLogRecord::%s" % v) for p in pats)}
    if wild:
        ctx.violate("C21.3", "WalLogStore::recover_from_wal", "wildcard-arm", STORAGE, ms[0]["line"], "the recovery match has a catch-all arm (%s): a record kind can be silently ignored on replay" % wild)
    for v in variants:
        if v in handled:
            ctx.ok("C21.3", "WalLogStore::recover_from_wal", "replays WalLogRecord::" + v, STORAGE, ms[0]["line"])
        else:
            ctx.violate("C21.3", "WalLogStore::recover_from_wal", "record-kind-not-replayed:" + v, STORAGE, ms[0]["line"], "WalLogRecord::%s is persisted but never replayed" % v)
    whole = "".join(A.text(n) for it in f.items if it["k"] == "fn" for n in A.walk(it["body"]) if A.is_mcall(n, "persist_record"))
    for v in variants:
        if "WalLogRecord::%s(" % v in whole:
            ctx.ok("C21.3", "WalLogStore", "WalLogRecord::%s has a persist_record site" % v, STORAGE, en["line"])
        else:
            ctx.violate("C21.3", "WalLogStore", "record-kind-never-persisted:" + v, STORAGE, en["line"], "no persist_record site writes WalLogRecord::%s" % v)
    # replay mutates the same in-memory fields the operations mutate
    for v, fld in (("Vote", "vote"), ("Committed", "committed"), ("Purged", "last_purged_log_id")):
        arm = [a for a in ms[0]["arms"] if a["pat"].replace(" ", "").startswith("WalLogRecord::" + v)]
        if arm and any(n.get("k") == "assign" and A.text(n["lhs"]) == "inner." + fld for n in A.walk(arm[0]["body"])):
            ctx.ok("C21.3", "WalLogStore::recover_from_wal", "%s replay sets inner.%s" % (v, fld), STORAGE, arm[0]["line"])
        elif arm:
            ctx.violate("C21.3", "WalLogStore::recover_from_wal", "replay-does-not-restore:" + fld, STORAGE, arm[0]["line"], "replaying %s does not set inner.%s" % (v, fld))


def check_peer_addrs(ctx, files):
    f = files[NODE]
    try:
        fn = f.fn("persist_peer_addr_if_needed")
        ld = f.fn("load_peer_addr_records")
        apr = f.fn("append_peer_addr_record")
    except A.AnchorMissingAst as e:
        ctx.anchor_missing("C21.4", str(e))
        return
    F = "OpenRaftNode::persist_peer_addr_if_needed"
    ctx.saw_fn(F, NODE, len(list(A.walk(fn["body"]))))
    ctx.saw_fn("node::load_peer_addr_records", NODE, len(list(A.walk(ld["body"]))))
    ins = [n for n in A.walk(fn["body"]) if A.is_mcall(n, "insert")]
    ifs = [n for n in A.walk(fn["body"]) if n.get("k") == "if"]
    flag = None
    ok_pair = False
    for i in ifs:
        then_stmts = i["then"]["stmts"]
        has_ins = any(st.get("k") == "expr" and A.is_mcall(A.unwrap(st["e"]), "insert") for st in then_stmts)
        sets = [st for st in then_stmts if st.get("k") == "expr" and st["e"].get("k") == "assign" and A.text(st["e"]["rhs"]) == "true"]
        if has_ins and sets:
            flag = A.text(sets[0]["e"]["lhs"])
            ok_pair = True
    if not ins:
        ctx.anchor_missing("C21.4", "map insert in persist_peer_addr_if_needed")
        return
    if ok_pair:
        ctx.ok("C21.4", F, "the address map is changed only together with `%s = true`" % flag, NODE, ins[0]["line"])
    else:
        ctx.violate("C21.4", F, "map-change-not-flagged", NODE, ins[0]["line"], "the peer address map can change without the persist flag being set")
        return
    gate = None
    for i in ifs:
        if A.text(i["cond"]) == flag:
            calls = [n for n in A.walk(i["then"]) if A.is_call(n, "append_peer_addr_record")]
            tries = [t for t in A.walk(i["then"]) if t.get("k") == "try" and calls and any(x is calls[0] for x in A.walk(t["e"]))]
            if calls and tries:
                gate = i
    resets = [n for n in A.walk(fn["body"]) if n.get("k") == "assign" and A.text(n["lhs"]) == flag and A.text(n["rhs"]) == "false"]
    if gate is not None and not resets:
        ctx.ok("C21.4", F, "`if %s` appends the record and propagates its error" % flag, NODE, gate["line"])
    else:
        ctx.violate("C21.4", F, "changed-address-not-persisted", NODE, fn["line"], "a changed peer address does not reach append_peer_addr_record(..).await? before Ok is returned")
    # both recovery paths go through read_all
    if any(A.is_mcall(n, "read_all") for n in A.walk(ld["body"])):
        ctx.ok("C21.4", "node::load_peer_addr_records", "peer addresses are recovered through WriteAheadLog::read_all", NODE, ld["line"])
    else:
        ctx.violate("C21.4", "node::load_peer_addr_records", "peer-recovery-source", NODE, ld["line"], "load_peer_addr_records does not read the peer address WAL")
    if any(A.is_mcall(n, "append") for n in A.walk(apr["body"])) and any(t.get("k") == "try" for t in A.walk(apr["body"])):
        ctx.ok("C21.4", "node::append_peer_addr_record", "appends the encoded record and propagates the WAL error", NODE, apr["line"])
    else:
        ctx.violate("C21.4", "node::append_peer_addr_record", "append-error-dropped", NODE, apr["line"], "append_peer_addr_record does not propagate the WAL append")
    rec = files[STORAGE].fn("recover_from_wal")
    if any(A.is_mcall(n, "read_all") for n in A.walk(rec["body"])):
        ctx.ok("C21.4", "WalLogStore::recover_from_wal", "the log store is recovered through WriteAheadLog::read_all", STORAGE, rec["line"])


def check_engine_recovery_verifies(ctx):
    try:
        facts = common.mir(ctx, "oshim")
    except Exception as e:
        ctx.violate("C21.5", "harness/oshim", "vendored-engine-not-analysable", "octopii/src/wal/wal", None, "the vendored engine copy could not be type-checked: %s" % str(e)[:200])
        return
    from .c07 import check_recovery_verifies
    check_recovery_verifies(ctx, facts, rid="C21.5")
    from .c03 import check_first_entry_widening
    check_first_entry_widening(ctx, facts, rid="C21.6")
    from .c01 import check_cursor_pairs
    check_cursor_pairs(ctx, facts, rid="C21.7")
    from .c07 import check_reader_rejections
    check_reader_rejections(ctx, facts, rid="C21.8")
    from .c03 import check_batch_error_reasons
    check_batch_error_reasons(ctx, facts, rid="C21.9")


def run(ctx):
    for k, v in RULES.items():
        ctx.rule(k, v)
    files = A.load(ctx, [STORAGE, WALMOD, NODE])
    try:
        check_read_all(ctx, files)
        check_engine_durable_consumption(ctx)
        check_engine_recovery_verifies(ctx)
        check_persist_before_ack(ctx, files)
        check_record_kinds(ctx, files)
        check_peer_addrs(ctx, files)
    except A.AnchorMissingAst as e:
        ctx.anchor_missing("C21.anchor", str(e))
    ctx.assume("octopii cannot be type-checked offline: WalLogStore / WriteAheadLog / node.rs are analysed on their syntax trees; the vendored engine copy (octopii/src/wal/wal) is analysed on MIR through harness/oshim")
    ctx.assume("NOT decided: the contents of the store after replay (value-level), interleavings of concurrent log operations")
    return {
        "explanation": "syntax-tree path rules for persist-before-acknowledge and record-kind exhaustiveness in the WAL-backed Raft log store, a literal-argument rule for the recovery read "
                       "backed by an effect analysis of the vendored engine on MIR, and a flag-correlation rule for the peer address book.",
    }
