"""C05 - concurrent producers/consumers get exactly-once, ordered delivery (partial: atomicity shapes)."""
import re
from .core import common
from .core.mir import op_local, op_place, strip_generics, callee_name
from .core.cond import all_tests, call_site_of, borrowed_local, const_of
from .core.slicing import origins, guard_of_pointer
from .core.readflags import checkpoint_edges, stateful_edges, guarded, flag_places, option_edges, place_key
from .core.absint import Interp, Undecided, Sym, Ref
from .core.effects import Effects
from .c02 import exception_class

RULES = {
    "C05.7": "two topics never write the same unit (= C06.1's record clause): the allocator hands every new topic a copy of its own block record; every store to that record's "
             "limit is DEFAULT_BLOCK_SIZE. A record left with the limit of a multi-unit allocation gives the next new topic an oversized block on a one-unit reservation: its "
             "writer overwrites the neighbouring topic's entries, which are then never delivered",
    "C05.6": "a block is never both sealed and active (= C04.1): once the writer has appended its current block to the reader chain, no path returns before the successor block is "
             "installed. A block that is in the sealed chain and still the active tail is read twice - once as a chain block, once through the tail snapshot - so its unconsumed "
             "entries are delivered twice",
    "C05.1": "cursor read-modify-write under one guard (RMW): for every checkpoint-guarded store to a cursor field of ColReaderInfo through a write-guard local g, no load of "
             "ColReaderInfo state in the backward slice of the stored value goes through another write-guard local of the same lock (another acquisition): otherwise two consuming "
             "readers can both read the old position, both deliver the entry and both commit",
    "C05.2": "the consuming batch read keeps its guard (BOOL + GB): the only early release of the column guard taken before planning is guarded by hold == false; the truth table of "
             "`hold` over (consistency, checkpoint, start_offset) satisfies checkpoint AND start_offset.is_none() => hold; in the hold branch the commit closure receives a reborrow of "
             "that very guard; the re-acquiring commit is guarded by hold == false",
    "C05.3": "writer-side mutual exclusion is by type: the active block and the write offset of a Writer are reachable only through Mutex guards (fields of type Mutex<_>), and the "
             "batch planning of one topic holds both guards from planning to publish (shared with C04.3a)",
    "C05.4": "a consuming read_next moves the cursor only past an entry it delivers (= C01.1's read_next clause): every checkpoint-guarded commit of the cursor offset is derived from "
             "the size consumed by the read that precedes it and is followed by the return of that entry. A commit that skips what could not be read loses entries that a concurrent "
             "batch append has planned and published but not yet written",
    "C05.5": "appenders of one topic are serialised from planning to publish: in Writer::write and Writer::batch_write the guards of current_block and current_offset that were taken "
             "before planning are still held when the entries are written and when the offset is published - no storage write (Block::write, the io_uring helper) and no store "
             "to the offset is reachable from a point where such a guard has been released (mem::drop or scope end). `is_batch_writing` alone does not exclude an appender that "
             "tested the flag before the batch set it and is waiting on the mutex",
}


def _info_loads_in_slice(b, value_op):
    src, locals_, sites = origins(b, value_op, follow_all_calls=True)
    loads = []
    for site in sites:
        node = site.node
        if site.idx == "term":
            continue
        if node.get("k") != "assign":
            continue
        rv = node["rv"]
        ops = []
        if rv["k"] in ("use", "cast", "ref", "discr"):
            p = op_place(rv.get("op")) if rv.get("op") else rv.get("place")
            if p:
                ops.append(p)
        elif rv["k"] == "bin":
            for o in (rv["a"], rv["b"]):
                p = op_place(o)
                if p:
                    ops.append(p)
        elif rv["k"] == "agg":
            for o in rv["ops"]:
                p = op_place(o)
                if p:
                    ops.append(p)
        for p in ops:
            if not any(e == "*" for e in p["p"]):
                continue
            for e in p["p"]:
                if isinstance(e, dict) and e.get("o", "").endswith("reader::ColReaderInfo") and e.get("n") != "hydrated_from_index":
                    g = guard_of_pointer(b, p["l"])
                    loads.append((site, e.get("n"), g))
    return loads


def check_rmw(ctx, facts):
    b = facts.body("read_next")
    ctx.saw_body(b)
    F = common.short_fn(b.name)
    eff = Effects(facts)
    cp = checkpoint_edges(b)
    n = 0
    for site, kinds, callee in eff.sites(b):
        if callee is not None:
            continue
        k = next(iter(kinds))
        if not k.startswith("store:ColReaderInfo."):
            continue
        field = k.split(".")[-1]
        if field not in ("cur_block_idx", "cur_block_offset", "tail_block_id", "tail_offset"):
            continue
        if exception_class(b, site, kinds) or not guarded(b, site.bb, cp):
            continue
        st = site.node
        g = guard_of_pointer(b, st["place"]["l"])
        if g is None or "RwLockWriteGuard" not in b.local_ty(g):
            ctx.violate("C05.1", F, "commit-not-through-guard:" + field, b.relfile, site.line, "cursor field is stored without going through a write guard local")
            continue
        n += 1
        loads = _info_loads_in_slice(b, st["rv"]["op"]) if st["rv"]["k"] in ("use", "cast") else []
        other = [(s, f, gg) for s, f, gg in loads if gg is not None and gg != g and "RwLockWriteGuard" in b.local_ty(gg)]
        if other:
            s0, f0, g0 = other[0]
            ctx.violate("C05.1", F, "cursor-rmw-across-guards:" + field, b.relfile, site.line,
                        "%s is committed under the guard acquired at line %s, but its value is computed from ColReaderInfo.%s read at line %s under another acquisition of the same lock "
                        "(guard `%s` taken at line %s): the lock is released between reading the position and committing it, so concurrent consuming readers can deliver the same entry"
                        % (field, b.locals[g].get("line"), f0, s0.line, b.local_name(g0), b.locals[g0].get("line")))
        else:
            ctx.ok("C05.1", F, "%s committed from values read under the same guard" % field, b.relfile, site.line, "%d state loads in the slice" % len(loads))
    ctx.floor("C05.1", "checkpoint-guarded cursor commits in read_next", n, 2)


def check_hold(ctx, facts):
    b = facts.body("batch_read_for_topic")
    ctx.saw_body(b)
    F = common.short_fn(b.name)
    st_edges, witnesses = stateful_edges(b)
    if not witnesses:
        ctx.anchor_missing("C05.2", "column guard taken before planning (Option<RwLockWriteGuard<ColReaderInfo>>) in " + F)
        return
    G = witnesses[0]
    # early releases of G: mem::drop(take(&mut G).unwrap()) or `G = None`
    releases = []
    for s in b.calls(re.compile(r"Option::take$")):
        if borrowed_local(b, s.node["args"][0]) == G:
            releases.append(s)
    # hold flag = the bool local tested on the path to the release
    hold = None
    for r in releases:
        for T in all_tests(b):
            if T.kind == "local" and op_local(T.operand) is not None and b.local_ty(op_local(T.operand)) == "bool" and b.local_name(op_local(T.operand)):
                if b.edge_guards(T.false_edge, r.bb):
                    hold = op_local(T.operand)
    clo_calls = [s for s in b.calls() if (s.node.get("callee") or "").startswith(b.name + "::{closure") and
                 any("ColReaderInfo" in (facts.bodies[s.node["callee"]].locals[2]["ty"] if s.node["callee"] in facts.bodies and len(facts.bodies[s.node["callee"]].locals) > 2 else "") for _ in [0])]
    if hold is None:
        if releases:
            ctx.violate("C05.2", F, "guard-released-unconditionally", b.relfile, releases[0].line, "the column guard is released before the commit without a hold flag")
            return
        # no early release at all: the guard is always held (stronger than required)
        ctx.ok("C05.2", F, "the column guard is never released before the commit", b.relfile, b.line)
    else:
        for r in releases:
            ctx.ok("C05.2", F, "early release of the column guard is guarded by hold == false", b.relfile, r.line, "hold = `%s`" % b.local_name(hold))
        # truth table of hold: evaluate its defining boolean region for all 8 valuations of
        # (consistency, checkpoint, start_offset).  The region entry is found by walking up the
        # dominator chain from the definitions until the evaluation no longer reads a local
        # defined above the entry.
        defs = [s for s, k, n_ in b.defs.get(hold, []) if k in ("assign", "call")]
        if not defs:
            ctx.violate("C05.2", F, "hold-undecided", b.relfile, b.line, "cannot find the definition of the hold flag")
            return
        cand = defs[0].bb
        while not all(b.dominates(cand, d.bb) for d in defs) or cand in [d.bb for d in defs]:
            cand = b.idom[cand]
        use_blocks = set()
        for T in all_tests(b):
            if T.kind == "local" and op_local(T.operand) == hold:
                use_blocks.add(T.bb)
        cpl = b.arg_local("checkpoint")
        sol = b.arg_local("start_offset")

        def model(interp, env, t, argv):
            cn = strip_generics(t.get("callee") or "")
            if re.search(r"Option::is_(none|some)$", cn):
                v = interp.deref_arg(env, argv[0])
                d = v["__discr"] if isinstance(v, dict) else None
                if d is None:
                    raise Undecided("is_none on unknown")
                return (d == 0) if cn.endswith("is_none") else (d == 1)
            raise Undecided("call " + cn)

        # payload of the non-strict variant (AtLeastOnce { persist_every }): small and large values
        adt = facts.adts.get("wal::runtime::walrus::ReadConsistency") or {}
        payload = []
        for v in adt.get("variants", []):
            if v["name"] != "StrictlyAtOnce":
                payload = [f["name"] if isinstance(f, dict) else f for f in v.get("fields", [])]
        PAY = (0, 1, 2, 64) if payload else (None,)

        def table(entry):
            rows = {}
            for strict in (True, False):
                for cp_v in (True, False):
                    for none_v in (True, False):
                        for pv in (PAY if not strict else (None,)):
                            rc = {"__discr": 0 if strict else 1}
                            if pv is not None:
                                for fn_ in payload:
                                    rc[fn_] = pv
                            env = {1: Ref(-1), -1: {"read_consistency": rc}, cpl: cp_v, sol: {"__discr": 0 if none_v else 1}}
                            it = Interp(b, call_model=model)
                            r = it.run({}, start_bb=entry, stop_blocks=use_blocks, env=env)
                            hv = r[2].get(hold) if r[0] == "stop" else None
                            if not isinstance(hv, bool):
                                raise Undecided("hold not assigned on a path")
                            rows[(strict, cp_v, none_v) + ((pv,) if pv is not None else ())] = hv
            return rows

        rows = None
        und = None
        entry = cand
        for _ in range(10):
            try:
                rows = table(entry)
                break
            except Undecided as e:
                und = str(e)
                if entry == 0:
                    break
                entry = b.idom[entry]
        if rows is None:
            ctx.violate("C05.2", F, "hold-undecided", b.relfile, defs[0].line, "the boolean region that defines the hold flag cannot be evaluated (%s): fail closed" % und)
        else:
            bad = [k for k, v in rows.items() if k[1] and k[2] and not v]
            if bad:
                ctx.violate("C05.2", F, "guard-released-during-consuming-stateful-read", b.relfile, defs[0].line,
                            "hold is false for a consuming stateful batch read when consistency is %s: the column lock is dropped between planning and commit, so two concurrent batch "
                            "consumers can plan from the same cursor and both deliver the entries" % ("StrictlyAtOnce" if bad[0][0] else "AtLeastOnce%s" % (" {%s: %s}" % (payload[0], bad[0][3]) if len(bad[0]) > 3 else "")))
            else:
                ctx.ok("C05.2", F, "checkpoint AND start_offset.is_none() => hold (all valuations of consistency incl. payload x checkpoint x start_offset evaluated)", b.relfile, defs[0].line,
                       "hold table (strict,checkpoint,stateful)->hold: %s" % sorted(rows.items()))
    # commit closure call sites
    hold_true_edges = []
    hold_false_edges = []
    if hold is not None:
        for T in all_tests(b):
            if T.kind == "local" and op_local(T.operand) == hold:
                hold_true_edges.append(T.true_edge)
                hold_false_edges.append(T.false_edge)
    n_cc = 0
    for s in b.calls():
        cn = s.node.get("callee") or ""
        if not cn.startswith(b.name + "::{closure") or cn not in facts.bodies:
            continue
        clo = facts.bodies[cn]
        if not any(k.startswith("store:ColReaderInfo") for site, k in Effects(facts).prim.get(cn, [])):
            continue
        n_cc += 1
        # which guard does the &mut ColReaderInfo come from
        tup = s.node["args"][1]
        tl = op_local(tup)
        d = b.def_rvalue(tl) if tl is not None else None
        gl = None
        if d and d[0] == "rv" and d[1]["k"] == "agg":
            inner = d[1]["ops"][0]
            il = op_local(inner)
            gl = guard_of_pointer(b, il) if il is not None else None
        if gl is None:
            ctx.violate("C05.2", F, "commit-closure-argument", b.relfile, s.line, "cannot determine which guard the commit closure writes through")
            continue
        # derived from G ?
        sd = b.single_def(gl)
        from_G = False
        if sd and sd[1] == "assign" and sd[2]["rv"]["k"] == "use":
            p = op_place(sd[2]["rv"]["op"])
            if p is not None and p["l"] == G:
                from_G = True
        if from_G:
            ctx.ok("C05.2", F, "commit closure writes through the guard acquired before planning", b.relfile, s.line)
        else:
            # a fresh acquisition: only allowed when hold == false
            if hold is not None and any(b.edge_guards(e, s.bb) for e in hold_false_edges):
                ctx.ok("C05.2", F, "re-acquiring commit is guarded by hold == false", b.relfile, s.line)
            else:
                ctx.violate("C05.2", F, "commit-under-fresh-guard", b.relfile, s.line, "the commit closure runs under a newly acquired guard on a path where the lock should have been held since planning")
    # the commit closure called from a closure that the function hands to a combinator:
    # `guard.and_then(|mut info| commit(&mut info))` (the planning guard) or `arc.and_then(|arc| .. arc.write() .. commit(..))`
    eff = Effects(facts)
    for cl in facts.closures_of(b, recursive=False):
        for s in cl.calls():
            cn = s.node.get("callee") or ""
            if not cn.startswith(b.name + "::{closure") or cn not in facts.bodies or cn == cl.name:
                continue
            if not any(k.startswith("store:ColReaderInfo") for site, k in eff.prim.get(cn, [])):
                continue
            n_cc += 1
            # where the function uses this closure
            uses = []
            for site, st in b.assigns():
                rv = st["rv"]
                if rv["k"] == "agg" and rv.get("akind") == "closure" and rv.get("name") == cl.name and not st["place"]["p"]:
                    for c in b.calls():
                        if any(op_local(b.resolve_copy(a)) == st["place"]["l"] for a in c.node["args"][1:]):
                            uses.append(c)
            tup = s.node["args"][1] if len(s.node["args"]) > 1 else None
            tl = op_local(tup) if tup else None
            d = cl.def_rvalue(tl) if tl is not None else None
            gl = None
            if d and d[0] == "rv" and d[1]["k"] == "agg":
                il = op_local(d[1]["ops"][0])
                gl = guard_of_pointer(cl, il) if il is not None else None
            if gl is None or len(uses) != 1:
                ctx.violate("C05.2", F, "commit-closure-argument", cl.relfile, s.line, "cannot determine which guard the commit closure writes through")
                continue
            use = uses[0]
            # is the guard the closure's own parameter (the payload of the Option the combinator is applied to) ?
            cur, from_param = gl, False
            for _ in range(6):
                if cur == 2:
                    from_param = True
                    break
                sd = cl.single_def(cur)
                pp = op_place(sd[2]["rv"]["op"]) if sd and sd[1] == "assign" and sd[2]["rv"]["k"] == "use" else None
                if pp is None or pp["p"]:
                    break
                cur = pp["l"]
            recv = op_local(b.resolve_copy(use.node["args"][0])) if use.node["args"] else None
            ucn = strip_generics(use.node.get("callee") or "")
            if from_param and G is not None and recv == G and re.search(r"Option(::<[^>]*>)?::(and_then|map|map_or|map_or_else|into_iter)$", ucn):
                ctx.ok("C05.2", F, "commit closure writes through the guard acquired before planning (handed to it by %s)" % ucn.split("::")[-1], b.relfile, use.line)
            elif hold is not None and any(b.edge_guards(e, use.bb) for e in hold_false_edges):
                ctx.ok("C05.2", F, "re-acquiring commit is guarded by hold == false", b.relfile, use.line)
            else:
                ctx.violate("C05.2", F, "commit-under-fresh-guard", b.relfile, use.line, "the commit closure runs under a newly acquired guard on a path where the lock should have been held since planning")
    ctx.floor("C05.2", "commit closure call sites", n_cc, 1)


def check_writer_types(ctx, facts):
    w = facts.adts.get("wal::runtime::writer::Writer")
    if not w:
        ctx.anchor_missing("C05.3", "struct Writer")
        return
    fields = {f["name"]: f["ty"] for f in w["variants"][0]["fields"]}
    for fn in ("current_block", "current_offset"):
        ty = fields.get(fn, "")
        if ty.startswith("std::sync::Mutex<"):
            ctx.ok("C05.3", "writer::Writer", "%s: %s" % (fn, ty), "src/wal/runtime/writer.rs", None)
        else:
            ctx.violate("C05.3", "writer::Writer", "field-not-mutex:" + fn, "src/wal/runtime/writer.rs", None, "Writer.%s has type %s; the active block and offset must only be reachable through a Mutex" % (fn, ty))
    # no interior-mutability escape: no UnsafeCell / raw pointer fields
    for n, ty in fields.items():
        if "UnsafeCell" in ty or ty.startswith("*mut") or ty.startswith("*const"):
            ctx.violate("C05.3", "writer::Writer", "unsynchronised-field:" + n, "src/wal/runtime/writer.rs", None, "Writer.%s: %s bypasses the mutexes" % (n, ty))


def check_writer_guards_held(ctx, facts):
    n = 0
    for fn in ("writer::Writer::write", "writer::Writer::batch_write"):
        b = facts.body(fn)
        ctx.saw_body(b)
        F = common.short_fn(b.name)
        guards = [l for l, ld in enumerate(b.locals) if re.search(r"MutexGuard<'_, (u64|wal::block::Block)>$", ld["ty"]) and l > b.arg_count]
        if not guards:
            ctx.anchor_missing("C05.5", "MutexGuard locals of current_block / current_offset in " + F)
            continue
        writes = b.calls(re.compile(r"block::Block::write$|Writer::submit_batch_via_io_uring$"))
        if not writes:
            ctx.anchor_missing("C05.5", "storage writes in " + F)
            continue
        for g in guards:
            # release points of g: mem::drop(move g) and Drop terminators of g
            rel = []
            for c in b.calls(re.compile(r"mem::drop$")):
                if op_local(c.node["args"][0]) == g:
                    rel.append((c.bb, c.line))
            for bb in sorted(b.live_blocks):
                t = b.term(bb)
                if t["k"] == "drop" and t.get("place", {}).get("l") == g and not t.get("place", {}).get("p"):
                    rel.append((bb, t.get("line")))
            n += 1
            bad = None
            for rbb, line in rel:
                after = b.reachable_after(rbb)
                w = [x for x in writes if x.bb in after]
                if w:
                    bad = (line, w[0].line)
                    break
            what = "current_offset" if "u64" in b.local_ty(g) else "current_block"
            if bad:
                ctx.violate("C05.5", F, "writer-guard-released-before-io:" + what, b.relfile, bad[0],
                            "the %s guard taken before planning is released (line %s) while entries are still to be written (line %s): a single append that passed the "
                            "is_batch_writing test earlier and was waiting on the mutex now writes at the offset this batch planned for, and one of the two is lost"
                            % (what, bad[0], bad[1]))
            else:
                ctx.ok("C05.5", F, "the %s guard is held until after the last storage write" % what, b.relfile, b.line)
    ctx.floor("C05.5", "writer guards checked", n, 4)


def run(ctx):
    for k, v in RULES.items():
        ctx.rule(k, v)
    facts = common.mir(ctx, "walrus_rust")
    check_rmw(ctx, facts)
    check_hold(ctx, facts)
    from .c01 import check_read_next_commit
    check_read_next_commit(ctx, facts, rid="C05.4")
    check_writer_types(ctx, facts)
    check_writer_guards_held(ctx, facts)
    from .c04 import check_rotation
    check_rotation(ctx, facts, rid="C05.6")
    from .c06 import check_cursor_limit
    check_cursor_limit(ctx, facts, rid="C05.7")
    ctx.assume("schedules are not enumerated: the check decides the absence of the atomicity-violation shapes that make duplicate delivery possible; ordering between producers, "
               "the stale pre-lock writer snapshot in the batch path and fairness are NOT decided")
    ctx.assume("C05.1 treats distinct MIR locals as distinct acquisitions; a value carried across loop iterations under re-acquisitions of the same local is not tracked")
    return {
        "explanation": "RMW rule on backward slices with lock-guard provenance for every checkpoint-guarded cursor commit of read_next, and a BOOL/GB analysis of the hold flag of "
                       "batch_read_for_topic (its truth table is evaluated over the defining sub-CFG for all 8 valuations of consistency, checkpoint, start_offset).",
    }
