"""C17 - topic clean/dirty markers reflect the latest change, across restarts."""
import re
from .core import common
from .core.mir import op_local, op_place, strip_generics, callee_name
from .core.cond import all_tests, call_site_of, borrowed_local, const_of, bypass_edges, classify_edge
from .core.slicing import origins, origin_calls, origin_args
from .core.effects import provenance
from .persistord import check_atomic_replace

RULES = {
    "C17.1": "every update handed to CleanMarkerStore::persist_updates is merged into the map that is written (no branch of the merge loop skips the insert); must-reach (call graph + only-allowed-bypass): the marker store's durable write (CleanMarkerStore::persist_map, the only body that renames the marker file) is reached "
             "synchronously either by every state change (update_state) or by a clean shutdown: an `impl Drop` of Walrus (or of the tracker) whose drop reaches persist_map on all "
             "paths - the only allowed bypasses being a poisoned lock and `nothing to persist` (empty update list) - with a snapshot built from an iteration over ALL tracked states",
    "C17.2": "state discipline: both append APIs call mark_topic_dirty on every path before anything else can fail; mark_clean/mark_dirty pass the constants true/false; "
             "TopicCleanState::update stores exactly the desired value and topic_is_clean loads the same atomic; a reopened instance hydrates the tracker from the store it will persist to",
    "C17.3": "marker replacement order = C10.4's atomic-replace protocol for persist_map",
}

PM = "topic_clean::CleanMarkerStore::persist_map"


def _reaches(facts, body, target_suffix):
    for n in facts.closure_reach(body.name):
        if common.short_fn(n) == target_suffix:
            return True
    return False


def _allowed(b, edge):
    T, which = classify_edge(b, edge)
    if T is None:
        return None
    if T.kind == "discr" and not T.place["p"]:
        cs = call_site_of(b, {"k": "copy", "place": T.place})
        if cs is not None and re.search(r"(RwLock::(write|read)|Mutex::lock)$", callee_name(cs.node)):
            return "poisoned lock"
        # `?` on a lock().map_err(..)
        src, _, _ = origins(b, {"k": "copy", "place": T.place})
        if any(o.kind == "call" and re.search(r"(RwLock::(write|read)|Mutex::lock)$", o.what) for o in src) and not any(
                o.kind == "call" and re.search(r"persist|fs::", o.what) for o in src):
            return "poisoned lock"
    if T.kind == "call" and re.search(r"(\[T\]>|slice|Vec|HashMap|HashSet)::is_empty$", T.callee) and which == "true":
        return "nothing to persist"
    return None


def must_call_chain(ctx, facts, body, target_suffix, rule, depth=0):
    """Every path of `body` from entry to a normal return calls something that (transitively,
    by the same rule) reaches the target, except over allowed bypass edges."""
    ctx.saw_body(body)
    F = common.short_fn(body.name)
    if F == target_suffix:
        return True
    if depth > 6:
        return False
    sites = []
    for s in body.calls():
        cn = s.node.get("callee")
        if not cn:
            continue
        k = None
        for n in facts.bodies:
            if strip_generics(n) == strip_generics(cn):
                k = n
        if k and (common.short_fn(k) == target_suffix or _reaches(facts, facts.bodies[k], target_suffix)):
            sites.append((s, k))
    if not sites:
        ctx.violate(rule, F, "does-not-reach-marker-persist", body.relfile, body.line, "%s never reaches %s" % (F, target_suffix))
        return False
    tg = [s.bb for s, k in sites]
    by = bypass_edges(body, 0, tg)
    bad = []
    reasons = set()
    for e in by:
        why = _allowed(body, e)
        if why is None:
            if body.term(e[1])["k"] == "unreachable":
                continue
            bad.append(e)
        else:
            reasons.add(why)
    if 0 in tg:
        bad = []
    if bad:
        ctx.violate(rule, F, "marker-persist-skipped-on-a-path", body.relfile, body.term(bad[0][0])["line"],
                    "%s can return without reaching %s through a branch that is neither a poisoned lock nor `nothing to persist`" % (F, target_suffix))
        return False
    ctx.ok(rule, F, "every path reaches the marker persist (bypass only: %s)" % (sorted(reasons) or "none"), body.relfile, sites[0][0].line)
    ok = True
    for k in {k for s, k in sites}:
        if common.short_fn(k) != target_suffix:
            ok = must_call_chain(ctx, facts, facts.bodies[k], target_suffix, rule, depth + 1) and ok
    return ok


def check_durable_marker(ctx, facts):
    pm = facts.body(PM)
    ctx.saw_body(pm)
    # persist_map is the only body that renames onto the marker path
    ren = [n for n, b in facts.bodies.items() if not b.j["derived"] and "topic_clean" in n and b.calls(re.compile(r"^std::fs::rename$"))]
    if [common.short_fn(n) for n in ren] == [PM]:
        ctx.ok("C17.1", PM, "the only body of topic_clean.rs that renames the marker file", pm.relfile, pm.line)
    else:
        ctx.violate("C17.1", PM, "marker-writers", pm.relfile, pm.line, "marker file is replaced by %s" % [common.short_fn(n) for n in ren])
    # (a) synchronous on change?
    us = facts.body("topic_clean::TopicCleanTracker::update_state")
    sync_on_change = _reaches(facts, us, PM)
    if sync_on_change:
        if must_call_chain(ctx, facts, us, PM, "C17.1"):
            return
    # (b) Drop
    drops = []
    for imp in facts.impls:
        if imp["trait"].endswith("ops::Drop") and (imp["self_ty"].endswith("walrus::Walrus") or imp["self_ty"].endswith("topic_clean::TopicCleanTracker")):
            drops.append(imp)
    if not drops:
        ctx.violate("C17.1", "walrus::Walrus", "marker-persistence-only-asynchronous", "src/wal/runtime/walrus.rs", None,
                    "a marker change is only sent to the background persister (persist_tx.send); neither the change itself nor a clean shutdown (there is no `impl Drop` for Walrus or "
                    "the tracker) reaches CleanMarkerStore::persist_map, and the persister holds a Weak reference and exits without writing once the tracker is gone: "
                    "mark_topic_clean followed by drop is lost")
        return
    for imp in drops:
        name = "<%s as std::ops::Drop>::drop" % imp["self_ty"]
        body = None
        for n, b in facts.bodies.items():
            if n.endswith("::drop") and imp["self_ty"] in n and "Drop" in n:
                body = b
        if body is None:
            ctx.anchor_missing("C17.1", "drop body of " + imp["self_ty"])
            continue
        if must_call_chain(ctx, facts, body, PM, "C17.1"):
            # snapshot of ALL states
            found_all = False
            for n in facts.closure_reach(body.name):
                bb_ = facts.bodies[n]
                for s in bb_.calls(re.compile(r"CleanMarkerStore::persist_updates$")):
                    src, _, _ = origins(bb_, s.node["args"][1], follow_all_calls=True)
                    from_states = any(o.kind == "field" and o.what[1] == "states" for o in src)
                    iter_all = any(o.kind == "call" and re.search(r"(HashMap|hash_map)::.*(iter|values|keys)$|HashMap::iter$|::collect$", o.what) for o in src)
                    subset = any(o.kind == "arg" and o.what not in ("self",) for o in src)
                    if from_states and iter_all and not subset and common.short_fn(n) != "topic_clean::TopicCleanTracker::persist_topics":
                        found_all = True
                        ctx.ok("C17.1", common.short_fn(n), "shutdown flush snapshots an iteration over all tracked states", bb_.relfile, s.line)
            if not found_all:
                ctx.violate("C17.1", common.short_fn(body.name), "shutdown-flush-not-all-states", body.relfile, body.line,
                            "the flush reached from Drop does not persist a snapshot of all tracked topic states")


def check_updates_applied(ctx, facts):
    """persist_updates: every update handed in is inserted into the map that is then written."""
    b = facts.body("topic_clean::CleanMarkerStore::persist_updates")
    ctx.saw_body(b)
    F = common.short_fn(b.name)
    ins = b.calls(re.compile(r"HashMap.*::insert$"))
    pm = b.calls(re.compile(r"CleanMarkerStore::persist_map$"))
    ext = [c for c in b.calls(re.compile(r"::extend$")) if len(c.node["args"]) == 2 and "HashMap<" in b.local_ty(borrowed_local(b, c.node["args"][0]) or 0)]
    if ext and pm and not ins:
        # the merge in one go: `map.extend(updates.iter().cloned())` - every element of the argument, through 1:1 adapters only
        c = ext[0]
        src, _, _ = origins(b, c.node["args"][1], follow_all_calls=True)
        lossy = [o.what for o in src if o.kind == "call" and not re.search(r"::(iter|into_iter|cloned|copied|map|deref|as_ref|clone|to_vec|as_slice)$", o.what)]
        from_updates = any(o.kind == "arg" and o.what == (b.local_name(2) or 2) for o in src)
        if from_updates and not lossy and all(b.dominates(c.bb, p_.bb) for p_ in pm):
            ctx.ok("C17.1", F, "every update is merged into the map (extend over all of them) before it is persisted", b.relfile, c.line)
        else:
            ctx.violate("C17.1", F, "update-dropped-before-persist", b.relfile, c.line,
                        "the merge of the updates into the marker map goes through %s: not every update handed in reaches the map that is written" % (lossy or "something other than the updates"))
        return
    if not ins or not pm:
        ctx.anchor_missing("C17.1", "insert / persist_map in " + F)
        return
    ok = False
    for c in ins:
        hb, L = b.enclosing_loop(c.bb)
        if L is None:
            continue
        if b.iteration_can_skip(hb, L, c.bb):
            ctx.violate("C17.1", F, "update-dropped-before-persist", b.relfile, c.line,
                        "the loop that merges the updates into the marker map can skip an update (a branch inside the loop bypasses the insert): the state that is then written - "
                        "or kept, if nothing else changed - is not the latest one for that topic")
            return
        if all(b.dominates(hb, p_.bb) and p_.bb not in L for p_ in pm):
            ok = True
    if ok:
        ctx.ok("C17.1", F, "every update is inserted into the map before it is persisted", b.relfile, ins[0].line)
    else:
        ctx.violate("C17.1", F, "updates-not-merged-before-persist", b.relfile, b.line, "persist_map is not preceded by the loop that merges the updates")


def check_state_discipline(ctx, facts):
    for fn in ("walrus_write::append_for_topic", "walrus_write::batch_append_for_topic"):
        b = facts.body(fn)
        ctx.saw_body(b)
        md = b.calls(re.compile(r"Walrus::mark_topic_dirty$"))
        if md and all(b.dominates(md[0].bb, r) for r in b.return_blocks()) and md[0].bb == 0:
            ctx.ok("C17.2", fn, "mark_topic_dirty is the first call and dominates every return", b.relfile, md[0].line)
        elif md and all(b.dominates(md[0].bb, r) for r in b.return_blocks()):
            ctx.ok("C17.2", fn, "mark_topic_dirty dominates every return", b.relfile, md[0].line)
        else:
            ctx.violate("C17.2", fn, "append-without-dirty-mark", b.relfile, b.line, "an append can return without the topic having been marked dirty")
        if md:
            src, _, _ = origins(b, md[0].node["args"][1])
            if len(origin_args(src)) == 1 and not origin_calls(src):
                ctx.ok("C17.2", fn, "the topic marked dirty is the appended topic", b.relfile, md[0].line)
            else:
                ctx.violate("C17.2", fn, "dirty-mark-topic", b.relfile, md[0].line, "the topic marked dirty is not the appended topic")
    from .core.absint import explore_consts, Undecided as _Und
    up = facts.body("topic_clean::TopicCleanState::update")
    ctx.saw_body(up)

    def stored_values(env0):
        """values that `update` can store into is_clean when entered with the knowledge env0 about its argument"""
        vals = []

        def on_call(bb, t, env):
            if not re.search(r"Atomic(::<bool>)?::store$|AtomicBool::store$", strip_generics(t.get("callee") or "")):
                return
            class _S:
                pass
            pr = provenance(up, t["args"][0])
            if not any(o.kind == "field" and o.what[1] == "is_clean" for o in pr):
                return
            o = t["args"][1]
            if o.get("k") == "const" and "val" in o:
                vals.append(o["val"])
            elif o.get("k") in ("move", "copy") and not o["place"]["p"]:
                vals.append(env.get(o["place"]["l"], "unknown"))
            else:
                vals.append("unknown")
        explore_consts(up, env0, on_call)
        return vals
    for fn, want in (("topic_clean::TopicCleanTracker::mark_dirty", 0), ("topic_clean::TopicCleanTracker::mark_clean", 1)):
        b = facts.body(fn)
        ctx.saw_body(b)
        us = b.calls(re.compile(r"TopicCleanTracker::update_state$"))
        if len(us) != 1:
            ctx.violate("C17.2", fn, "wrong-desired-state", b.relfile, b.line, "%s does not call update_state exactly once" % fn)
            continue
        a2 = us[0].node["args"][2]
        if const_of(b, a2) is not None:
            # a boolean request: the value itself
            if const_of(b, a2) == want:
                ctx.ok("C17.2", fn, "calls update_state(topic, %s)" % bool(want), b.relfile, us[0].line)
            else:
                ctx.violate("C17.2", fn, "wrong-desired-state", b.relfile, b.line, "%s does not request the state %s" % (fn, bool(want)))
            continue
        # a request named by a fieldless enum constant: what `update` stores for that variant decides
        l_ = op_local(b.resolve_copy(a2))
        sd = b.single_def(l_) if l_ is not None else None
        rv_ = sd[2]["rv"] if sd and sd[1] == "assign" else None
        if not (rv_ and rv_["k"] == "agg" and rv_.get("akind") == "adt" and not rv_.get("ops")):
            ctx.violate("C17.2", fn, "wrong-desired-state", b.relfile, b.line, "%s requests a state that is neither a boolean constant nor a constant variant" % fn)
            continue
        adt = facts.adts.get(rv_.get("name"))
        names_ = [v["name"] for v in adt["variants"]] if adt else []
        if rv_.get("variant") not in names_:
            ctx.anchor_missing("C17.2", "enum %s of the requested state" % rv_.get("name"))
            continue
        vi = names_.index(rv_["variant"])
        # update_state hands its argument on unchanged; update's second parameter is the request
        try:
            vals = stored_values({("variant", 2): vi})
        except _Und as e:
            ctx.violate("C17.2", fn, "desired-state-undecided", up.relfile, up.line, "cannot evaluate what update stores for %s::%s (%s): fail closed" % (rv_.get("name"), rv_["variant"], e))
            continue
        if vals and all(v == want for v in vals):
            ctx.ok("C17.2", fn, "requests %s::%s, for which update stores %s into is_clean" % (rv_.get("name").split("::")[-1], rv_["variant"], bool(want)), b.relfile, us[0].line)
        else:
            ctx.violate("C17.2", fn, "wrong-desired-state", b.relfile, b.line, "%s requests %s::%s, for which update stores %s into is_clean (expected %s)" % (fn, rv_.get("name").split("::")[-1], rv_["variant"], vals, bool(want)))
    for fn, m in (("walrus::Walrus::mark_topic_dirty", "mark_dirty"), ("walrus::Walrus::mark_topic_clean", "mark_clean"), ("walrus::Walrus::topic_is_clean", "topic_is_clean")):
        b = facts.body(fn)
        ctx.saw_body(b)
        if b.calls(re.compile(r"TopicCleanTracker::%s$" % m)):
            ctx.ok("C17.2", fn, "delegates to TopicCleanTracker::" + m, b.relfile, b.line)
        else:
            ctx.violate("C17.2", fn, "wrong-delegate", b.relfile, b.line, "%s does not call TopicCleanTracker::%s" % (fn, m))
    stores = [s for s in up.calls(re.compile(r"Atomic(::<bool>)?::store$"))]
    good = False
    for s in stores:
        pr = provenance(up, s.node["args"][0])
        vsrc, _, _ = origins(up, s.node["args"][1])
        if any(o.kind == "field" and o.what[1] == "is_clean" for o in pr) and len(origin_args(vsrc)) == 1 and not origin_calls(vsrc):
            good = True
    if not good and not stores:
        # the store sits in a closure of update (`changes.then(|| { .. store(desired) .. })`): the value stored is a capture,
        # and what is captured must be the argument itself
        for cb in facts.closures_of(up):
            for s in cb.calls(re.compile(r"Atomic(::<bool>)?::store$")):
                stores.append(s)
                pr = provenance(cb, s.node["args"][0])
                k = None
                cur = op_place(s.node["args"][1])
                for _ in range(6):      # `*(env.k)` read through copies and derefs
                    if cur is None:
                        break
                    if cur["l"] == 1 and cur["p"]:
                        k = next((e["f"] for e in cur["p"] if isinstance(e, dict) and "f" in e), None)
                        break
                    if any(e != "*" for e in cur["p"]):
                        break
                    sd = cb.single_def(cur["l"])
                    cur = op_place(sd[2]["rv"]["op"]) if sd and sd[1] == "assign" and sd[2]["rv"]["k"] == "use" else None
                if k is None or not any(o.kind == "field" and o.what[1] == "is_clean" for o in pr):
                    continue
                for site, st in up.assigns():
                    rv = st["rv"]
                    if rv["k"] == "agg" and rv.get("akind") == "closure" and rv.get("name") == cb.name and k < len(rv["ops"]):
                        vsrc, _, _ = origins(up, rv["ops"][k])
                        if origin_args(vsrc) == {up.local_name(2) or 2} and not origin_calls(vsrc) and not any(o.kind == "const" for o in vsrc):
                            good = True
    if not good and stores:
        # the request may be an enum: then the value stored must be decided by the request alone
        try:
            ty2 = up.local_ty(2)
            adt2 = facts.adts.get(ty2)
            if adt2 and all(not v.get("fields") for v in adt2["variants"]):
                per = [stored_values({("variant", 2): i_}) for i_ in range(len(adt2["variants"]))]
                good = all(vs and len(set(vs)) == 1 and "unknown" not in vs for vs in per) and len({vs[0] for vs in per}) == 2
        except _Und:
            good = False
    if good:
        ctx.ok("C17.2", "topic_clean::TopicCleanState::update", "stores the desired value into is_clean", up.relfile, stores[0].line)
    else:
        ctx.violate("C17.2", "topic_clean::TopicCleanState::update", "update-does-not-store-desired", up.relfile, up.line, "update does not store its argument into is_clean")
    # reader of the same atomic
    rd = [b for n, b in facts.bodies.items() if "TopicCleanTracker::topic_is_clean" in n]
    loaded = False
    for b in rd:
        for s in b.calls(re.compile(r"Atomic(::<bool>)?::load$")):
            pr = provenance(b, s.node["args"][0])
            if any(o.kind == "field" and o.what[1] == "is_clean" for o in pr):
                loaded = True
    if loaded:
        ctx.ok("C17.2", "topic_clean::TopicCleanTracker::topic_is_clean", "loads TopicCleanState.is_clean", rd[0].relfile, rd[0].line)
    else:
        ctx.violate("C17.2", "topic_clean::TopicCleanTracker::topic_is_clean", "reads-other-state", "src/wal/runtime/topic_clean.rs", None, "topic_is_clean does not read the atomic that update writes")
    # hydration on open
    wp = facts.body("walrus::Walrus::with_paths")
    ctx.saw_body(wp)
    hy = wp.calls(re.compile(r"TopicCleanTracker::hydrate$"))
    ni = wp.calls(re.compile(r"CleanMarkerStore::new_in$"))
    if hy and ni and wp.dominates(ni[0].bb, hy[0].bb) and all(wp.dominates(hy[0].bb, r) for r in [site.bb for site, st in wp.assigns() if st["place"]["l"] == 0 and st["rv"]["k"] == "agg" and st["rv"].get("variant") == "Ok"]):
        src, _, _ = origins(wp, hy[0].node["args"][1], follow_all_calls=True)
        if any(o.kind == "call" and o.what.endswith("CleanMarkerStore::snapshot") for o in src):
            ctx.ok("C17.2", "walrus::Walrus::with_paths", "a new instance hydrates the tracker from the store's snapshot before it is returned", wp.relfile, hy[0].line)
        else:
            ctx.violate("C17.2", "walrus::Walrus::with_paths", "hydrate-source", wp.relfile, hy[0].line, "the tracker is not hydrated from the marker store's snapshot")
    else:
        ctx.violate("C17.2", "walrus::Walrus::with_paths", "no-hydration", wp.relfile, wp.line, "a reopened instance does not load the persisted markers")


def run(ctx):
    for k, v in RULES.items():
        ctx.rule(k, v)
    facts = common.mir(ctx, "walrus_rust")
    check_durable_marker(ctx, facts)
    check_updates_applied(ctx, facts)
    check_state_discipline(ctx, facts)
    check_atomic_replace(ctx, "C17.3", "C17.3", facts, PM)
    ctx.assume("'clean shutdown' = the Walrus value is dropped (process exit without drop is a crash, outside this property)")
    return {
        "explanation": "call-graph must-reach with only-allowed-bypass on every hop from a clean shutdown (Drop) or a state change to the marker store's fsync+rename, origin slices for the "
                       "snapshot argument, and small structural obligations on the marker state machine; plus the shared atomic-replace ORD rule.",
    }
