"""C24 - client protocol stays frame-synchronised and round-trips payloads (syntax-tree rules)."""
import re
import os
from .core import ast as A
from . import astpanic

FILE = "distributed-walrus/src/client.rs"
CTRL = "distributed-walrus/src/controller/mod.rs"
INTERNAL = "distributed-walrus/src/controller/internal.rs"

RULES = {
    "C24.1": "body consumed or connection closed (ASTPATH over one iteration of handle_connection's frame loop): on every path from the read of the 4-byte length to the loop back-edge, "
             "either a read_exact into a buffer allocated with exactly the decoded length was executed, or the branch taken proves the length is 0 (every `||`-disjunct of the taken "
             "condition is `<len> == 0`). Paths that return (close the connection) are fine",
    "C24.2": "one response per frame: every back-edge path contains exactly one send_response(..).await",
    "C24.3": "payload pass-through: the command line is split with splitn(3, ' ') so that the payload (third item) keeps inner spaces; PUT stores payload.as_bytes().to_vec(); the line "
             "handed to the parser is only trim_end()-ed; GET formats the stored bytes with from_utf8_lossy and no other transformation",
    "C24.4": "a frame cannot take the connection down: no function of client.rs reachable from handle_connection, and no NodeController method reachable from the calls it makes on "
             "`controller`, contains a panic site on client-supplied text - a str cut at a byte "
             "position not known to be a character boundary (accepted: positions from find/rfind/char_indices/len of the same str, floor_char_boundary, an is_char_boundary guard), "
             "a slice index or range not bounded by the slice's len(), unwrap/expect, panic!/assert!/unreachable!, position methods (split_at, truncate, ...), division by an "
             "unchecked value. A panic in the per-connection task leaves the frame and every later frame of the connection unanswered. The classifier is exercised on every run on "
             "harness/positive/c24_panic_sites.rs, whose 17 sites must be classified as recorded",
}

POSITIVE = os.path.join(os.path.dirname(os.path.dirname(os.path.abspath(__file__))), "harness", "positive", "c24_panic_sites.rs")
POSITIVE_EXPECT = [
    ("preview", "str-sliced-at-byte-offset"), ("safe_preview", "ok"), ("after_space", "ok"), ("head", "slice-index-unbounded"), ("head", "slice-range-unbounded"),
    ("bounded", "ok"), ("must", "panics-on-none-or-err:unwrap"), ("must", "panics-on-none-or-err:expect"), ("must", "panic-macro:assert"), ("must", "panic-macro:panic"),
    ("must", "division-by-unchecked-value"), ("cut", "position-method:truncate"), ("cut", "position-method:split_at"),
    ("pick", "ok"), ("pick", "ok"), ("pick_unguarded", "ok"), ("pick_unguarded", "division-by-unchecked-value"),
]


def check_no_panic_sites(ctx, f):
    pos = A.load(ctx, [POSITIVE])[POSITIVE]
    got = []
    for it in pos.items:
        if it["k"] == "fn":
            got += [(it["name"], v) for kind, n, v, why in astpanic.classify(it)]
    if got != POSITIVE_EXPECT:
        ctx.anchor_missing("C24.4", "the panic-site classifier no longer classifies the positive example as recorded (got %s)" % got)
        return
    ctx.ok("C24.4", "harness/positive/c24_panic_sites.rs", "the classifier classifies the 17 sites of the positive example as recorded (11 panic sites, 6 discharged)", FILE, 1)
    consts = {it["name"]: True for it in f.items if it["k"] == "const"}
    fns = astpanic.reachable_fns(f, ["handle_connection"])
    n = 0
    for name in sorted(fns):
        for it in f.fns(name):
            n += 1
            sites = astpanic.classify(it, consts)
            bad = [x for x in sites if x[2] != "ok"]
            for kind, node, v, why in sites:
                if v == "ok":
                    ctx.ok("C24.4", "client::" + name, "panic site discharged: " + why, FILE, node["line"])
            for kind, node, v, why in bad:
                ctx.violate("C24.4", "client::" + name, v, FILE, node["line"],
                            "%s - a panic here unwinds the per-connection task: the frame being handled and every later frame of the connection get no response" % why)
            if not bad:
                ctx.ok("C24.4", "client::" + name, "no undischarged panic site (%d sites looked at)" % len(sites), FILE, it["line"])
    ctx.floor("C24.4", "functions reachable from handle_connection", n, 3)
    # the controller methods the connection task calls (receiver `controller` in client.rs), followed through
    # the methods of NodeController defined in controller/mod.rs and controller/internal.rs
    roots = set()
    for name in fns:
        for it in f.fns(name):
            for x in A.walk(it["body"]):
                if x.get("k") == "mcall" and A.text(x["recv"]) in ("controller", "controller.clone()"):
                    roots.add(x["method"])
    roots.discard("clone")
    cfiles = A.load(ctx, [CTRL, INTERNAL])
    m = 0
    for rel in (CTRL, INTERNAL):
        cf = cfiles[rel]
        # reachability over both files: names defined in either
        names = {it["name"] for r_ in (CTRL, INTERNAL) for it in cfiles[r_].items if it["k"] == "fn"}
        seen, work = set(), list(roots)
        while work:
            x = work.pop()
            if x in seen or x not in names:
                continue
            seen.add(x)
            for r_ in (CTRL, INTERNAL):
                for it in cfiles[r_].fns(x):
                    for nd in A.walk(it["body"]):
                        if nd.get("k") == "mcall" and A.text(nd["recv"]) == "self":
                            work.append(nd["method"])
                        elif nd.get("k") == "call" and nd["f"].get("k") == "path":
                            work.append(nd["f"]["p"].split("::")[-1])
        consts = {it["name"]: True for it in cf.items if it["k"] == "const"}
        for name in sorted(seen):
            for it in cf.fns(name):
                m += 1
                sites = astpanic.classify(it, consts)
                for kind, node, v, why in sites:
                    if v == "ok":
                        ctx.ok("C24.4", "NodeController::" + name, "panic site discharged: " + why, rel, node["line"])
                    else:
                        ctx.violate("C24.4", "NodeController::" + name, v, rel, node["line"],
                                    "%s - reached from the connection task through controller.%s(..): a panic here unwinds the per-connection task, the frame being handled and "
                                    "every later frame of the connection get no response" % (why, "/".join(sorted(roots))[:80]))
                if all(v == "ok" for _, _, v, _ in sites):
                    ctx.ok("C24.4", "NodeController::" + name, "no undischarged panic site (%d sites looked at)" % len(sites), rel, it["line"])
    if not roots:
        ctx.anchor_missing("C24.4", "controller methods called from client.rs")
    ctx.floor("C24.4", "NodeController methods reachable from the connection task", m, 10)


def _disjuncts(e):
    e2 = e
    if e2.get("k") == "binary" and e2.get("op") == "||":
        return _disjuncts(e2["l"]) + _disjuncts(e2["r"])
    return [e2]


def run(ctx):
    for k, v in RULES.items():
        ctx.rule(k, v)
    files = A.load(ctx, [FILE])
    f = files[FILE]
    try:
        hc = f.fn("handle_connection")
        cmd = f.fn("handle_command")
        f.fn("send_response")
    except A.AnchorMissingAst as e:
        ctx.anchor_missing("C24.anchor", str(e))
        return {"explanation": "anchor missing"}
    ctx.saw_fn("client::handle_connection", FILE, len(list(A.walk(hc["body"]))))
    ctx.saw_fn("client::handle_command", FILE, len(list(A.walk(cmd["body"]))))
    loops = [n for n in A.walk(hc["body"]) if n.get("k") == "loop"]
    if len(loops) != 1:
        ctx.anchor_missing("C24.1", "the frame loop of handle_connection (found %d loops)" % len(loops))
        return {"explanation": "anchor missing"}
    loop = loops[0]
    body = loop["body"]
    # the length buffer and the decoded length identifier
    reads = [n for n in A.walk(body) if A.is_mcall(n, "read_exact")]
    if not reads:
        ctx.anchor_missing("C24.1", "read_exact in the frame loop")
        return {"explanation": "anchor missing"}
    first = min(reads, key=lambda n: n["line"])
    m = re.match(r"^&mut(\w+)$", A.text(first["args"][0]))
    len_buf = m.group(1) if m else None
    len_id = None
    for st in A.walk(body):
        if st.get("k") == "let" and st.get("init") is not None:
            t = A.text(st["init"])
            if len_buf and re.search(r"from_[lb]e_bytes\(%s\)" % re.escape(len_buf), t):
                len_id = st["pat"].replace("mut ", "").strip()
                len_decl = st
    if not len_id:
        ctx.anchor_missing("C24.1", "decoded frame length (`let <len> = u32::from_le_bytes(<len buffer>)`)")
        return {"explanation": "anchor missing"}
    if "from_le_bytes" in A.text(len_decl["init"]):
        ctx.ok("C24.1", "client::handle_connection", "frame length is decoded little-endian from the 4-byte prefix", FILE, len_decl["line"], len_id)
    # buffers sized by the length
    sized = {}
    for st in A.walk(body):
        if st.get("k") == "let" and st.get("init") is not None and A.is_macro(st["init"], "vec"):
            toks = st["init"]["tokens"].replace(" ", "")
            mm = re.match(r"^0(u8)?;(\w+)$", toks)
            if mm:
                sized[st["pat"].replace("mut ", "").strip()] = mm.group(2)
    try:
        paths = A.block_paths(body)
    except A.TooManyPaths:
        ctx.violate("C24.1", "client::handle_connection", "too-many-paths", FILE, loop["line"], "the frame loop has too many paths to enumerate: fail closed")
        return {"explanation": "too many paths"}
    n_back = 0
    for p in paths:
        if p.exit not in ("fall", "continue"):
            continue
        n_back += 1
        body_read = False
        for n in A.events_of(p, "mcall", lambda x: A.is_mcall(x, "read_exact")):
            mm = re.match(r"^&mut(\w+)$", A.text(n["args"][0]))
            if mm and sized.get(mm.group(1)) == len_id:
                body_read = True
        sends = [n for n in A.events_of(p, "call") if A.is_call(n, "send_response")]
        where = max([n["line"] for k, n in p.events if isinstance(n, dict) and "line" in n] or [loop["line"]])
        desc = "path ending at line %d (%s)" % (where, p.exit)
        if body_read:
            ctx.ok("C24.1", "client::handle_connection", "back-edge path reads the announced body", FILE, where, desc)
        else:
            # the taken conditions must prove len == 0
            proved = False
            taken = None
            for (cn, br) in p.conds:
                if cn.get("k") == "if" and br == "then":
                    ds = _disjuncts(cn["cond"])
                    if all(A.text(d) == "%s==0" % len_id for d in ds):
                        proved = True
                    elif any(len_id in A.text(d) for d in ds):
                        taken = cn
            if proved:
                ctx.ok("C24.1", "client::handle_connection", "back-edge path without body read is taken only when the length is 0", FILE, where, desc)
            else:
                cond_t = A.text(taken["cond"]) if taken else "?"
                ctx.violate("C24.1", "client::handle_connection", "frame-body-not-consumed", FILE, taken["line"] if taken else where,
                            "a path returns to the top of the frame loop without reading the %s announced body bytes (condition taken: `%s`): the unread body is parsed as the "
                            "next frame's length and commands, so one bad frame desynchronises the whole connection" % (len_id, cond_t))
        if len(sends) == 1:
            ctx.ok("C24.2", "client::handle_connection", "exactly one response on this frame's path", FILE, sends[0]["line"], desc)
        else:
            ctx.violate("C24.2", "client::handle_connection", "responses-per-frame:%d" % len(sends), FILE, where, "a frame is answered %d times on the %s" % (len(sends), desc))
    ctx.floor("C24.1", "back-edge paths of the frame loop", n_back, 3)

    # C24.3 ------------------------------------------------------------------------------
    F = "client::handle_command"
    splits = [n for n in A.walk(cmd["body"]) if A.is_mcall(n, "splitn") or A.is_mcall(n, "split") or A.is_mcall(n, "split_whitespace")]
    line_param = cmd["params"][0]["name"] if cmd["params"] else "line"
    good_split = [n for n in splits if n["method"] == "splitn" and A.text(n["recv"]) == line_param and len(n["args"]) == 2 and n["args"][0].get("int") == 3 and n["args"][1].get("chr") == " "]
    if len(splits) == 1 and good_split:
        ctx.ok("C24.3", F, "the command line is split with splitn(3, ' ')", FILE, splits[0]["line"])
    else:
        ctx.violate("C24.3", F, "command-split", FILE, splits[0]["line"] if splits else cmd["line"],
                    "the command line is split with %s; the payload must be the unsplit remainder (splitn(3, ' '))" % [A.text(s) for s in splits][:2])
    # iterator variable
    it_var = None
    for st in A.walk(cmd["body"]):
        if st.get("k") == "let" and st.get("init") is not None and good_split and st["init"] is good_split[0]:
            it_var = st["pat"].replace("mut ", "").strip()
    ms = [n for n in A.walk(cmd["body"]) if n.get("k") == "match"]
    put_arm = get_arm = None
    for m_ in ms:
        for a in m_["arms"]:
            if a["pat"].replace(" ", "") == '"PUT"':
                put_arm = a
            if a["pat"].replace(" ", "") == '"GET"':
                get_arm = a
    if put_arm is None or get_arm is None or it_var is None:
        ctx.anchor_missing("C24.3", "PUT/GET arms or the split iterator in handle_command")
    else:
        # number of next() before the match (the op) and inside PUT
        nexts_before = [n for n in A.walk(cmd["body"]) if A.is_mcall(n, "next", it_var) and n["line"] < put_arm["line"] and n["line"] < ms[0]["line"]]
        lets = [st for st in A.walk(put_arm["body"]) if st.get("k") == "let"]
        order = []
        for st in lets:
            if st.get("init") is not None and any(A.is_mcall(n, "next", it_var) for n in A.walk(st["init"])):
                order.append(st["pat"].strip())
        appends = [n for n in A.walk(put_arm["body"]) if A.is_mcall(n, "append_for_topic")]
        if len(nexts_before) == 1 and len(order) == 2 and len(appends) == 1:
            topic_v, payload_v = order
            a0, a1 = A.text(appends[0]["args"][0]), A.text(appends[0]["args"][1])
            if a0 == topic_v and a1 == "%s.as_bytes().to_vec()" % payload_v:
                ctx.ok("C24.3", F, "PUT stores the third split item unchanged (as_bytes().to_vec())", FILE, appends[0]["line"])
            else:
                ctx.violate("C24.3", F, "put-payload-transformed", FILE, appends[0]["line"], "PUT appends (%s, %s); expected (%s, %s.as_bytes().to_vec())" % (a0, a1, topic_v, payload_v))
        else:
            ctx.violate("C24.3", F, "put-arm-shape", FILE, put_arm["line"], "PUT does not take exactly topic and payload from the split iterator (%s)" % order)
        # GET: format!("OK {}", String::from_utf8_lossy(&bytes))
        fm = [n for n in A.walk(get_arm["body"]) if A.is_macro(n, "format")]
        okf = [n for n in fm if n["tokens"].replace(" ", "").startswith('"OK{}",String::from_utf8_lossy(&')]
        if okf:
            ctx.ok("C24.3", F, "GET returns `OK ` + from_utf8_lossy(stored bytes)", FILE, okf[0]["line"])
        else:
            ctx.violate("C24.3", F, "get-payload-transformed", FILE, get_arm["line"], "GET formats the stored bytes as %s" % [n["tokens"][:50] for n in fm])
    # the line handed to the parser
    hcalls = [n for n in A.walk(hc["body"]) if A.is_call(n, "handle_command")]
    if len(hcalls) == 1 and re.match(r"^\w+\.trim_end\(\)$", A.text(hcalls[0]["args"][0])):
        ctx.ok("C24.3", "client::handle_connection", "the frame text is only trim_end()-ed before parsing", FILE, hcalls[0]["line"])
    else:
        ctx.violate("C24.3", "client::handle_connection", "frame-text-transformed", FILE, hcalls[0]["line"] if hcalls else hc["line"],
                    "the frame text is passed to the parser as %s" % ([A.text(h["args"][0]) for h in hcalls]))
    # send_response frames the message with its byte length, little endian
    sr = f.fn("send_response")
    ctx.saw_fn("client::send_response", FILE, len(list(A.walk(sr["body"]))))
    t = "".join(A.text(n) for n in A.walk(sr["body"]) if n.get("k") in ("mcall", "let", "cast"))
    wr = [n for n in A.walk(sr["body"]) if A.is_mcall(n, "write_all")]
    if len(wr) == 2 and "to_le_bytes" in A.text(wr[0]) and wr[0]["line"] < wr[1]["line"]:
        ctx.ok("C24.2", "client::send_response", "a response is the little-endian length followed by the message bytes", FILE, wr[0]["line"])
    else:
        ctx.violate("C24.2", "client::send_response", "response-framing", FILE, sr["line"], "send_response does not write length then bytes")
    check_no_panic_sites(ctx, f)
    ctx.assume("C24.4 sees panic sites written in client.rs and in the NodeController methods it calls (controller/mod.rs, controller/internal.rs, followed through self-calls); "
               "Storage / Metadata / octopii methods called from there are not followed, nor is arithmetic overflow")
    ctx.assume("syntax-tree analysis of distributed-walrus/src/client.rs (the crate cannot be type-checked offline); names are resolved within the file only")
    return {
        "explanation": "enumeration of the acyclic control paths of one iteration of the frame loop over the parsed statement tree (`?`, early returns, continue and match arms included) "
                       "with per-path obligations, plus structural obligations on the command parser and the response framing.",
    }
