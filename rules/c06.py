"""C06 - restarting an instance is invisible to producers and consumers (partial: layout + scan completeness)."""
import re
from .core import common
from .core.mir import op_local, op_place, strip_generics, callee_name
from .core.slicing import origins
from .core.cond import all_tests, call_site_of, classify_edge, const_of, borrowed_local
from .core.symexpr import expr, show, strip_refs, place_expr
from . import fmtfeat

RULES = {
    "C06.1": "layout tables agree (SA): recovery walks every file in units of DEFAULT_BLOCK_SIZE and rebuilds blocks with limit = DEFAULT_BLOCK_SIZE; every Block the allocator hands out "
             "must therefore have limit = DEFAULT_BLOCK_SIZE and advance the file offset by that stride; a block whose limit is a runtime multiple of it is mis-strided after a restart",
    "C06.2": "scan completeness (contradiction rule): inside the per-file unit loop of startup_chore, a unit that cannot be parsed must be skipped (advance to the next unit), never end "
             "the scan of the file: the allocator hands out units whether or not they are ever written, so an unreadable unit can precede live ones. Every exit edge of the unit loop "
             "other than the loop condition is a violation",
    "C06.3": "the entry scan of a recovered unit stays inside the unit (loop bound): recovery re-creates every block with limit = DEFAULT_BLOCK_SIZE and visits every unit of the file as "
             "a block of its own, so the loop that walks the entries of one unit (the loop around Block::read on the per-unit stub) must leave through a test of the very offset it "
             "reads at against DEFAULT_BLOCK_SIZE before it can iterate again. Without that bound a unit that is filled to its last byte runs on into the next unit, whose entries are "
             "then recovered twice (once as the tail of this block, once as their own block) or attributed to a foreign topic",
    "C06.4": "reads do not depend on a layout field that a restart changes: while the allocator can hand out blocks whose limit differs from the limit recovery re-creates them with "
             "(C06.1), no function on the read / recovery side (Block::read, read_next, batch_read_for_topic, the recovery scan and recount, and what they call outside the writer "
             "and allocator modules) may load Block.limit. A reader that consults the limit answers differently for the same bytes before and after a restart",
    "C06.5": "recovery visits every unit: the offset of the per-file unit loop is advanced, at every site, by exactly DEFAULT_BLOCK_SIZE - or by the recovered block's used bytes rounded "
             "UP to whole units through a recognised idiom (div_ceil, next_multiple_of, (x + D - 1) / D * D, each at least one unit). Any other stride expression is reported: a stride "
             "that overshoots for some fill level (x / D + 1 for an exactly full block) jumps over a unit that holds acknowledged entries, one that undershoots re-reads payload bytes "
             "as headers",
    "C06.6": "a consumer's persisted position is mapped back to the recovered chain by block identity (= C09.3): every store to the cursor's chain index is a constant, the chain "
             "length, +1, derived from the persisted sealed index, or the result of a search over the chain by block id - helpers are looked into",
}


def _block_aggs(b):
    out = []
    for site, st in b.assigns():
        rv = st["rv"]
        if rv["k"] == "agg" and rv.get("akind") == "adt" and rv.get("name", "").endswith("block::Block"):
            fields = dict(zip(rv.get("fields", []), rv["ops"]))
            out.append((site, fields))
    return out


def check_layout(ctx, facts):
    D = facts.const_val("config::DEFAULT_BLOCK_SIZE")
    rec = facts.body("walrus::Walrus::startup_chore")
    ctx.saw_body(rec)
    # recovery side
    rec_limits = set()
    for site, fields in _block_aggs(rec):
        v = fmtfeat.const_eval(expr(rec, fields["limit"]))
        rec_limits.add(v)
    strides = set()
    for site, st in rec.assigns():
        if not st["place"]["p"] and rec.local_name(st["place"]["l"]) and st["rv"]["k"] == "use":
            e = strip_refs(expr(rec, st["rv"]["op"]))
            if e[0] == "Add" and strip_refs(e[1])[0] == "v" and strip_refs(e[1])[1] == st["place"]["l"]:
                k = fmtfeat.const_eval(e[2])
                if k is not None and k >= 4096:
                    strides.add(k)
                elif k is None and "block_offset" == rec.local_name(st["place"]["l"]):
                    strides.add(show(e[2])[:40])
    if not strides and unit_iter_loop(facts, rec) is not None:
        strides = {D}       # the offsets come from an iterator over the multiples of DEFAULT_BLOCK_SIZE
    if rec_limits == {D} and strides == {D}:
        ctx.ok("C06.1", "walrus::Walrus::startup_chore", "recovery: block limit = stride = DEFAULT_BLOCK_SIZE (%d)" % D, rec.relfile, rec.line)
    else:
        ctx.violate("C06.1", "walrus::Walrus::startup_chore", "recovery-layout", rec.relfile, rec.line, "recovery uses limits %s and strides %s" % (rec_limits, strides))
    # allocator side
    n = 0
    for fn in ("allocator::BlockAllocator::new", "allocator::BlockAllocator::get_next_available_block", "allocator::BlockAllocator::alloc_block"):
        b = facts.body(fn)
        ctx.saw_body(b)
        for site, fields in _block_aggs(b):
            n += 1
            e = expr(b, fields["limit"])
            v = fmtfeat.const_eval(e)
            if v == D:
                ctx.ok("C06.1", fn, "hands out blocks with limit = DEFAULT_BLOCK_SIZE", b.relfile, site.line)
            else:
                ctx.violate("C06.1", fn, "block-limit-differs-from-recovery-stride", b.relfile, site.line,
                            "the allocator builds a Block with limit = %s while recovery re-creates every block with limit = stride = DEFAULT_BLOCK_SIZE: an entry larger than one unit "
                            "makes the following unit(s) look like garbage or like separate blocks after a restart" % show(strip_refs(e))[:80])
        # offset steps: stores to (*data).offset += X
        for site, st in b.assigns():
            p = st["place"]
            if p["p"] and isinstance(p["p"][-1], dict) and p["p"][-1].get("n") == "offset" and p["p"][-1].get("o", "").endswith("block::Block") and st["rv"]["k"] == "use":
                e = strip_refs(expr(b, st["rv"]["op"]))
                if e[0] == "Add":
                    n += 1
                    k = fmtfeat.const_eval(e[2])
                    if k == D:
                        ctx.ok("C06.1", fn, "advances the file offset by DEFAULT_BLOCK_SIZE", b.relfile, site.line)
                    else:
                        ctx.violate("C06.1", fn, "offset-step-differs-from-recovery-stride", b.relfile, site.line,
                                    "the allocator advances the file offset by %s; recovery strides by DEFAULT_BLOCK_SIZE" % show(e[2])[:60])
    ctx.floor("C06.1", "allocator layout sites", n, 2)


def check_cursor_limit(ctx, facts, rid="C06.1"):
    """The allocator's own record (`next_block`) is handed out by `clone()` to every new topic: its `limit` stays one unit.
    Every store to the `limit` field of that record, in any allocator function, is the constant DEFAULT_BLOCK_SIZE - a
    multi-unit allocation builds its own Block value and leaves the record's limit alone."""
    D = facts.const_val("config::DEFAULT_BLOCK_SIZE")
    n = 0
    for fn_ in ("allocator::BlockAllocator::new", "allocator::BlockAllocator::get_next_available_block", "allocator::BlockAllocator::alloc_block"):
        try:
            b = facts.body(fn_)
        except Exception:
            continue
        n += 1
        for site, st in b.assigns():
            p_ = st["place"]
            if any(e == "*" for e in p_["p"]) and p_["p"] and isinstance(p_["p"][-1], dict) and p_["p"][-1].get("n") == "limit" and str(p_["p"][-1].get("o", "")).endswith("block::Block"):
                v = fmtfeat.const_eval(strip_refs(expr(b, st["rv"]["op"]))) if st["rv"]["k"] in ("use", "cast") else None
                if v == D:
                    ctx.ok(rid, fn_, "the allocator record's limit is set to DEFAULT_BLOCK_SIZE", b.relfile, site.line)
                else:
                    ctx.violate(rid, fn_, "allocator-record-limit-not-one-unit", b.relfile, site.line,
                                "%s stores %s into the limit of the allocator's own block record: the next topic created is handed a copy of that record with an oversized limit "
                                "on a one-unit reservation, its writer runs on into the following unit and overwrites another topic's block"
                                % (fn_.split("::")[-1], show(strip_refs(expr(b, st["rv"]["op"])))[:60] if st["rv"]["k"] in ("use", "cast") else st["rv"]["k"]))
    ctx.floor(rid, "allocator functions inspected for stores to the record's limit", n, 2)


def check_alloc_rounding(ctx, facts, rid="C06.1"):
    """alloc_block reserves whole units: the number of units is the request rounded UP to DEFAULT_BLOCK_SIZE by a recognised
    idiom ((x + D - 1) / D, (x - 1) / D + 1 with x > 0 established, div_ceil, next_multiple_of).  `x / D + 1` reserves a
    unit too many for an exact multiple: recovery, which rebuilds block ids by counting units, then numbers every later
    block one higher than the running process did, and persisted tail positions (block id) point at the wrong block."""
    D = facts.const_val("config::DEFAULT_BLOCK_SIZE")
    try:
        b = facts.body("allocator::BlockAllocator::alloc_block")
    except Exception:
        ctx.anchor_missing(rid, "allocator::BlockAllocator::alloc_block")
        return
    n = 0
    for site, st in b.assigns():
        rv = st["rv"]
        if not (rv["k"] == "bin" and str(rv["op"]) in ("Mul", "MulWithOverflow")):
            continue
        ea, eb = strip_refs(expr(b, rv["a"])), strip_refs(expr(b, rv["b"]))
        if fmtfeat.const_eval(eb) == D:
            units = ea
        elif fmtfeat.const_eval(ea) == D:
            units = eb
        else:
            continue
        n += 1
        sh = show(units, 10)
        ok = bool(re.match(r"^Div\(Sub\(Add\(\w+, %d\), 1\), %d\)$" % (D, D), sh) or re.match(r"^Div\(Add\(\w+, %d\), %d\)$" % (D - 1, D), sh)
                  or re.search(r"div_ceil\(|next_multiple_of\(", sh))
        if ok:
            ctx.ok(rid, "allocator::BlockAllocator::alloc_block", "units = request rounded up to whole units (%s)" % sh[:60], b.relfile, site.line)
        else:
            ctx.violate(rid, "allocator::BlockAllocator::alloc_block", "allocation-rounding-not-a-ceiling", b.relfile, site.line,
                        "alloc_block sizes the reservation as (%s) units: not a recognised round-up of the request to whole units. `x / D + 1` reserves one unit too many for an "
                        "exact multiple; recovery numbers blocks by counting units, so after a restart every later block has another id than before and persisted tail positions "
                        "name the wrong block" % sh[:70])
    ctx.floor(rid, "unit computations in alloc_block", n, 1)


def unit_iter_loop(facts, b):
    """The per-file unit loop written over an iterator: `for off in (0..N).map(|u| u * DEFAULT_BLOCK_SIZE)` (or
    `.step_by(DEFAULT_BLOCK_SIZE)` over `0..MAX_FILE_SIZE`).  Returns (next-call site, loop blocks, Some edge, None edge) or None.
    Such a loop visits every unit by construction: the offsets are the multiples of the unit size below the file size."""
    MAXF = facts.const_val("config::MAX_FILE_SIZE")
    D = facts.const_val("config::DEFAULT_BLOCK_SIZE")
    for c in b.calls(re.compile(r"Iterator>?::next$")):
        rl = borrowed_local(b, c.node["args"][0]) if c.node["args"] else None
        rty = b.local_ty(rl) if rl is not None else ""
        ok = False
        src, _, _ = origins(b, c.node["args"][0], follow_all_calls=True) if c.node["args"] else (set(), None, None)
        consts = {o.what for o in src if o.kind == "const" and isinstance(o.what, int)}
        if "iter::Map<std::ops::Range<" in rty and (MAXF // D) in consts:
            # the mapping closure multiplies by the unit size
            for o in src:
                pass
            for site, st in b.assigns():
                rv = st["rv"]
                if rv["k"] == "agg" and rv.get("akind") == "closure":
                    cb = facts.bodies.get(rv.get("name"))
                    if cb is None:
                        continue
                    for s2, st2 in cb.assigns():
                        r2 = st2["rv"]
                        if r2["k"] == "bin" and r2["op"] in ("Mul", "MulWithOverflow") and (fmtfeat.const_eval(strip_refs(expr(cb, r2["a"]))) == D or fmtfeat.const_eval(strip_refs(expr(cb, r2["b"]))) == D):
                            ok = True
        if "iter::StepBy<std::ops::Range<" in rty and MAXF in consts and D in consts:
            ok = True
        if "iter::TakeWhile<std::iter::Map<std::ops::RangeFrom<" in rty:
            # `(0..).map(|u| u * D).take_while(|o| o + D <= MAX)`: one closure multiplies by the unit size, the other keeps
            # the offsets whose unit still fits in the file
            mul = fits = False
            for site, st in b.assigns():
                rv = st["rv"]
                if rv["k"] == "agg" and rv.get("akind") == "closure":
                    cb = facts.bodies.get(rv.get("name"))
                    if cb is None:
                        continue
                    for s2, st2 in cb.assigns():
                        r2 = st2["rv"]
                        if r2["k"] != "bin":
                            continue
                        ea, eb = strip_refs(expr(cb, r2["a"])), strip_refs(expr(cb, r2["b"]))
                        if r2["op"] in ("Mul", "MulWithOverflow") and D in (fmtfeat.const_eval(ea), fmtfeat.const_eval(eb)):
                            mul = True
                        if ea[0] == "call" and ea[1].endswith("::add") and len(ea[2]) == 2:
                            ea = ("Add", strip_refs(ea[2][0]), ea[2][1])        # `&u64 + u64` goes through the trait
                        if r2["op"] == "Le" and fmtfeat.const_eval(eb) == MAXF and ea[0] == "Add" and fmtfeat.const_eval(ea[2]) == D:
                            fits = True
            ok = mul and fits and 0 in consts
        if not ok:
            continue
        loop = b.natural_loop(c.bb)
        hb = c.bb
        for _ in range(4):
            if loop and c.bb in loop:
                break
            hb = b.idom[hb]
            loop = b.natural_loop(hb)
        if not loop:
            continue
        some_e = none_e = None
        for T in all_tests(b):
            if T.kind == "discr" and not T.place["p"] and T.place["l"] == c.node["dest"]["l"]:
                some_e = T.variant_edges.get(1)
                none_e = T.variant_edges.get(0) or ((T.bb, T.otherwise) if T.otherwise is not None else None)
        return c, loop, some_e, none_e
    return None


def check_scan(ctx, facts, rid="C06.2"):
    b = facts.body("walrus::Walrus::startup_chore")
    F = "walrus::Walrus::startup_chore"
    MAXF = facts.const_val("config::MAX_FILE_SIZE")
    D = facts.const_val("config::DEFAULT_BLOCK_SIZE")
    header = None
    for T in all_tests(b):
        if T.kind == "cmp" and T.op in ("Le", "Lt", "Gt", "Ge"):
            ea, eb = strip_refs(expr(b, T.a)), strip_refs(expr(b, T.b))
            if fmtfeat.const_eval(eb) == MAXF and ea[0] == "Add" and fmtfeat.const_eval(ea[2]) == D:
                header = T
    if header is None:
        it = unit_iter_loop(facts, b)
        if it is None:
            ctx.anchor_missing(rid, "unit loop `block_offset + DEFAULT_BLOCK_SIZE <= MAX_FILE_SIZE` in startup_chore")
            return
        nxt, loop, some_e, none_e = it
        n_bad = 0
        for (u, v) in b.loop_exits(loop):
            if none_e is not None and (u, v) == none_e:
                continue
            if b.term(v)["k"] == "unreachable" or b.is_cleanup(v):
                continue
            T, which = classify_edge(b, (u, v))
            if T is not None and T.kind == "discr" and not T.place["p"] and T.place["l"] == nxt.node["dest"]["l"]:
                continue    # the iterator is exhausted
            n_bad += 1
            ctx.violate(rid, F, "scan-stops-at-unparseable-unit:iterator-loop-left-early", b.relfile, b.term(u)["line"],
                        "the unit loop (an iteration over the unit offsets of the file) is left before the iterator is exhausted: recovery stops scanning this file, although later "
                        "units may hold live blocks")
        if n_bad == 0:
            ctx.ok(rid, F, "the unit loop iterates over every unit offset of the file and is left only when the iterator is exhausted", b.relfile, nxt.line)
        ctx.floor(rid, "blocks in the unit loop", len(loop), 10)
        return
    hb = header.bb
    loop = b.natural_loop(hb)
    for _ in range(6):
        if loop and header.bb in loop:
            break
        hb = b.idom[hb]
        loop = b.natural_loop(hb)
    if not loop or header.bb not in loop:
        ctx.anchor_missing(rid, "natural loop of the unit scan")
        return
    exits = b.loop_exits(loop)
    n_bad = 0
    n_skip = 0
    for (u, v) in exits:
        if u == header.bb:
            continue   # the loop condition itself
        if b.term(v)["k"] == "unreachable" or b.is_cleanup(v):
            continue
        T, which = classify_edge(b, (u, v))
        # describe the condition
        desc = "?"
        if T is not None:
            if T.kind == "cmp":
                desc = "%s %s %s is %s" % (show(strip_refs(expr(b, T.a)))[:40], T.op, show(strip_refs(expr(b, T.b)))[:20], which)
            elif T.kind == "call":
                desc = "%s(..) is %s" % (T.callee.split("::")[-1], which)
            elif T.kind == "discr":
                cs = call_site_of(b, {"k": "copy", "place": T.place})
                desc = "result of %s is variant %s" % (callee_name(cs.node).split("::")[-1] if cs else show(place_expr(b, T.place))[:30], which)
        # an exit that is an error return is a different matter (C07.2); a plain break ends the scan of this file
        n_bad += 1
        key = re.sub(r"[^A-Za-z0-9_=<>.]+", "-", desc)[:60]
        ctx.violate(rid, F, "scan-stops-at-unparseable-unit:" + key, b.relfile, b.term(u)["line"],
                    "the unit loop is left (`break`) when %s: recovery stops scanning this file, although later units may hold live blocks (units are handed out whether or not they "
                    "are ever written, e.g. a writer created for a topic whose first append was rejected); everything after the unreadable unit is lost after a restart" % desc)
    # positive: the branch that skips a unit with an invalid header advances and continues
    for site, st in b.assigns():
        if site.bb in loop and not st["place"]["p"] and st["rv"]["k"] == "use":
            e = strip_refs(expr(b, st["rv"]["op"]))
            if e[0] == "Add" and fmtfeat.const_eval(e[2]) == D:
                n_skip += 1
    if n_skip >= 2:
        ctx.ok(rid, F, "the unit loop has %d `advance by one unit` sites (skip + normal step)" % n_skip, b.relfile, b.term(header.bb)["line"])
    if n_bad == 0:
        ctx.ok(rid, F, "no exit from the unit loop other than its condition", b.relfile, b.term(header.bb)["line"])
    ctx.floor(rid, "blocks in the unit loop", len(loop), 10)


def check_entry_scan_bound(ctx, facts, rid="C06.3"):
    b = facts.body("walrus::Walrus::startup_chore")
    F = "walrus::Walrus::startup_chore"
    D = facts.const_val("config::DEFAULT_BLOCK_SIZE")
    n = 0
    for c in b.calls(re.compile(r"block::Block::read$")):
        hb, L = c.bb, None
        for _ in range(16):
            L = b.natural_loop(hb)
            if L and c.bb in L:
                break
            L = None
            if b.idom.get(hb) is None or b.idom[hb] == hb:
                break
            hb = b.idom[hb]
        if L is None:
            continue
        n += 1
        back_src = [u for u in L if hb in b.succ[u]]
        exits = set(b.loop_exits(L))
        # the scan offsets: u64 locals that are advanced inside the loop (x = x + amount)
        advanced = set()
        for site, st in b.assigns():
            if site.bb in L and not st["place"]["p"] and st["rv"]["k"] == "use" and b.local_ty(st["place"]["l"]) == "u64":
                e = strip_refs(expr(b, st["rv"]["op"]))
                if e[0] == "Add" and b.local_name(st["place"]["l"]) and b.local_name(st["place"]["l"]) in (show(strip_refs(e[1])), show(strip_refs(e[2]))):
                    advanced.add(st["place"]["l"])
        off = op_local(b.resolve_copy(c.node["args"][1]))
        if off is not None:
            advanced.add(off)
        bound = None
        weak = None
        for T in all_tests(b):
            if T.kind != "cmp" or T.bb not in L or T.op not in ("Ge", "Gt", "Lt", "Le"):
                continue
            la, lb = op_local(b.resolve_copy(T.a)), op_local(b.resolve_copy(T.b))
            ca = fmtfeat.const_eval(strip_refs(expr(b, T.a))) if la is None else None
            cb = fmtfeat.const_eval(strip_refs(expr(b, T.b))) if lb is None else None
            if not ((la in advanced and cb == D) or (lb in advanced and ca == D)):
                continue
            if not (T.true_edge in exits or T.false_edge in exits):
                continue
            # the edge on which the scan goes on must imply offset < D (strictly: at offset == D the next unit begins)
            op = T.op if (la in advanced) else {"Lt": "Gt", "Le": "Ge", "Gt": "Lt", "Ge": "Le"}[T.op]
            cont_edge = T.false_edge if T.true_edge in exits else T.true_edge
            cont_when_true = cont_edge == T.true_edge
            strict = (op == "Lt" and cont_when_true) or (op == "Ge" and not cont_when_true)
            if not strict:
                weak = T
                continue
            if all(b.dominates(T.bb, u) for u in back_src):
                bound = T
        if bound is not None:
            ctx.ok(rid, F, "the entry scan leaves the unit when its read offset reaches DEFAULT_BLOCK_SIZE", b.relfile, b.term(bound.bb).get("line"))
        elif weak is not None:
            ctx.violate(rid, F, "entry-scan-bound-off-by-one", b.relfile, b.term(weak.bb).get("line"),
                        "the entry scan of a recovered unit goes on when its read offset EQUALS DEFAULT_BLOCK_SIZE: for a unit filled to its last byte the next read is the first "
                        "entry of the following unit, which is then counted into this block as well as recovered as a block of its own")
        else:
            ctx.violate(rid, F, "entry-scan-not-bounded-by-unit", b.relfile, c.line,
                        "the loop that scans the entries of one recovered unit can iterate again without having compared its read offset with DEFAULT_BLOCK_SIZE: a unit filled to its "
                        "last byte is scanned on into the following unit, whose entries are then recovered twice or under the wrong topic")
    ctx.floor(rid, "entry-scan loops in startup_chore", n, 1)


def check_scan_stride(ctx, facts, rid="C06.5"):
    b = facts.body("walrus::Walrus::startup_chore")
    F = "walrus::Walrus::startup_chore"
    MAXF = facts.const_val("config::MAX_FILE_SIZE")
    D = facts.const_val("config::DEFAULT_BLOCK_SIZE")
    off = None
    hdr = None
    for T in all_tests(b):
        if T.kind == "cmp" and T.op in ("Le", "Lt", "Gt", "Ge"):
            ea, eb = strip_refs(expr(b, T.a)), strip_refs(expr(b, T.b))
            if fmtfeat.const_eval(eb) == MAXF and ea[0] == "Add" and fmtfeat.const_eval(ea[2]) == D and strip_refs(ea[1])[0] == "v":
                off = strip_refs(ea[1])[1]
                hdr = T
    if off is None:
        it = unit_iter_loop(facts, b)
        if it is not None:
            ctx.ok(rid, F, "the unit offsets are produced by an iterator over the multiples of DEFAULT_BLOCK_SIZE below MAX_FILE_SIZE: every unit is visited", b.relfile, it[0].line)
            ctx.floor(rid, "advances of the unit loop offset", 1, 1)
            return
        ctx.anchor_missing(rid, "offset local of the unit loop in startup_chore")
        return
    hb, L = b.enclosing_loop(hdr.bb)
    n = 0
    for site, kind, node in b.defs.get(off, []):
        if kind != "assign" or (L is not None and site.bb not in L):
            continue
        rv = node["rv"]
        if rv["k"] not in ("use", "cast"):
            continue
        e = strip_refs(expr(b, rv["op"]))
        if fmtfeat.const_eval(e) is not None:
            continue   # initialisation
        n += 1
        name = b.local_name(off) or "offset"
        good = None
        if e[0] == "Add":
            for base, amt in ((e[1], e[2]), (e[2], e[1])):
                if show(strip_refs(base)) != name:
                    continue
                amt = strip_refs(amt)
                if fmtfeat.const_eval(amt) == D:
                    good = "one unit"
                else:
                    sh = show(amt, 10)
                    if re.search(r"next_multiple_of\(.*, %d\)" % D, sh) or re.search(r"Mul\((max\()?div_ceil\(.*, %d\)" % D, sh) \
                            or re.search(r"Mul\(Div\(Sub\(Add\(.*, %d\), 1\), %d\), %d\)" % (D, D, D), sh) or re.search(r"Mul\(Div\(Add\(.*, %d\), %d\), %d\)" % (D - 1, D, D), sh):
                        good = "used bytes rounded up to whole units"
        if good:
            ctx.ok(rid, F, "unit offset advances by " + good, b.relfile, site.line)
        else:
            ctx.violate(rid, F, "recovery-stride", b.relfile, site.line,
                        "the unit loop advances its offset by %s, which is neither one unit nor a recognised round-up of the block's used bytes to whole units: for some fill level the scan "
                        "skips a unit that was handed out (its acknowledged entries are gone after the restart) or lands inside a payload" % show(e, 8)[:100])
    ctx.floor(rid, "advances of the unit loop offset", n, 1)


def check_read_side_ignores_limit(ctx, facts, rid="C06.4"):
    D_ = facts.const_val("config::DEFAULT_BLOCK_SIZE")
    differs = False
    for fn_ in ("allocator::BlockAllocator::new", "allocator::BlockAllocator::get_next_available_block", "allocator::BlockAllocator::alloc_block"):
        try:
            ab = facts.body(fn_)
        except Exception:
            continue
        for site, fields in _block_aggs(ab):
            if fmtfeat.const_eval(expr(ab, fields["limit"])) != D_:
                differs = True
    if not differs:
        ctx.ok(rid, "read side", "vacuous: the allocator never hands out a block whose limit differs from recovery's (C06.1 holds)", None, None, trivial=True)
        return
    roots = ["block::Block::read", "read_next", "batch_read_for_topic", "walrus::Walrus::startup_chore", "walrus::Walrus::rebuild_topic_entry_counts_after_recovery"]
    names = set()
    for r in roots:
        b = facts.body(r)
        names |= facts.closure_reach(b.name) | {b.name}
    n = 0
    for nm in sorted(names):
        b = facts.bodies[nm]
        F = common.short_fn(nm)
        if b.j.get("derived") or re.search(r"(^|::)(writer|allocator)::", F):
            continue
        n += 1
        for site in b.field_loads("block::Block", "limit"):
            ctx.violate(rid, F, "read-side-depends-on-block-limit", b.relfile, site.line,
                        "%s loads Block.limit: recovery re-creates every block with limit = DEFAULT_BLOCK_SIZE while the allocator hands out larger blocks for large entries, so this "
                        "code treats the same on-disk entry differently before and after a restart" % F)
    ctx.floor(rid, "read/recovery-side bodies inspected", n, 3)
    ctx.ok(rid, "read side", "bodies on the read/recovery side inspected for loads of Block.limit: %d" % n, None, None)


def run(ctx):
    for k, v in RULES.items():
        ctx.rule(k, v)
    facts = common.mir(ctx, "walrus_rust")
    check_layout(ctx, facts)
    check_cursor_limit(ctx, facts)
    check_alloc_rounding(ctx, facts)
    check_scan(ctx, facts)
    check_entry_scan_bound(ctx, facts)
    check_scan_stride(ctx, facts)
    check_read_side_ignores_limit(ctx, facts)
    from .c09 import check_position_translation
    check_position_translation(ctx, facts, rid="C06.6")
    ctx.assume("NOT decided: cursor translation across recovery's synthetic block ids, counts after restart, file ordering under clock regression (names come from wall-clock milliseconds)")
    return {
        "explanation": "sibling agreement between the allocator's block layout and the recovery scan's stride/limit (symbolic expressions on MIR), and a loop-exit rule on the natural loop "
                       "of the per-file unit scan: a rejected unit must be skipped, not end the scan.",
    }
