"""On-disk entry format: feature vectors of the encoders and decoders, extracted from MIR
by symbolic expression reconstruction.  Used by the sibling-agreement rules of C01, C16,
C06 and C11."""
import re
from .core.mir import op_local, op_place, strip_generics, callee_name
from .core.symexpr import expr, place_expr, local_expr, show, strip_refs, linear
from .core.cond import all_tests, borrowed_local, result_edges


def const_eval(e):
    e = strip_refs(e)
    if not isinstance(e, tuple):
        return None
    if e[0] == "c" and isinstance(e[1], int):
        return e[1]
    if e[0] in ("Add", "Sub", "Mul", "Shl", "Shr", "BitAnd", "BitOr", "Div", "Rem") and len(e) == 3:
        a, b = const_eval(e[1]), const_eval(e[2])
        if a is None or b is None:
            return None
        if e[0] in ("Div", "Rem") and b == 0:
            return None
        return {"Add": a + b, "Sub": a - b, "Mul": a * b, "Shl": a << b, "Shr": a >> b, "BitAnd": a & b, "BitOr": a | b,
                "Div": a // b if b else None, "Rem": a % b if b else None}[e[0]]
    return None


def _contains(e, pred):
    if pred(e):
        return True
    if isinstance(e, tuple):
        for x in e[1:]:
            if isinstance(x, tuple) and _contains(x, pred):
                return True
            if isinstance(x, list) and any(isinstance(y, tuple) and _contains(y, pred) for y in x):
                return True
            if isinstance(x, dict) and any(_contains(y, pred) for y in x.values()):
                return True
    return False


def _is_call(e, suffix):
    return isinstance(e, tuple) and e and e[0] == "call" and e[1].endswith(suffix)


def _replace(e, pred, repl):
    if pred(e):
        return repl
    if isinstance(e, tuple):
        out = []
        for x in e:
            if isinstance(x, tuple):
                out.append(_replace(x, pred, repl))
            elif isinstance(x, list):
                out.append([_replace(y, pred, repl) if isinstance(y, tuple) else y for y in x])
            elif isinstance(x, dict):
                out.append({k: _replace(v, pred, repl) for k, v in x.items()})
            else:
                out.append(x)
        return tuple(out)
    return e


# --------------------------------------------------------------------------------------
# encoders
# --------------------------------------------------------------------------------------
def encoder_features(body):
    """Feature vector of a body that builds a `Metadata`, serialises it and writes the
    2-byte-length-prefixed header followed by the payload."""
    f = {}
    metas = [(site, st) for site, st in body.assigns() if st["rv"]["k"] == "agg" and st["rv"].get("name", "").endswith("block::Metadata")]
    if len(metas) != 1:
        return None
    msite, mst = metas[0]
    me = local_expr(body, mst["place"]["l"])
    data_e = None
    fields = me[3]
    # data = the slice whose len() is read_size
    rs = strip_refs(fields.get("read_size"))
    if rs and rs[0] == "len":
        data_e = strip_refs(rs[1])
    is_data = lambda x: data_e is not None and strip_refs(x) == data_e
    norm = {}
    for k, v in fields.items():
        v2 = _replace(v, is_data, ("v", -1, "DATA"))
        s = show(v2)
        s = re.sub(r"\bself\.col\b|\bowned_by\b", "TOPIC", s)
        if k == "next_block_start":
            # either the caller passes offset+limit or it is computed here from the planned block
            s = "NEXT" if (re.search(r"offset.*limit|limit.*offset", s) or s == "next_block_start") else s
        norm[k] = s
    f["metadata"] = norm
    # serializer
    ser = body.calls(re.compile(r"rkyv::to_bytes$|ser::serializers.*to_bytes$"))
    f["serializer"] = sorted({(s.node.get("callee_generic") or callee_name(s.node)) for s in ser})
    meta_bytes = None
    if ser:
        meta_bytes = ser[0].node["dest"]["l"]
    def is_meta(x):
        # the serialized metadata bytes: to_bytes(..) possibly wrapped by map_err / `?` / Ok-projection
        if not isinstance(x, tuple) or not x:
            return False
        if x[0] in ("variant", "field") or (x[0] == "call" and x[1].split("::")[-1] in ("to_bytes", "map_err", "branch", "unwrap", "expect")):
            return _contains(x, lambda y: _is_call(y, "to_bytes"))
        return False
    # prefix buffer
    pref = body.calls(re.compile(r"vec::from_elem$"))
    f["prefix_alloc"] = sorted(const_eval(expr(body, s.node["args"][1])) for s in pref if const_eval(expr(body, s.node["args"][1])) is not None)
    # byte stores into the prefix buffer
    stores = {}
    for site, st in body.assigns():
        p = st["place"]
        if p["p"] == ["*"] and st["rv"]["k"] in ("use", "cast"):
            tgt = place_expr(body, p)
            if tgt[0] == "idx" and _contains(tgt[1], lambda y: _is_call(y, "from_elem")):
                idx = const_eval(tgt[2])
                val = _replace(expr(body, st["rv"]["op"]), is_meta, ("v", -2, "META"))
                stores[idx] = show(val)
    f["len_bytes"] = stores
    # metadata copy range and guard
    rng = []
    for s in body.calls(re.compile(r"copy_from_slice$")):
        d = expr(body, s.node["args"][0])
        srcs = _replace(expr(body, s.node["args"][1]), is_meta, ("v", -2, "META"))

        def find_range(e):
            if isinstance(e, tuple) and e and e[0] == "agg" and e[1] == "Range":
                return e
            if isinstance(e, tuple):
                for x in e[1:]:
                    if isinstance(x, tuple):
                        r = find_range(x)
                        if r:
                            return r
            return None
        r = find_range(d)
        if r:
            st_ = _replace(r[3]["start"], is_meta, ("v", -2, "META"))
            en_ = _replace(r[3]["end"], is_meta, ("v", -2, "META"))
            rng.append((show(st_), show(en_), show(strip_refs(srcs))))
    f["meta_copy"] = rng
    guards = []
    for T in all_tests(body):
        if T.kind == "cmp" and T.op in ("Gt", "Ge", "Lt", "Le"):
            a = _replace(expr(body, T.a), is_meta, ("v", -2, "META"))
            if show(strip_refs(a)) in ("len(META)", "len(ref(META))"):
                bound = const_eval(expr(body, T.b))
                # the failing edge must lead to an Err return without performing the write
                guards.append((T.op, bound, T))
    f["guard"] = sorted((op, b) for op, b, _ in guards)
    f["_guard_tests"] = guards
    # combined buffer: order of extend_from_slice
    comb = []
    for s in body.calls(re.compile(r"Vec::extend_from_slice$")):
        src = strip_refs(_replace(expr(body, s.node["args"][1]), is_data, ("v", -1, "DATA")))
        comb.append("PREFIX" if _contains(src, lambda y: _is_call(y, "from_elem")) else show(src))
    f["_write_layout"] = "one write of prefix+payload" if comb else None
    if not comb:
        # header and payload handed to the storage layer separately: prefix at X, payload at X + PREFIX
        ws = sorted(body.calls(re.compile(r"SharedMmap::write$")), key=lambda c: (len(body.dom_depth(c.bb)) if hasattr(body, "dom_depth") else 0, c.bb))
        parts = []
        for c in ws:
            buf = strip_refs(_replace(expr(body, c.node["args"][2]), is_data, ("v", -1, "DATA")))
            kind = "PREFIX" if _contains(buf, lambda y: _is_call(y, "from_elem")) else ("DATA" if show(buf) == "DATA" else show(buf)[:30])
            parts.append((kind, strip_refs(expr(body, c.node["args"][1])), c))
        pre = [p for p in parts if p[0] == "PREFIX"]
        dat = [p for p in parts if p[0] == "DATA"]
        if len(pre) == 1 and len(dat) == 1 and len(parts) == 2 and body.dominates(pre[0][2].bb, dat[0][2].bb):
            lp, ld = linear(pre[0][1]), linear(dat[0][1])
            pm = f["prefix_alloc"][0] if f["prefix_alloc"] else None
            if lp is not None and ld is not None and lp[0] == ld[0] and pm is not None and ld[1] - lp[1] == pm:
                comb = ["PREFIX", "DATA"]
                f["_write_layout"] = "two writes: prefix at X, payload at X + PREFIX_META_SIZE"
                f["_split_writes"] = (pre[0][2], dat[0][2])
    f["combined_order"] = comb
    f["_meta_site"] = msite
    return f


def encoder_public(f):
    return {k: v for k, v in f.items() if not k.startswith("_")}


# --------------------------------------------------------------------------------------
# decoders
# --------------------------------------------------------------------------------------
def decode_sites(body):
    """Every `rkyv::archived_root::<Metadata>` (or check_archived_root) call in the body."""
    out = []
    for s in body.calls(re.compile(r"rkyv::(archived_root|check_archived_root|validation::validators::check_archived_root|util::archived_root)$")):
        g = s.node.get("callee_generic") or ""
        if "Metadata" in g:
            out.append(s)
    return out


def all_decode_sites(facts):
    """(body, site) for every Metadata header decode in the crate (any body: a shared helper
    counts once, however many readers call it)."""
    out = []
    for name in sorted(facts.bodies):
        b = facts.bodies[name]
        if b.j.get("derived"):
            continue
        for s in decode_sites(b):
            out.append((b, s))
    return out


def consumers_reach_decode(facts, consumers):
    """For each consumer body name: does it contain, or reach through the crate's call graph, a
    header decode site?  The non-vacuity floor of the decoder rules."""
    have = {b.name for b, s in all_decode_sites(facts)}
    res = {}
    for fn in consumers:
        b = facts.body(fn)
        reach = facts.closure_reach(b.name) | {b.name}
        res[fn] = bool(reach & have)
    return res


def decoder_features(body, site):
    """Features of one header decode: where the length bytes come from, how the metadata
    range is cut and which bounds dominate it."""
    f = {"validated": "check_archived_root" in callee_name(site.node)}
    arg = expr(body, site.node["args"][0])
    # the aligned buffer: with_capacity(L); extend_from_slice(&buf[a..b])
    wc = None

    def find_wc(e):
        nonlocal wc
        if _is_call(e, "with_capacity") and wc is None:
            wc = e
        if isinstance(e, tuple):
            for x in e[1:]:
                if isinstance(x, tuple):
                    find_wc(x)
                elif isinstance(x, list):
                    for y in x:
                        if isinstance(y, tuple):
                            find_wc(y)
    find_wc(arg)
    if wc is None:
        return None
    L = strip_refs(wc[2][0])
    f["len_expr_raw"] = L
    # L = BitOr(buf[i], Shl(buf[j], k))
    lo = hi = shift = None
    base = None
    if L[0] == "BitOr":
        a, b = strip_refs(L[1]), strip_refs(L[2])
        if b[0] == "Shl":
            a_, b_ = a, strip_refs(b[1])
            shift = const_eval(b[2])
        elif a[0] == "Shl":
            a_, b_ = b, strip_refs(a[1])
            shift = const_eval(a[2])
        else:
            a_ = b_ = None
        if a_ is not None and a_[0] == "idx" and b_[0] == "idx":
            la, lb = linear(a_[2]), linear(b_[2])
            if la is not None and lb is not None and la[0] == lb[0]:
                lo, hi = 0, lb[1] - la[1]
                base = (a_[1], la)
    # L = u16::from_le_bytes([buf[i], buf[i+1]]) (as usize): the same little-endian pair
    Lc = L
    while isinstance(Lc, tuple) and Lc and Lc[0] == "cast":
        Lc = strip_refs(Lc[-1]) if isinstance(Lc[-1], tuple) else Lc
        break
    if lo is None and _is_call(Lc, "from_le_bytes") and Lc[2]:
        arr = strip_refs(Lc[2][0])
        elems = None
        if isinstance(arr, tuple) and arr and arr[0] == "array":
            elems = arr[1]
        elif isinstance(arr, tuple) and arr and arr[0] == "agg":
            elems = arr[3] if len(arr) > 3 else None
            if isinstance(elems, dict):
                elems = [elems[k] for k in sorted(elems)]
        if isinstance(elems, list) and len(elems) == 2:
            a_, b_ = strip_refs(elems[0]), strip_refs(elems[1])
            if a_[0] == "idx" and b_[0] == "idx":
                la, lb = linear(a_[2]), linear(b_[2])
                if la is not None and lb is not None and la[0] == lb[0]:
                    lo, hi, shift = 0, lb[1] - la[1], 8
                    base = (a_[1], la)
    f["len_bytes"] = {"lo": lo, "hi": hi, "shift": shift}
    f["_base"] = base
    # extend_from_slice source range relative to the base index
    rngs = []
    aligned_local = None
    for s in body.calls(re.compile(r"AlignedVec::extend_from_slice$")):
        if s.bb == site.bb or body.dominates(s.bb, site.bb):
            src = expr(body, s.node["args"][1])

            def find_range(e):
                if isinstance(e, tuple) and e and e[0] == "agg" and e[1] == "Range":
                    return e
                if isinstance(e, tuple):
                    for x in e[1:]:
                        if isinstance(x, tuple):
                            r = find_range(x)
                            if r:
                                return r
                return None
            r = find_range(src)
            if r and base is not None:
                st_, en_ = linear(r[3]["start"]), linear(r[3]["end"])
                Lk = show(L)
                if st_ is not None and en_ is not None:
                    bterms, bconst = base[1]
                    d_start = {k: v for k, v in st_[0].items() if bterms.get(k) != v}
                    d_end = {k: v for k, v in en_[0].items() if bterms.get(k) != v}
                    rngs.append({"start_off": st_[1] - bconst, "start_extra": sorted(d_start), "end_off": en_[1] - bconst,
                                 "end_has_len": any(Lk == k for k in d_end), "dist": body.idom and 0, "_bb": s.bb})
    # keep the nearest dominating extend (the one feeding this decode)
    if rngs:
        best = None
        for r in rngs:
            if best is None or body.dominates(best["_bb"], r["_bb"]):
                best = r
        f["meta_range"] = {k: v for k, v in best.items() if not k.startswith("_") and k != "dist"}
    else:
        f["meta_range"] = None
    # dominating bounds on L
    Ls = show(L)
    lower = upper = None
    for T in all_tests(body):
        if T.kind != "cmp":
            continue
        a, b = show(strip_refs(expr(body, T.a))), expr(body, T.b)
        if a != Ls:
            continue
        k = const_eval(b)
        if k is None:
            continue
        edges = {"t": T.true_edge, "f": T.false_edge}
        for which, e in edges.items():
            if not body.edge_guards(e, site.bb):
                continue
            truth = which == "t"
            op = T.op
            # facts implied about L on this edge
            if (op == "Eq" and not truth and k == 0) or (op == "Ne" and truth and k == 0) or (op == "Gt" and truth and k == 0) or (op == "Ge" and truth and k == 1):
                lower = max(lower or 0, 1)
            if (op == "Gt" and not truth) or (op == "Le" and truth):
                upper = k if upper is None else min(upper, k)
            if (op == "Ge" and not truth) or (op == "Lt" and truth):
                upper = (k - 1) if upper is None else min(upper, k - 1)
    f["len_bounds"] = {"lower": lower, "upper": upper}
    return f


def decoder_public(f):
    return {k: v for k, v in f.items() if not k.startswith("_") and k != "len_expr_raw"}
