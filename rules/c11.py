"""C11 - opening damaged WAL state never crashes and never returns corrupt data (partial)."""
import re
from .core import common
from .core.mir import op_local, op_place, strip_generics, callee_name
from .core.cond import all_tests, call_site_of, borrowed_local, const_of
from .core.slicing import origins, origin_calls
from .core.symexpr import expr, show, strip_refs, linear
from . import fmtfeat
from .c01 import check_checksum_gate

RULES = {
    "C11.5": "a leftover temporary file cannot leak into the cursor / marker files the next open parses: both persist routines produce the file with fs::write (create + truncate) on "
             "the temporary path, sync it and rename that very file over the target. A temporary that is opened without truncation keeps the tail of a longer leftover "
             "`*_index.db.tmp`; the loaders find the archive root from the END of the file, so the next open decodes the stale tail (abort on garbage, bogus cursors on a stale but "
             "well-formed tail)",
    "C11.1": "no unchecked deserialisation of disk bytes (WMC): rkyv::archived_root::<T> (unsafe, unvalidated) must not be applied to bytes that originate from a file read; "
             "rkyv::check_archived_root is the accepted idiom (the crate enables rkyv's validation feature)",
    "C11.2": "panic freedom of the open path (PF): every Assert terminator, unwrap/expect, indexing/slicing and allocation-by-length in the call-graph closure of Walrus::with_paths is "
             "discharged by a rule (constant operands, constant index into a fixed buffer, header length bounded 1..=PREFIX_META_SIZE-2 by dominating guards, index dominated by "
             "`i < len`) or by a frozen table row with its reason; an untriaged site is a violation",
    "C11.3": "untrusted length (SLICE + dominance): every allocation or slice whose size derives from the on-disk read_size is dominated by the pass edge of a comparison of that size "
             "against a buffer/file length",
    "C11.4": "checksum gate before any payload is handed out (= C01.3)",
}

FILE_READ = re.compile(r"SharedMmap::read$|^std::fs::read$|io_uring|opcode::Read")

# C11.2: table rows (function, kind, operands-regex) -> reason.  Confirmed by reading the pinned tree.
PF_TABLE = [
    (r"block::Block::read", r"assert:Overflow\(Add\)", r"^self\.offset \| in_block_offset$", "block offsets are < 2^30 and in-block offsets < 2^33 (the recovery scan stops at DEFAULT_BLOCK_SIZE + one entry of at most 2^32+256 bytes)"),
    (r"block::Block::read", r"assert:Overflow\(Add\)", r"^Add\(self\.offset, in_block_offset\) \| 256$", "same bound, plus the constant header size"),
    (r"block::Block::read", r"assert:Overflow\(Add\)", r"^256 \| .*read_size$", "read_size is archived as u32 (rkyv size_32, the crate's default feature set), so 256 + read_size < 2^33"),
    (r"block::Block::read", r"call:from_elem", r"read_size$", "C11.3 bounds read_size by the file length before this allocation"),
    (r"block::Block::read", r"call:(error|new)", r".*", "error construction"),
    (r"walrus::Walrus::startup_chore", r"assert:Overflow\(Add\)", r"^block_offset \| 10485760$", "the loop condition keeps block_offset + DEFAULT_BLOCK_SIZE <= MAX_FILE_SIZE (1 GiB)"),
    (r"walrus::Walrus::startup_chore", r"assert:Overflow\(Add\)", r"^(next_block_id|Add\(next_block_id, empty_units\)) \| 1$", "one increment per 10 MiB unit of the files present: far below 2^64"),
    (r"walrus::Walrus::startup_chore", r"assert:Overflow\(Add\)", r"^empty_units \| 1$", "at most MAX_FILE_SIZE / DEFAULT_BLOCK_SIZE = 100 increments per file; reset per file"),
    (r"walrus::Walrus::startup_chore", r"assert:Overflow\(Add\)", r"^next_block_id \| empty_units$", "both are bounded by the number of 10 MiB units in the files present"),
    (r"walrus::Walrus::startup_chore", r"assert:Overflow\(Add\)", r"^(used|in_block_off) \| read\(.*\) as Ok\.0\.1$", "consumed <= 256 + 2^32 per entry and the loop stops once in_block_off >= DEFAULT_BLOCK_SIZE"),
    (r"walrus::Walrus::startup_chore", r"call:index", r"chain \| next\(.*Range.*\) as Some\.0$", "i ranges over 0..ib and ib was clamped to chain.len() just above"),
    (r"allocator::BlockAllocator::fast_forward", r"assert:(MisalignedPointerDereference|NullPointerDereference).*", r".*", "dereference of UnsafeCell::get(), never null and always aligned"),
    (r"allocator::BlockAllocator::(new|get_next_available_block|alloc_block)", r"assert:(MisalignedPointerDereference|NullPointerDereference).*", r".*", "dereference of UnsafeCell::get(), never null and always aligned"),
    (r"allocator::BlockAllocator::fast_forward", r"assert:Overflow\(Sub\)", r"^next_id \| .*\.id$", "guarded by `next_id > data.id` (dominating test)"),
    (r"allocator::FileStateTracker::register_file_if_absent", r"call:expect", r"poisoned", "lock poisoning only"),
    (r"background::start_background_workers::\{closure#0\}", r".*", r".*", "body of the background thread: a failure there does not abort the open (io_uring availability is an environment condition, not file contents)"),
    (r"reader::Reader::append_block_to_chain", r"assert:Overflow\(Add\)", r"len\(.*chain.*\) \| 1$", "debug message arithmetic on a Vec length"),
    (r"topic_clean::TopicCleanTracker::persist_topics", r"call:with_capacity", r"^len\(ref\(topics\)\)$", "capacity of an in-memory set"),
    (r"allocator::BlockAllocator::(get_next_available_block|alloc_block)", r"assert:Overflow\((Add|Sub|Mul|Div)\)", r".*", "allocator arithmetic on in-memory counters bounded by MAX_FILE_SIZE / MAX_ALLOC (checked just above); not file contents"),
    (r"allocator::BlockAllocator::alloc_block", r"assert:DivisionByZero", r".*", "division by the constant DEFAULT_BLOCK_SIZE"),
    (r"storage::(SharedMmap|StorageImpl)::read", r"assert:Overflow\(Sub\)", r"^.*min\(.*\) \| offset$|^end \| offset$", "guarded by `offset < end`"),
    (r"storage::StorageImpl::read", r"call:index(_mut)?", r".*", "both ranges are clamped to min(offset+len, mmap.len()) and guarded by `offset < end`"),
    (r"storage::StorageImpl::read", r"call:copy_from_slice", r".*", "source and destination have the same length end-offset by construction"),
    (r"storage::FdBackend::new|storage::create_storage_impl|storage::SharedMmap::new", r".*", r".*", "opening a file: I/O errors are returned, no content-dependent arithmetic"),
    (r"config::now_millis_str|paths::WalPathManager::.*", r".*", r".*", "path/time helpers: no file contents involved"),
    (r"walrus::Walrus::with_paths", r".*", r".*", "constructor plumbing: no file contents involved"),
]

PANICKY = re.compile(r"(Option|Result)(::<[^>]*>)?::(unwrap|expect)$|^core::panicking::|::index$|::index_mut$|copy_from_slice$|^std::vec::from_elem$|with_capacity$|::split_at$|slice::.*::(split_at|copy_within)$")


def _norm(s):
    return re.sub(r"_\d+", "_", s)


def panic_sites(facts, root_name):
    reach = facts.closure_reach(root_name)
    for n in sorted(reach):
        b = facts.bodies[n]
        if b.j["derived"]:
            continue
        for blk in sorted(b.live_blocks):
            t = b.term(blk)
            if t["k"] == "assert":
                ops = [show(strip_refs(expr(b, o))) for o in t["msg_ops"]]
                yield b, blk, "assert:" + t["msg"], ops, t
            elif t["k"] == "call":
                cn = callee_name(t)
                if PANICKY.search(cn):
                    if "fmt::" in cn:
                        continue
                    ops = [show(strip_refs(expr(b, a)))[:90] for a in t["args"]]
                    yield b, blk, "call:" + cn.split("::")[-1], ops, t


def _len_bounds_at(b, blk, L_show):
    lower = upper = None
    for T in all_tests(b):
        if T.kind != "cmp":
            continue
        if show(strip_refs(expr(b, T.a))) != L_show:
            continue
        k = fmtfeat.const_eval(expr(b, T.b))
        if k is None:
            continue
        for truth, e in ((True, T.true_edge), (False, T.false_edge)):
            if not b.edge_guards(e, blk):
                continue
            op = T.op
            if (op == "Eq" and not truth and k == 0) or (op == "Ne" and truth and k == 0) or (op == "Gt" and truth and k == 0):
                lower = 1
            if (op == "Gt" and not truth) or (op == "Le" and truth):
                upper = k if upper is None else min(upper, k)
            if (op == "Ge" and not truth) or (op == "Lt" and truth):
                upper = (k - 1) if upper is None else min(upper, k - 1)
    return lower, upper


def discharge(facts, b, blk, kind, ops, t, prefix):
    """Return a reason string if a generic rule discharges the site."""
    if kind.startswith("assert:Overflow"):
        vals = [fmtfeat.const_eval(expr(b, o)) for o in t["msg_ops"]]
        if all(v is not None for v in vals):
            return "constant operands"
        if kind == "assert:Overflow(Shl)" or kind == "assert:Overflow(Shr)":
            if vals[-1] is not None and vals[-1] < 64:
                return "constant shift amount"
    if kind == "assert:Overflow(Mul)" and b.kind == "Closure" and "::{closure#" in b.name:
        # `unit * DEFAULT_BLOCK_SIZE` in the mapping closure of the per-file unit iterator: the units are bounded by the
        # iterator's constant range (or by the take_while that ends it at the first offset past the file size)
        from . import c06
        parent = facts.bodies.get(b.name.rsplit("::{closure#", 1)[0])
        it = c06.unit_iter_loop(facts, parent) if parent is not None else None
        D = facts.const_val("config::DEFAULT_BLOCK_SIZE")
        ks = [fmtfeat.const_eval(expr(b, o)) for o in t["msg_ops"]]
        items = [strip_refs(expr(b, o)) for o in t["msg_ops"]]
        if it is not None and D in ks and any(x[0] == "v" and x[1] == 2 for x in items if isinstance(x, tuple)):
            rl = borrowed_local(parent, it[0].node["args"][0])
            rty = parent.local_ty(rl) if rl is not None else ""
            if "closure@%s:%d:" % (b.relfile, b.line) in rty:
                return "unit index of the bounded per-file unit iterator times the unit size"
    if kind == "assert:BoundsCheck" and len(t["msg_ops"]) == 2:
        ln, ix = (fmtfeat.const_eval(expr(b, o)) for o in t["msg_ops"])
        if ln is None:
            # the length of a slice that borrows a buffer of constant size (`&buf` / `&buf[..]` of `vec![0; N]` or `[0; N]`)
            l0 = op_local(b.resolve_copy(t["msg_ops"][0]))
            sd = b.single_def(l0) if l0 is not None else None
            if sd and sd[1] == "assign" and sd[2]["rv"]["k"] == "un" and str(sd[2]["rv"].get("op")) == "PtrMetadata":
                base = strip_refs(expr(b, sd[2]["rv"]["a"]))
                hops = 0
                while isinstance(base, tuple) and base and base[0] in ("deref", "index") and hops < 4:
                    hops += 1
                    base = strip_refs(base[1]) if len(base) > 1 else base
                if isinstance(base, tuple) and base and base[0] == "call" and str(base[1]).endswith("from_elem"):
                    ln = fmtfeat.const_eval(base[2][1])
                else:
                    bl = op_local(b.resolve_copy(sd[2]["rv"]["a"]))
                    seen_l = set()
                    while bl is not None and bl not in seen_l:
                        seen_l.add(bl)
                        m_ = re.match(r"^&*(?:mut )?\[u8; (\d+)\]$", b.local_ty(bl).replace("&mut ", "&"))
                        if m_:
                            ln = int(m_.group(1))
                            break
                        nb = borrowed_local(b, {"k": "copy", "place": {"l": bl, "p": []}})
                        bl = nb if nb != bl else None
        if ln is not None and ix is not None and ix < ln:
            return "constant index %d into a fixed array of %d" % (ix, ln)
    if kind in ("call:index", "call:index_mut") and len(t["args"]) == 2:
        base = strip_refs(expr(b, t["args"][0]))
        idx = strip_refs(expr(b, t["args"][1]))
        n = None
        if base[0] == "call" and base[1].endswith("from_elem"):
            n = fmtfeat.const_eval(base[2][1])
        if n is None:
            # a fixed-size array (by value or behind references): the length is in the type
            bl = op_local(b.resolve_copy(t["args"][0]))
            seen_l = set()
            while bl is not None and bl not in seen_l:
                seen_l.add(bl)
                m_ = re.match(r"^&*(?:mut )?\[u8; (\d+)\]$", b.local_ty(bl).replace("&mut ", "&"))
                if m_:
                    n = int(m_.group(1))
                    break
                nb = borrowed_local(b, {"k": "copy", "place": {"l": bl, "p": []}})
                bl = nb if nb != bl else None
        k = fmtfeat.const_eval(idx)
        if n is not None and k is not None and k < n:
            return "constant index %d into a %d-byte buffer" % (k, n)
        if idx[0] == "agg" and idx[1] == "RangeFull":
            return "full range"
        if idx[0] == "agg" and idx[1] == "Range" and n is not None:
            st, en = linear(idx[3]["start"]), linear(idx[3]["end"])
            if st is not None and en is not None and not st[0] and len(en[0]) == 1:
                Lshow = next(iter(en[0]))
                lo, up = _len_bounds_at(b, blk, Lshow)
                if up is not None and st[1] <= en[1] + (lo or 0) and en[1] + up <= n:
                    return "range [%d..%d+L] with L <= %d by dominating guards fits the %d-byte buffer" % (st[1], en[1], up, n)
        # `base[..E]` / `base[E..]` / `base[E]`-style bounds that are loaded from a field which the function has just set to
        # min(_, len(base)): the last store to that field that dominates this site clamps it to the length
        ends = []
        if idx[0] == "agg" and idx[1] in ("RangeTo", "RangeFrom", "Range", "RangeToInclusive"):
            ends = [v for k_, v in (idx[3] or {}).items()] if isinstance(idx[3], dict) else []
        if ends and idx[1] in ("RangeTo", "RangeFrom"):
            # `base[..min(x, base.len())]`: the bound is clamped to the length of the very collection in the expression itself
            def _clamped(e_):
                e_ = strip_refs(e_)
                if isinstance(e_, tuple) and e_[0] == "call" and str(e_[1]).endswith("::min") and len(e_[2]) == 2:
                    for y in e_[2]:
                        y = strip_refs(y)
                        if isinstance(y, tuple) and y[0] == "len" and show(strip_refs(y[1]), 6) == show(base, 6):
                            return True
                return False
            if all(_clamped(e_) for e_ in ends):
                return "the range bound is min(_, len()) of the same collection"
            ok_all = True
            for e_ in ends:
                e_ = strip_refs(e_)
                if not (isinstance(e_, tuple) and e_[0] == "field"):
                    ok_all = False
                    break
                fname = e_[3]
                doms = []
                for site, st in b.assigns():
                    pl = st["place"]
                    if pl["p"] and isinstance(pl["p"][-1], dict) and pl["p"][-1].get("n") == fname and st["rv"]["k"] in ("use", "cast") and b.dominates(site.bb, blk):
                        doms.append((site, st))
                others = [site for site, st in b.assigns() if st["place"]["p"] and isinstance(st["place"]["p"][-1], dict) and st["place"]["p"][-1].get("n") == fname and not b.dominates(site.bb, blk)
                          and blk in b.reachable_from([site.bb])]
                if not doms or others:
                    ok_all = False
                    break
                last = [d for d in doms if all(b.dominates(o[0].bb, d[0].bb) for o in doms)]
                if not last:
                    ok_all = False
                    break
                sv = show(strip_refs(expr(b, last[0][1]["rv"]["op"])), 10)
                bsh = show(base, 10)
                tail = bsh.rsplit(".", 1)[-1]
                if not (sv.startswith("min(") and re.search(r"len\(ref\(.*\.%s\)\)\)$" % re.escape(tail), sv)):
                    ok_all = False
                    break
            if ok_all:
                return "the range bound is loaded from a field that was last set to min(_, len()) of the same collection"
        # i < len(base) dominating
        for T in all_tests(b):
            if T.kind == "cmp" and T.op in ("Lt", "Ge"):
                a_s = show(strip_refs(expr(b, T.a)))
                bexp = strip_refs(expr(b, T.b))
                if a_s == show(idx) and bexp[0] == "len" and show(strip_refs(bexp[1])) == show(base):
                    e = T.true_edge if T.op == "Lt" else T.false_edge
                    if b.edge_guards(e, blk):
                        return "dominated by `index < len`"
    if kind == "call:with_capacity" and t["args"]:
        L = strip_refs(expr(b, t["args"][0]))
        lo, up = _len_bounds_at(b, blk, show(L))
        if up is not None and up <= prefix:
            return "capacity bounded by dominating guards (<= %d)" % up
    if kind.startswith("assert:Overflow(Add)") and len(t["msg_ops"]) == 2:
        a, c = (strip_refs(expr(b, o)) for o in t["msg_ops"])
        for x, y in ((a, c), (c, a)):
            k = fmtfeat.const_eval(x)
            if k is not None and k < (1 << 62) and isinstance(y, tuple) and y and y[0] == "len":
                return "constant + length of an allocated buffer (a length is at most isize::MAX)"
        for x, y in ((a, c), (c, a)):
            k = fmtfeat.const_eval(x)
            if k is not None:
                lo, up = _len_bounds_at(b, blk, show(y))
                if up is not None and up <= prefix:
                    return "constant + header length bounded by dominating guards"
    if kind == "call:from_elem" and len(t["args"]) == 2:
        if fmtfeat.const_eval(expr(b, t["args"][1])) is not None:
            return "constant size"
    if kind in ("call:expect", "call:unwrap") and any("poison" in o.lower() for o in ops):
        return "lock poisoning only"
    return None


def check_panic_freedom(ctx, facts):
    root = facts.body("walrus::Walrus::with_paths")
    prefix = facts.const_val("config::PREFIX_META_SIZE")
    n = n_auto = n_table = 0
    for b, blk, kind, ops, t in panic_sites(facts, root.name):
        ctx.saw_body(b)
        n += 1
        F = common.short_fn(b.name)
        why = discharge(facts, b, blk, kind, ops, t, prefix)
        opstr = " | ".join(_norm(o) for o in ops)
        if why:
            n_auto += 1
            ctx.ok("C11.2", F, "%s [%s]" % (kind, opstr[:80]), b.relfile, t["line"], why)
            continue
        row = None
        for fre, kre, ore, reason in PF_TABLE:
            if re.search(fre, F) and re.search(kre, kind) and re.search(ore, opstr):
                row = reason
                break
        if row:
            n_table += 1
            ctx.ok("C11.2", F, "%s [%s] (table)" % (kind, opstr[:80]), b.relfile, t["line"], row)
        else:
            ctx.violate("C11.2", F, "untriaged-panic-site:%s:%s" % (kind.split("{")[0].strip(), opstr[:60]), b.relfile, t["line"],
                        "potential panic (%s on %s) on the open/recovery path is neither discharged by a rule nor listed in the table: a damaged file could crash the open" % (kind, opstr[:100]))
    ctx.floor("C11.2", "potential panic sites on the open path", n, 10)
    ctx.note("panic sites on the open path: %d, discharged by rule: %d, by table row: %d" % (n, n_auto, n_table))
    # decoder guards (7 sites)
    n_dec = 0
    for b, s in fmtfeat.all_decode_sites(facts):
        if True:
            f = fmtfeat.decoder_features(b, s)
            n_dec += 1
            if f and f["len_bounds"]["lower"] == 1 and f["len_bounds"]["upper"] is not None and f["len_bounds"]["upper"] <= prefix - 2:
                ctx.ok("C11.2", common.short_fn(b.name), "header decode dominated by 1 <= len <= %d" % f["len_bounds"]["upper"], b.relfile, s.line)
            else:
                ctx.violate("C11.2", common.short_fn(b.name), "decode-without-length-bounds", b.relfile, s.line,
                            "a header is decoded without dominating bounds 1 <= len <= PREFIX_META_SIZE-2 (%s)" % (f["len_bounds"] if f else None))
    ctx.floor("C11.2", "header decode sites", n_dec, 1)
    for fn, has in fmtfeat.consumers_reach_decode(facts, ("block::Block::read", "walrus::Walrus::startup_chore", "batch_read_for_topic")).items():
        if not has:
            ctx.violate("C11.2", "floor", "no header decode reachable from " + fn, None, None, "%s neither contains nor calls a Metadata header decode: the decoder rules would pass vacuously" % fn)


def _from_file(facts, b, operand, depth=0):
    """Do the bytes behind `operand` come from a file read?  Follows parameters to the callers'
    arguments (two levels), so that a shared decode helper is judged by what it is given."""
    src, locs, _ = origins(b, operand, follow_all_calls=True)
    if any(o.kind == "call" and FILE_READ.search(o.what) for o in src):
        return True
    # buffers filled by SharedMmap::read(&mut buf) are not data-flow results: look for a read call that takes a &mut of a local in the slice
    for r in b.calls(re.compile(r"SharedMmap::read$")):
        tl = borrowed_local(b, r.node["args"][2])
        if tl in locs:
            return True
    if b.kind == "Closure" and b.parent in facts.bodies:
        fam = [facts.bodies[b.parent]] + facts.closures_of(facts.bodies[b.parent])
        if any(x.calls(re.compile(r"^std::fs::read$")) for x in fam):
            return True
    # parameters that are disk buffers (batch parser reads from `buffers` filled by io_uring / mmap reads)
    if any(o.kind == "call" and re.search(r"collect$|from_elem$", o.what) for o in src):
        return True
    if depth < 2:
        argl = [l for l in locs if 1 <= l <= b.arg_count]
        if argl:
            me = strip_generics(b.name)
            for name, cb in facts.bodies.items():
                if cb.j["derived"]:
                    continue
                for c in cb.calls():
                    if strip_generics(c.node.get("callee") or "") != me:
                        continue
                    for l in argl:
                        if l - 1 < len(c.node["args"]) and _from_file(facts, cb, c.node["args"][l - 1], depth + 1):
                            return True
    return False


def check_unchecked_roots(ctx, facts):
    n = 0
    for name, b in sorted(facts.bodies.items()):
        if b.j["derived"]:
            continue
        F = common.short_fn(name)
        for s in b.calls(re.compile(r"^rkyv::(util::)?archived_root$|^rkyv::archived_root_mut$|^rkyv::(util::)?archived_value$")):
            ctx.saw_body(b)
            n += 1
            from_file = _from_file(facts, b, s.node["args"][0])
            T = (s.node.get("callee_generic") or "").split("archived_root::<")[-1].rstrip(">")
            if from_file:
                ctx.violate("C11.1", F, "unchecked-archived_root<%s>" % T.split("::")[-1][:40], b.relfile, s.line,
                            "bytes read from a file are reinterpreted with the unsafe, unvalidated rkyv::archived_root::<%s>: a damaged or truncated file makes this read out of bounds "
                            "(undefined behaviour); rkyv::check_archived_root validates first" % T)
            else:
                ctx.ok("C11.1", F, "archived_root on bytes that do not come from a file", b.relfile, s.line)
    ctx.floor("C11.1", "archived_root call sites", n, 1)


def _length_bounded(b, blocks):
    """every block of `blocks` is dominated by the pass edge of a comparison `<.. read_size ..> <= len(..)`"""
    edges = []
    for T in all_tests(b):
        if T.kind != "cmp" or T.op not in ("Gt", "Ge", "Lt", "Le"):
            continue
        a_s, b_e = show(strip_refs(expr(b, T.a))), strip_refs(expr(b, T.b))
        if "read_size" in a_s and b_e[0] in ("len", "call") and ("len" in show(b_e)):
            edges.append(T.false_edge if T.op in ("Gt", "Ge") else T.true_edge)
    return bool(edges) and all(any(b.edge_guards(e, blk) for e in edges) for blk in blocks)


def check_untrusted_length(ctx, facts):
    n = 0
    for fn in ("block::Block::read", "batch_read_for_topic", "walrus::Walrus::startup_chore"):
        b = facts.body(fn)
        F = common.short_fn(b.name)
        for s in b.calls(re.compile(r"^std::vec::from_elem$|Vec::with_capacity$|AlignedVec::with_capacity$|::index$|::to_vec$")):
            size_arg = s.node["args"][1] if callee_name(s.node).endswith(("from_elem", "::index")) else s.node["args"][0]
            e = strip_refs(expr(b, size_arg))
            sh = show(e)
            if "read_size" not in sh:
                continue
            n += 1
            ok = _length_bounded(b, [s.bb])
            if not ok:
                # the size is a field of a value returned by a crate-local function: accept when that
                # function performs the bound check before each of its success returns
                src, _, _ = origins(b, size_arg)
                for o in src:
                    if o.kind != "call":
                        continue
                    g = facts.bodies.get(o.what) or next((bb_ for nn, bb_ in facts.bodies.items() if strip_generics(nn) == strip_generics(o.what)), None)
                    if g is None or g.j.get("derived"):
                        continue
                    oks = [blk for blk in g.return_blocks()]
                    okr = []
                    for site, st in g.assigns():
                        if st["place"]["l"] == 0 and not st["place"]["p"] and st["rv"]["k"] == "agg" and st["rv"].get("variant") == "Ok":
                            okr.append(site.bb)
                    if okr and _length_bounded(g, okr):
                        ok = True
            if ok:
                ctx.ok("C11.3", F, "%s sized by read_size is dominated by a bound against a buffer/file length" % callee_name(s.node).split("::")[-1], b.relfile, s.line)
            else:
                ctx.violate("C11.3", F, "unbounded-on-disk-length:" + callee_name(s.node).split("::")[-1], b.relfile, s.line,
                            "%s is sized by the on-disk read_size (%s) without a dominating bound against the buffer or file length: a flipped bit in the unchecksummed header "
                            "asks for up to 4 GiB or slices out of range" % (callee_name(s.node).split("::")[-1], sh[:80]))
    ctx.floor("C11.3", "allocations/slices sized by read_size", n, 1)
    # rkyv size feature (read_size archived as u32)
    try:
        with open(common.extract.REPO + "/Cargo.toml") as f:
            ct = f.read()
        if re.search(r"size_64|size_16", ct):
            ctx.violate("C11.3", "Cargo.toml", "rkyv-size-feature", "Cargo.toml", None, "rkyv is configured with a non-default pointer width; the table row '256 + read_size cannot overflow' no longer holds")
        else:
            ctx.ok("C11.3", "Cargo.toml", "rkyv uses its default size_32: archived usize is 32 bits", "Cargo.toml", None)
    except OSError:
        pass


def run(ctx):
    for k, v in RULES.items():
        ctx.rule(k, v)
    facts = common.mir(ctx, "walrus_rust")
    check_unchecked_roots(ctx, facts)
    check_panic_freedom(ctx, facts)
    check_untrusted_length(ctx, facts)
    # C11.4
    before = len(ctx.obligations)
    check_checksum_gate(ctx, facts)
    for o in ctx.obligations[before:]:
        if o["rule"] == "C01.3":
            o["rule"] = "C11.4"
            if "key" in o:
                o["key"] = o["key"].replace("C01.3", "C11.4")
    # C11.5: what the engine itself leaves for the next open
    from .persistord import check_atomic_replace
    check_atomic_replace(ctx, "C11.5", "C11.5", facts, "index::WalIndex::persist", need_dir_sync=False)
    check_atomic_replace(ctx, "C11.5", "C11.5", facts, "topic_clean::CleanMarkerStore::persist_map", need_dir_sync=False)
    ctx.assume("NOT decided: hangs, semantic mis-association of valid-looking foreign entries")
    ctx.assume("PF covers the linux cfg in the dev profile (overflow checks and debug assertions compiled in): a superset of the panic sites of a release build")
    return {
        "explanation": "panic-freedom obligations enumerated over the call-graph closure of the open path on MIR (Assert terminators, unwrap/expect, indexing, slice copies, allocations) and "
                       "discharged by dominance/interval rules or frozen table rows; a who-may-call rule for unvalidated rkyv roots on file bytes; a dominance rule for every use of the "
                       "on-disk length; the checksum gate.",
    }
