"""C13 - instances with different namespaces are fully isolated (partial: global state and filesystem sinks)."""
import re
from .core import common
from .core.mir import op_local, op_place, strip_generics, callee_name
from .core.cond import all_tests, borrowed_local
from .core.slicing import origins, origin_calls, origin_args
from .core.effects import provenance

RULES = {
    "C13.1": "global-state inventory (WMW over statics): the crate's statics and thread-locals with interior mutability equal the frozen table; every row carries the provenance of its key "
             "and the reason why sharing it between instances is harmless; a new static is untriaged global state",
    "C13.2": "key provenance (SLICE): every process-global map must be keyed by a value derived from the instance's root path (a WAL file path); a map keyed by an instance-local "
             "counter lets one instance read and update another instance's entries",
    "C13.3": "filesystem sinks (WMC + SLICE): create/open/write/rename/remove/read_dir/create_dir_all are called only from the frozen set of functions, and their path operand never "
             "originates from a string literal or an environment variable other than through the path manager",
}

STATICS = {
    "config::USE_FD_BACKEND": "process-wide backend switch, set only by the public enable/disable functions; it selects how files are accessed, not which files",
    "config::LAST_MILLIS": "monotonic source of WAL file names; sharing it makes names unique across instances, it holds no instance data",
    "paths::THREAD_NAMESPACE": "thread-local test hook for the default namespace; read only when a path manager is constructed",
    "allocator::BlockStateTracker::map::MAP": "KEYED BY BLOCK ID (see C13.2)",
    "allocator::FileStateTracker::map::MAP": "keyed by the WAL file path, which contains the instance root",
    "DELETION_TX": "channel to the first instance's background worker; it carries absolute file paths produced by flush_check, so requests of different instances cannot be confused",
    "storage::GLOBAL_FSYNC_SCHEDULE": "first instance wins; only selects O_SYNC for newly opened files, explicit flushes are still issued per instance schedule",
    "storage::SharedMmapKeeper::get_mmap_arc_read::MMAP_KEEPER": "keyed by file path (never populated: the fast path always misses; performance only)",
    "storage::SharedMmapKeeper::get_mmap_arc::MMAP_KEEPER": "keyed by file path, which contains the instance root",
}

SINKS = re.compile(r"^std::fs::(write|rename|remove_file|remove_dir|remove_dir_all|create_dir|create_dir_all|read|read_dir|read_to_string|copy|metadata)$|"
                   r"^std::fs::File::(create|create_new|open)$|^std::fs::OpenOptions::open$|^std::path::Path::exists$")
SINK_CALLERS = {
    "paths::WalPathManager::ensure_root": "creates the instance root (path = self.root)",
    "paths::WalPathManager::create_new_file": "creates a WAL file under self.root and syncs self.root",
    "index::WalIndex::new_in": "reads <root>/<name>_index.db",
    "index::WalIndex::persist": "writes/renames self.path (+ .tmp) and syncs its parent",
    "topic_clean::CleanMarkerStore::new_in": "reads <root>/topic_clean_index.db",
    "topic_clean::CleanMarkerStore::persist_map": "writes/renames the marker path (+ .tmp) and syncs its parent",
    "walrus::Walrus::startup_chore": "read_dir(self.paths.root())",
    "storage::FdBackend::new": "opens the path handed down from Block.file_path / recovery listing",
    "storage::create_storage_impl": "opens the path handed down from Block.file_path / recovery listing",
    "background::start_background_workers": "flusher/reclaimer: paths received over the fsync and deletion channels",
}


def _short_static(n):
    n = n.replace("wal::runtime::", "").replace("wal::", "")
    n = re.sub(r"::\{constant#\d+\}.*$", "", n)
    return n


def check_inventory(ctx, facts):
    seen = set()
    for s in facts.statics:
        name = s["name"]
        if "__CALLSITE" in name:
            continue  # tracing call-site registration emitted by the info! macro: no engine state
        if s["freeze"] and not s["mut"]:
            continue
        sn = _short_static(name)
        seen.add(sn)
        if sn in STATICS:
            ctx.ok("C13.1", sn, "global is in the triaged inventory", s["span"]["file"].replace(common.extract.REPO + "/", ""), s["span"]["line"], STATICS[sn][:160])
        else:
            ctx.violate("C13.1", sn, "untriaged-global-state", s["span"]["file"].replace(common.extract.REPO + "/", ""), s["span"]["line"],
                        "static `%s: %s` has interior mutability and is not in the inventory: state shared by all instances in the process" % (sn, s["ty"][:80]))
    # thread_local! consts
    for c in facts.consts.values():
        if "LocalKey" in c["ty"]:
            sn = _short_static(c["name"])
            seen.add(sn)
            if sn not in STATICS:
                ctx.violate("C13.1", sn, "untriaged-thread-local", None, c["span"]["line"], "thread-local `%s` is not in the inventory" % sn)
    missing = set(STATICS) - seen
    for m in sorted(missing):
        ctx.note("inventory row without a static in the tree (stale row, harmless): " + m)
    ctx.floor("C13.1", "interior-mutable globals found", len(seen), 7)


def _key_origins(facts, body, operand, depth=0):
    """Immediate provenance of a map key: the named field / call it is read from, followed
    through copies, borrows, to_string/clone and through parameters into the callers."""
    from .core.symexpr import expr, strip_refs
    e = strip_refs(expr(body, operand))
    out = set()

    seen = set()

    def walk(e, body, depth):
        e = strip_refs(e)
        if not isinstance(e, tuple) or not e or depth > 8:
            return
        key = (body.name, repr(e)[:200])
        if key in seen:
            return
        seen.add(key)
        h = e[0]
        if h == "field":
            base = strip_refs(e[1])
            if isinstance(base, tuple) and base and base[0] == "variant":
                walk(base[1], body, depth)      # payload of Some(..)/Ok(..): provenance of the wrapped value
            else:
                out.add(("field", e[2], e[3]))
        elif h == "variant":
            walk(e[1], body, depth)
        elif h == "call":
            nm = e[1].split("::")[-1]
            if nm in ("to_string", "clone", "to_owned", "as_str", "deref", "as_ref", "borrow", "into", "from", "unwrap", "to_string_lossy", "into_owned", "branch", "to_str") and e[2]:
                walk(e[2][0], body, depth)
            else:
                out.add(("call", e[1]))
        elif h == "v":
            l = e[1]
            if 1 <= l <= body.arg_count and depth < 4:
                pos = l - 1
                found = False
                for n2, b2 in facts.bodies.items():
                    if b2.j["derived"]:
                        continue
                    for s2 in b2.calls():
                        cn = s2.node.get("callee")
                        if cn and strip_generics(cn) == strip_generics(body.name) and pos < len(s2.node["args"]):
                            found = True
                            from .core.symexpr import expr as ex2
                            walk(ex2(b2, s2.node["args"][pos]), b2, depth + 1)
                if not found:
                    out.add(("arg", e[2] or str(l)))
            else:
                # a multiply-defined local: fall back to the names it is assigned from
                for site, kind, node in body.defs.get(l, []):
                    if kind == "assign" and node["rv"]["k"] in ("use", "cast"):
                        from .core.symexpr import expr as ex3
                        sub = strip_refs(ex3(body, node["rv"]["op"]))
                        if sub != e:
                            walk(sub, body, depth + 1)
                    elif kind == "assign" and node["rv"]["k"] == "agg":
                        from .core.symexpr import expr as ex4
                        for o in node["rv"]["ops"]:
                            walk(ex4(body, o), body, depth + 1)
                    elif kind == "call":
                        out.add(("call", strip_generics(node.get("callee") or "?")))
                if not body.defs.get(l):
                    out.add(("local", e[2] or str(l)))
        elif h in ("Add", "Sub", "BitOr", "BitAnd"):
            walk(e[1], body, depth)
            walk(e[2], body, depth)
        elif h == "c":
            out.add(("const", str(e[1])))
        else:
            out.add((h, ""))
    walk(e, body, depth)
    return out


def check_key_provenance(ctx, facts):
    n = 0
    for acc_name, static in (("allocator::BlockStateTracker::map", "BlockStateTracker::MAP"), ("allocator::FileStateTracker::map", "FileStateTracker::MAP")):
        acc = facts.body(acc_name)
        users = []
        for name, b in facts.bodies.items():
            if b.j["derived"]:
                continue
            if not b.calls(re.compile(re.escape(strip_generics(acc.name)) + "$")):
                continue
            for s in b.calls(re.compile(r"HashMap::(get|get_mut|entry|insert|remove|contains_key)$")):
                pr = provenance(b, s.node["args"][0])
                if any(o.kind == "call" and o.what.endswith(acc_name.split("::", 1)[1]) or (o.kind == "call" and o.what.endswith("::map")) for o in pr):
                    users.append((b, s))
        if not users:
            ctx.anchor_missing("C13.2", "accesses of " + static)
            continue
        bad = {}
        good = 0
        for b, s in users:
            ctx.saw_body(b)
            n += 1
            ko = _key_origins(facts, b, s.node["args"][1])
            path_like = any(k[0] == "field" and k[2] in ("file_path", "root", "path") for k in ko) or any(k[0] == "call" and re.search(r"create_new_file$|read_dir|PathBuf|get_file_path_for_block$", k[1]) for k in ko)
            counter_like = any(k[0] == "field" and k[2] == "id" for k in ko) or any(k[0] in ("const", "arg") for k in ko) or any(k[0] == "local" for k in ko)
            lossy = [k[1] for k in ko if k[0] == "call" and re.search(r"::(file_name|file_stem|extension|strip_prefix|strip_suffix|rsplit\w*|split\w*|trim\w*|components|parent)$", strip_generics(k[1]))]
            if path_like and not counter_like and lossy:
                ctx.violate("C13.2", static, "global-map-key-loses-the-root", b.relfile, s.line,
                            "%s is keyed by a value computed from the file path by %s, not by the path itself: files of the same name in different instance directories share one entry"
                            % (static, lossy[0].split("::", 1)[-1]))
            elif path_like and not counter_like:
                good += 1
                ctx.ok("C13.2", common.short_fn(b.name), "%s key derives from a WAL file path" % static, b.relfile, s.line)
            else:
                bad.setdefault(common.short_fn(b.name), (b, s, ko))
        if bad:
            b, s, ko = sorted(bad.values(), key=lambda x: x[1].line)[0]
            ctx.violate("C13.2", static, "global-map-keyed-by-instance-local-id", b.relfile, s.line,
                        "%s is a process-global map keyed by a block id (origins: %s). Block ids are per-instance counters starting at 1 (and recovery's synthetic ids), so a second "
                        "instance in the process registers, marks and unlocks blocks under keys that already belong to the first instance's files (register_block keeps the first "
                        "registrant): reclamation decisions of one instance act on the other's files. %d accessor sites affected"
                        % (static, sorted(k for k in ko)[:4], len(bad)))
    # the process-global mapping cache (MMAP_KEEPER): keyed by the whole file path
    n_k = 0
    for name, b in sorted(facts.bodies.items()):
        sn = common.short_fn(name)
        if b.j["derived"] or not sn.startswith("storage::SharedMmapKeeper::"):
            continue
        for s in b.calls(re.compile(r"HashMap.*::(get|get_mut|entry|insert|remove|contains_key)$")):
            ctx.saw_body(b)
            n_k += 1
            ko = _key_origins(facts, b, s.node["args"][1])
            path_like = any(k[0] == "field" and k[2] in ("file_path", "root", "path") for k in ko) or any(k[0] == "call" and re.search(r"create_new_file$|read_dir|PathBuf|get_file_path_for_block$|::path$|to_string_lossy$|DirEntry", k[1]) for k in ko)
            other_calls = sorted(k[1] for k in ko if k[0] == "call" and not re.search(r"create_new_file$|read_dir|PathBuf|get_file_path_for_block$|::path$|to_string_lossy$|DirEntry|format$|fmt::", k[1]))
            lossy = [c for c in other_calls if re.search(r"::(file_name|file_stem|extension|strip_prefix|strip_suffix|rsplit\w*|split\w*|trim\w*|components|parent)$", strip_generics(c))]
            if lossy or (other_calls and not path_like):
                ctx.violate("C13.2", "SharedMmapKeeper::MMAP_KEEPER", "global-map-key-loses-the-root", b.relfile, s.line,
                            "the process-global cache of file mappings is keyed by a value computed from the path by %s, not by the path itself: two instances whose WAL files have the "
                            "same name in different directories get each other's mapping (reads and writes of one instance land in the other's file)" % (lossy or other_calls)[0].split("::", 1)[-1])
            else:
                ctx.ok("C13.2", sn, "mapping cache keyed by the whole file path", b.relfile, s.line, str(sorted(ko))[:120])
    ctx.floor("C13.2", "accesses of the mapping cache", n_k, 1)
    ctx.floor("C13.2", "accesses of process-global maps", n, 3)


def check_sinks(ctx, facts):
    n = 0
    for name, b in sorted(facts.bodies.items()):
        if b.j["derived"]:
            continue
        F = re.sub(r"::\{closure#\d+\}.*$", "", common.short_fn(name))
        for s in b.calls(SINKS):
            ctx.saw_body(b)
            n += 1
            cn = callee_name(s.node).split("std::")[-1]
            if F not in SINK_CALLERS:
                ctx.violate("C13.3", F, "filesystem-access-outside-frozen-set:" + cn.split("::")[-1], b.relfile, s.line,
                            "%s calls %s; filesystem access is confined to %d triaged functions that take their path from the path manager / Block.file_path" % (F, cn, len(SINK_CALLERS)))
                continue
            # path operand: first argument (OpenOptions::open: second)
            arg = s.node["args"][1] if cn.endswith("OpenOptions::open") else s.node["args"][0]
            src, _, _ = origins(b, arg, passthrough_extra=[r"^std::fmt::format$", r"fmt::Arguments.*::new", r"Argument.*::new_display$", r"Path::parent$", r"Option.*::filter$", r"Path::new$", r"Path::join$"])
            lits = [o for o in src if o.kind == "const" and o.extra is not None and "str" in o.extra and o.extra["str"] not in ("", ".tmp")]
            envs = [o for o in src if o.kind == "call" and re.search(r"env::var", o.what)]
            if lits or envs:
                ctx.violate("C13.3", F, "path-from-literal-or-env:" + cn.split("::")[-1], b.relfile, s.line,
                            "the path handed to %s originates from %s: not derived from the instance's root" % (cn, [o.what for o in (lits + envs)][:2]))
            else:
                ctx.ok("C13.3", F, "%s on a path derived from the instance root / block file path" % cn.split("::")[-1], b.relfile, s.line, SINK_CALLERS[F][:100])
    ctx.floor("C13.3", "filesystem sink call sites", n, 4)


def run(ctx):
    for k, v in RULES.items():
        ctx.rule(k, v)
    facts = common.mir(ctx, "walrus_rust")
    check_inventory(ctx, facts)
    check_key_provenance(ctx, facts)
    check_sinks(ctx, facts)
    ctx.assume("observable interference itself is NOT decided; the check decides which state is shared by construction and whether its keys can collide across instances")
    return {
        "explanation": "inventory of interior-mutable statics from the type-checked crate against a frozen, reasoned table; interprocedural origin slices for the keys of the two "
                       "process-global tracker maps; who-may-call table and operand-origin rule for every filesystem sink.",
    }
