"""C01 - consuming reads deliver every appended entry once, in order, byte-identical (partial)."""
import re
from .core import common
from .core.mir import op_local, op_place, strip_generics, callee_name
from .core.cond import all_tests, call_site_of, borrowed_local, const_of
from .core.slicing import origins, origin_calls, origin_args
from .core.readflags import checkpoint_edges, stateful_edges, guarded, flag_places, option_edges, _value_defs
from .core.symexpr import expr, show, strip_refs
from . import fmtfeat
from .c03 import returned_vec
from .c02 import exception_class
from .core.effects import Effects

RULES = {
    "C01.10": "a topic's entries are not overwritten by its neighbour (= C06.1's record clause): every store to the limit of the allocator's own block record is DEFAULT_BLOCK_SIZE, "
              "so a new topic's first block never claims more than the one unit reserved for it",
    "C01.9": "the single-entry reader accepts every entry the writer acknowledged (= C07.6): every comparison in Block::read - which read_next and the recovery scan use - is the "
             "header-length sanity test, `entry end > file length`, or the checksum comparison; a bound a valid entry can meet exactly (`>=` against the file length, the block's "
             "limit) makes read_next return None in front of an entry that ends with its block or file, and everything behind it is never delivered",
    "C01.1": "returned = consumed (MPT): in batch_read_for_topic every path that increments the per-entry counter (the value later subtracted from the topic count and the number of "
             "cursor advances) pushes that entry into the returned vector, unless the path takes an edge that implies an offset-addressed read (an entry emptied by offset trimming "
             "has nothing to return); in read_next every checkpoint-guarded commit of the cursor is followed on all paths by `return Ok(Some(entry))` of the entry read at that "
             "offset, and the committed offset is old offset + the size consumed by that very read",
    "C01.2": "header table agreement (SA): the two encoders and the seven decoders agree on the prefix length, the little-endian 2-byte length at [0],[1], metadata at [2..2+len], the "
             "bound len in 1..=PREFIX_META_SIZE-2, and the entry stride PREFIX_META_SIZE + read_size",
    "C01.3": "checksum before hand-out (MPT): every construction of an Entry that can reach a public return is dominated by the equal-edge of a comparison between checksum64 of the "
             "very bytes handed out and the checksum field of the decoded Metadata",
    "C01.4": "no entry is skipped because the plan ends inside it (= C03.3): when nothing is planned yet the planned range is widened to the size announced by the header at the cursor; "
             "the only branches that may bypass the widening are the enumerated ones (peek flag cleared only for offset-addressed reads, header beyond the used bytes, invalid header)",
    "C01.5": "the consumer position is carried over when its tail block is sealed (SA between the two paths of Reader::append_block_to_chain): on each path the sealed block is pushed "
             "onto the chain and then, under `tail_block_id == block.id` and only under it, cur_block_idx is set to the index of the block just pushed (len - 1) and cur_block_offset "
             "to min(tail_offset, block.used); both paths do exactly the same. A path that forgets the fold re-delivers the sealed block from offset 0; one that folds under another "
             "condition skips or repeats entries across a rotation",
    "C01.6": "no entry is skipped because the batch went on after a budget stop (= C03.4): once the parser has given up an entry for the byte budget, nothing more is pushed in that "
             "call",
    "C01.8": "the two halves of a cursor move together: the batch read commits (chain index, offset) and (tail block id, tail offset) from pairs of variables it maintains while it "
             "parses; wherever the function assigns one half of a pair, the other half is assigned in the same basic block, or every way on from that assignment to the function's "
             "return passes an assignment of the other half. A half that is set once per planned range while the other is set per parsed entry leaves (next block, previous "
             "block's offset) behind when a range yields no entry: the next read starts in the middle of the next block - or past its entries. And the commit closure sets each cursor "
             "field to exactly that reached position (a captured variable or a constant), never to a combination with the value the cursor held before (`max(old, new)` keeps an "
             "offset that belonged to the previous block after a rotation)",
    "C01.7": "a reader leaves a sealed block only at its end: every step to the next block of the chain (cur_block_idx := idx + 1 in read_next, the planner's chain index += 1 in "
             "batch_read_for_topic) is taken on an edge that establishes `offset >= block.used`, where offset is the cursor's own offset (or the planner's copy of it), in a consuming "
             "read_next that offset plus the size of the entry just read and returned, or - in the planner - the end of the range it has just planned (a planner that steps on "
             "after a range that stops short of the block's end goes on to plan the next block or the tail, whose entries are then delivered ahead of the rest of this block). A looser test (`offset + header >= used`, a planned end of range) steps over entries that "
             "were never delivered; an equivalent test inside a helper is accepted when the helper returns exactly that comparison of its arguments",
}


def stateless_skip_edges(body):
    """Edges that can only be taken by an offset-addressed read, derived in two steps from the
    code itself:
      W: integer locals all of whose non-zero definitions lie under start_offset = Some
         (followed through the tuple that carries them out of the mode branch);
         the true edge of `W > 0` / `W != 0` implies offset-addressed;
      B: boolean locals that are set to true only in blocks dominated by such an edge;
         the true edge of B implies offset-addressed."""
    keys = flag_places(body, "start_offset")
    some_edges = option_edges(body, keys, want_none=False)
    if not some_edges:
        return [], {}
    W = set()
    for l, ld in enumerate(body.locals):
        if ld["ty"] not in ("usize", "u64", "u32") or l <= body.arg_count:
            continue
        defs = list(_value_defs(body, l))
        if not defs:
            continue
        ok = True
        nonzero = 0
        for site, rv in defs:
            if rv["k"] == "use" and rv["op"].get("k") == "const" and rv["op"].get("val") == 0:
                continue
            nonzero += 1
            if not guarded(body, site.bb, some_edges):
                ok = False
                break
        if ok and nonzero:
            W.add(l)
    edges = []
    info = {"W": sorted(W), "B": []}
    for T in all_tests(body):
        if T.kind == "cmp" and op_local(T.a) in W and const_of(body, T.b) == 0:
            if T.op in ("Gt", "Ne"):
                edges.append(T.true_edge)
            elif T.op in ("Eq", "Le"):
                edges.append(T.false_edge)
    for l, ld in enumerate(body.locals):
        if ld["ty"] != "bool" or l <= body.arg_count or not ld.get("name"):
            continue
        trues = []
        bad = False
        for site, kind, node in body.defs.get(l, []):
            if kind != "assign" or node["rv"]["k"] != "use" or node["rv"]["op"].get("k") != "const":
                bad = True
                break
            if node["rv"]["op"].get("val") == 1:
                trues.append(site)
        if bad or not trues:
            continue
        if all(guarded(body, s.bb, edges) for s in trues):
            info["B"].append(l)
            for T in all_tests(body):
                if T.kind == "local" and op_local(T.operand) == l:
                    edges.append(T.true_edge)
    return edges, info


def check_batch_returned_is_consumed(ctx, facts):
    b = facts.body("batch_read_for_topic")
    ctx.saw_body(b)
    F = common.short_fn(b.name)
    Rs = returned_vec(b)
    pushes = [s for s in b.calls(re.compile(r"Vec::push$")) if borrowed_local(b, s.node["args"][0]) in Rs]
    decs = b.calls(re.compile(r"Walrus::decrement_topic_entry_count$"))
    if not pushes or len(decs) != 1:
        ctx.anchor_missing("C01.1", "push into returned vector / decrement in " + F)
        return
    # D = the counter that flows into the decrement's delta
    dl = op_local(b.resolve_copy(decs[0].node["args"][2]))
    hops = 0
    while dl is not None and b.local_name(dl) is None and hops < 5:
        hops += 1
        dd = b.def_rvalue(dl)
        if dd and dd[0] == "rv" and dd[1]["k"] in ("cast", "use"):
            dl = op_local(b.resolve_copy(dd[1]["op"]))
        else:
            break
    incs = []
    for site, kind, node in b.defs.get(dl, []) if dl is not None else []:
        if kind == "assign" and node["rv"]["k"] == "use":
            p = op_place(node["rv"]["op"])
            if p is not None and p["p"]:
                incs.append(site)
    if not incs:
        ctx.anchor_missing("C01.1", "per-entry counter increment in " + F)
        return
    skip_edges, info = stateless_skip_edges(b)
    push_blocks = [s.bb for s in pushes]
    for i in incs:
        from_entry = i.bb in b.reachable_from([0], removed_blocks=push_blocks, removed_edges=skip_edges)
        from_inc = any(i.bb in b.reachable_after(j.bb, removed_blocks=push_blocks, removed_edges=skip_edges) for j in incs)
        if from_entry or from_inc:
            ctx.violate("C01.1", F, "entry-consumed-without-being-returned", b.relfile, i.line,
                        "a stateful consuming batch read can count an entry as consumed (counter increment, cursor advance) on a path that does not push it into the returned vector")
        else:
            ctx.ok("C01.1", F, "every counted entry is pushed (except on offset-addressed-only edges)", b.relfile, i.line,
                   "skip edges derived from locals %s / flags %s" % ([b.local_name(x) for x in info.get("W", [])], [b.local_name(x) for x in info.get("B", [])]))
    # pushes happen at most once per counted entry: every push is followed by the increment before the next push
    for p in pushes:
        if b.must_pass([p.bb], push_blocks, [i.bb for i in incs]):
            ctx.ok("C01.1", F, "a push is followed by the counter increment before the next push (no entry pushed twice / uncounted)", b.relfile, p.line)
        else:
            ctx.violate("C01.1", F, "entry-returned-without-being-counted", b.relfile, p.line, "an entry can be pushed again without the counter having advanced")


def check_read_next_commit(ctx, facts, rid="C01.1"):
    b = facts.body("read_next")
    ctx.saw_body(b)
    F = common.short_fn(b.name)
    eff = Effects(facts)
    cp = checkpoint_edges(b)
    n = 0
    for site, kinds, callee in eff.sites(b):
        if callee is not None:
            continue
        k = next(iter(kinds))
        if not k.startswith("store:ColReaderInfo.") or k.split(".")[-1] not in ("cur_block_offset", "tail_offset"):
            continue
        if exception_class(b, site, kinds):
            continue
        if not guarded(b, site.bb, cp):
            continue  # C02.1's business
        n += 1
        # the committed value = offset + consumed of a Block::read that dominates the store
        vsrc, _, _ = origins(b, site.node["rv"]["op"], stop_calls=[r"block::Block::read$"])
        reads = [o for o in vsrc if o.kind == "call" and o.what.endswith("block::Block::read")]
        if len(reads) != 1 or not b.dominates(reads[0].site.bb, site.bb):
            ctx.violate(rid, F, "commit-not-from-read", b.relfile, site.line, "the committed cursor offset is not derived from the size consumed by the read that precedes it")
            continue
        rd = reads[0].site
        e = expr(b, site.node["rv"]["op"])
        es = show(strip_refs(e))
        # Add(offset_arg_of_read, consumed)
        off_e = strip_refs(expr(b, rd.node["args"][1]))
        if e[0] == "Add" and (strip_refs(e[1]) == off_e or strip_refs(e[2]) == off_e):
            ctx.ok(rid, F, "committed offset = read offset + consumed size of that read", b.relfile, site.line, es[:100])
        else:
            ctx.violate(rid, F, "commit-arithmetic", b.relfile, site.line, "the committed offset is %s, expected <offset passed to Block::read> + consumed" % es[:100])
        # all returns after the commit return Ok(Some(entry of that read))
        rets = [r for r in b.return_blocks() if r in b.reachable_after(site.bb) or r == site.bb]
        good_blocks = []
        for s2, st in b.assigns():
            if st["place"]["l"] == 0 and st["rv"]["k"] == "agg" and st["rv"].get("variant") == "Ok":
                o = b.resolve_copy(st["rv"]["ops"][0])
                l = op_local(o)
                d = b.def_rvalue(l) if l is not None else None
                if d and d[0] == "rv" and d[1]["k"] == "agg" and d[1].get("variant") == "Some":
                    esrc, _, _ = origins(b, d[1]["ops"][0], stop_calls=[r"block::Block::read$"])
                    if any(o2.kind == "call" and o2.site is not None and o2.site.bb == rd.bb for o2 in esrc):
                        good_blocks.append(s2.bb)
        if rets and good_blocks and b.must_pass([site.bb], rets, good_blocks):
            ctx.ok(rid, F, "after the commit every path returns Ok(Some(entry)) of the entry just read", b.relfile, site.line)
        else:
            ctx.violate(rid, F, "commit-without-delivery", b.relfile, site.line, "the cursor is committed past an entry on a path that does not return that entry")
    ctx.floor(rid, "checkpoint-guarded cursor commits in read_next", n, 2)


def check_header_tables(ctx, facts):
    encs = {}
    for n in ("block::Block::write", "writer::Writer::submit_batch_via_io_uring"):
        b = facts.body(n)
        ctx.saw_body(b)
        f = fmtfeat.encoder_features(b)
        if f is None:
            ctx.anchor_missing("C01.2", "encoder " + n)
            return
        encs[n] = f
    prefix = facts.const_val("config::PREFIX_META_SIZE")
    for n, f in encs.items():
        b = facts.body(n)
        line = f["_meta_site"].line
        lb = f["len_bytes"]
        ok = (lb.get(0) == "BitAnd(len(ref(META)), 255)" and lb.get(1) == "BitAnd(Shr(len(ref(META)), 8), 255)" and set(lb) == {0, 1})
        if ok:
            ctx.ok("C01.2", n, "encoder writes len(meta) little-endian at [0],[1]", b.relfile, line)
        else:
            ctx.violate("C01.2", n, "encoder-length-bytes", b.relfile, line, "encoder stores the header length as %s, decoders read buf[i] | buf[i+1] << 8" % lb)
        if f["prefix_alloc"] == [prefix]:
            ctx.ok("C01.2", n, "prefix buffer is PREFIX_META_SIZE bytes", b.relfile, line)
        else:
            ctx.violate("C01.2", n, "encoder-prefix-length", b.relfile, line, "prefix buffer length %s != PREFIX_META_SIZE %s" % (f["prefix_alloc"], prefix))
        if f["meta_copy"] == [("2", "Add(2, len(ref(META)))", "META")]:
            ctx.ok("C01.2", n, "metadata copied to [2..2+len]", b.relfile, line)
        else:
            ctx.violate("C01.2", n, "encoder-meta-range", b.relfile, line, "metadata is copied to %s, decoders read [i+2 .. i+2+len]" % (f["meta_copy"],))
        if f["combined_order"] == ["PREFIX", "DATA"]:
            ctx.ok("C01.2", n, "payload follows the prefix buffer", b.relfile, line)
        else:
            ctx.violate("C01.2", n, "encoder-buffer-order", b.relfile, line, "written buffer is %s, expected prefix then payload" % f["combined_order"])
        md = f["metadata"]
        if md.get("read_size") == "len(DATA)" and md.get("checksum") == "checksum64(DATA)" and "TOPIC" in md.get("owned_by", ""):
            ctx.ok("C01.2", n, "Metadata{read_size: len(data), checksum: checksum64(data), owned_by: topic}", b.relfile, line)
        else:
            ctx.violate("C01.2", n, "encoder-metadata-sources", b.relfile, line, "Metadata fields are built from %s" % md)
    n_dec = 0
    for b, s in fmtfeat.all_decode_sites(facts):
        ctx.saw_body(b)
        F = common.short_fn(b.name)
        if True:
            f = fmtfeat.decoder_features(b, s)
            n_dec += 1
            if f is None:
                ctx.violate("C01.2", F, "decoder-shape", b.relfile, s.line, "header decode does not follow the with_capacity/extend_from_slice shape; cannot extract its table")
                continue
            lb = f["len_bytes"]
            if lb == {"lo": 0, "hi": 1, "shift": 8}:
                ctx.ok("C01.2", F, "decoder reads len = buf[i] | buf[i+1] << 8", b.relfile, s.line)
            else:
                ctx.violate("C01.2", F, "decoder-length-bytes", b.relfile, s.line, "decoder reads the header length as %s" % lb)
            mr = f["meta_range"]
            if mr and mr["start_off"] == 2 and mr["end_off"] == 2 and mr["end_has_len"] and not mr["start_extra"]:
                ctx.ok("C01.2", F, "decoder takes metadata from [i+2 .. i+2+len]", b.relfile, s.line)
            else:
                ctx.violate("C01.2", F, "decoder-meta-range", b.relfile, s.line, "decoder takes metadata from %s" % mr)
            bd = f["len_bounds"]
            if bd["lower"] == 1 and bd["upper"] is not None and bd["upper"] <= prefix - 2:
                ctx.ok("C01.2", F, "decode dominated by 1 <= len <= %d" % bd["upper"], b.relfile, s.line)
            else:
                ctx.violate("C01.2", F, "decoder-length-bound", b.relfile, s.line, "header decode is not dominated by 1 <= len <= PREFIX_META_SIZE-2 (found %s)" % bd)
    ctx.floor("C01.2", "header decode sites", n_dec, 1)
    for fn, has in fmtfeat.consumers_reach_decode(facts, ("block::Block::read", "walrus::Walrus::startup_chore", "batch_read_for_topic")).items():
        if has:
            ctx.ok("C01.2", fn, "reaches a checked header decode", trivial=True)
        else:
            ctx.violate("C01.2", "floor", "no header decode reachable from " + fn, None, None, "%s neither contains nor calls a Metadata header decode: the decoder rules would pass vacuously" % fn)
    # stride: every place that steps over an entry uses PREFIX_META_SIZE + read_size
    n_stride = 0
    per_fn = {}
    for fn in ("block::Block::read", "batch_read_for_topic"):
        b = facts.body(fn)
        F = common.short_fn(b.name)
        per_fn[F] = 0
        for site, st in b.assigns():
            rv = st["rv"]
            if rv["k"] == "bin" and rv["op"] in ("AddWithOverflow", "Add"):
                e = expr(b, {"k": "copy", "place": {"l": st["place"]["l"], "p": [{"f": 0, "o": "(tuple)"}]}}) if rv["op"].endswith("WithOverflow") else expr(b, {"k": "copy", "place": st["place"]})
                sh = show(strip_refs(e))
                # the size may also be taken from the payload buffer itself: `PREFIX + payload.len()` where `payload` is
                # the vector handed out as Entry.data (its length is the read_size it was allocated with)
                if sh.startswith("Add(") and not re.search(r"read_size", sh):
                    for side, other in ((e[1], e[2]), (e[2], e[1])):
                        sd_ = strip_refs(side)
                        if isinstance(sd_, tuple) and sd_ and sd_[0] == "len" and fmtfeat.const_eval(strip_refs(other)) is not None:
                            # which local is measured?
                            for cs_ in b.calls(re.compile(r"Vec.*::len$|::len$")):
                                if show(strip_refs(expr(b, {"k": "copy", "place": cs_.node["dest"]}))) != show(sd_):
                                    continue
                                pl_ = borrowed_local(b, cs_.node["args"][0])
                                is_data = any(st2["rv"]["k"] == "agg" and str(st2["rv"].get("name", "")).endswith("block::Entry") and any(op_local(b.resolve_copy(o_)) == pl_ or op_local(o_) == pl_ for o_ in st2["rv"]["ops"])
                                              for s2, st2 in b.assigns())
                                if is_data and pl_ is not None:
                                    n_stride += 1
                                    per_fn[F] += 1
                                    if fmtfeat.const_eval(strip_refs(other)) == prefix:
                                        ctx.ok("C01.2", F, "entry stride = PREFIX_META_SIZE + len(the payload handed out)", b.relfile, st["line"])
                                    else:
                                        ctx.violate("C01.2", F, "entry-stride", b.relfile, st["line"], "entry stride is %s + len(payload), encoders write PREFIX_META_SIZE (%d) + len(data)" % (fmtfeat.const_eval(strip_refs(other)), prefix))
                                break
                if re.search(r"read_size", sh) and sh.startswith("Add("):
                    a, c = strip_refs(e[1]), strip_refs(e[2])
                    ka, kc = fmtfeat.const_eval(a), fmtfeat.const_eval(c)
                    isrs = lambda x: isinstance(x, tuple) and x and x[0] == "field" and x[3] == "read_size"
                    if (ka is not None and isrs(c)) or (kc is not None and isrs(a)):
                        n_stride += 1
                        per_fn[F] += 1
                        k = ka if ka is not None else kc
                        if k == prefix:
                            ctx.ok("C01.2", F, "entry stride = PREFIX_META_SIZE + read_size", b.relfile, st["line"])
                        else:
                            ctx.violate("C01.2", F, "entry-stride", b.relfile, st["line"], "entry stride is %d + read_size, encoders write PREFIX_META_SIZE (%d) + len(data)" % (k, prefix))
    # each of the two readers steps over entries at least once (how often is a matter of code shape)
    for F_, k_ in per_fn.items():
        ctx.floor("C01.2", "entry stride computations in " + F_, k_, 1)


def check_checksum_gate(ctx, facts):
    n = 0
    for name, b in facts.bodies.items():
        if b.j["derived"]:
            continue
        F = common.short_fn(name)
        for site, st in b.assigns():
            rv = st["rv"]
            if not (rv["k"] == "agg" and rv.get("akind") == "adt" and rv.get("name", "").endswith("block::Entry")):
                continue
            ctx.saw_body(b)
            n += 1
            data_e = show(strip_refs(expr(b, rv["ops"][0])))
            data_src, data_locals, _ = origins(b, rv["ops"][0])
            gate = None
            for T in all_tests(b):
                if T.kind != "cmp" or T.op not in ("Ne", "Eq"):
                    continue
                for x, y in ((T.a, T.b), (T.b, T.a)):
                    cs = call_site_of(b, x)
                    if cs is None or not callee_name(cs.node).endswith("config::checksum64"):
                        continue
                    py = op_place(b.resolve_copy(y))
                    yexp = show(strip_refs(expr(b, y)))
                    if "checksum" not in yexp:
                        continue
                    eq_edge = T.false_edge if T.op == "Ne" else T.true_edge
                    if not b.edge_guards(eq_edge, site.bb):
                        continue
                    # same bytes: the checksummed buffer is in the data slice of the entry handed out
                    csrc, clocals, _ = origins(b, cs.node["args"][0])
                    bl = borrowed_local(b, cs.node["args"][0])
                    if (bl is not None and bl in data_locals) or (set(clocals) & set(data_locals)):
                        gate = T
            if gate is not None:
                ctx.ok("C01.3", F, "Entry is constructed only on the checksum-equal edge over the same bytes", b.relfile, st["line"])
            else:
                ctx.violate("C01.3", F, "entry-without-checksum-gate", b.relfile, st["line"],
                            "an Entry is handed out without a dominating comparison of checksum64(its bytes) with the stored checksum")
    ctx.floor("C01.3", "Entry construction sites", n, 2)
    check_checksum_fn(ctx, facts)


def check_checksum_fn(ctx, facts, rid="C01.3"):
    """The checksum of the EMPTY payload is the non-zero start value of the fold: a header whose body was zeroed (read_size 0,
    checksum 0) must not verify.  Accepted shapes: an accumulator initialised with a non-zero constant, updated only inside
    the loop over the bytes and returned as it is; or `bytes.fold(K, |h, b| ..)` with a non-zero constant K."""
    try:
        b = facts.body("config::checksum64")
    except Exception:
        ctx.anchor_missing(rid, "config::checksum64")
        return
    ctx.saw_body(b)
    F = "config::checksum64"
    rets = [st for site, st in b.assigns() if st["place"]["l"] == 0 and not st["place"]["p"]]
    call_rets = [c for c in b.calls() if c.node["dest"]["l"] == 0 and not c.node["dest"]["p"]]
    ok = None
    why = ""
    if len(call_rets) == 1 and not rets and re.search(r"Iterator>?::fold$", strip_generics(callee_name(call_rets[0].node))):
        k = const_of(b, call_rets[0].node["args"][1]) if len(call_rets[0].node["args"]) > 1 else None
        ok = k is not None and k != 0
        why = "fold started from %s" % (hex(k) if k is not None else "a value that is not a constant")
    elif rets and not call_rets and all(st["rv"]["k"] == "use" for st in rets):
        accs = {op_local(b.resolve_copy(st["rv"]["op"])) for st in rets}
        if len(accs) == 1 and None not in accs:
            acc = next(iter(accs))
            defs = b.defs.get(acc, [])
            inits = [n_["rv"]["op"].get("val") for s_, k_, n_ in defs if k_ == "assign" and n_["rv"]["k"] == "use" and n_["rv"]["op"].get("k") == "const"]
            others = [(s_, k_, n_) for s_, k_, n_ in defs if not (k_ == "assign" and n_["rv"]["k"] == "use" and n_["rv"]["op"].get("k") == "const")]
            in_loop = all(b.enclosing_loop(s_.bb)[1] is not None for s_, k_, n_ in others)
            upd = all((k_ == "call" and re.search(r"::wrapping_mul$", strip_generics(n_.get("callee") or ""))) or (k_ == "assign" and n_["rv"]["k"] in ("bin", "use")) for s_, k_, n_ in others)
            ok = len(inits) == 1 and inits[0] not in (0, None) and in_loop and upd and bool(others)
            why = "accumulator started from %s" % (hex(inits[0]) if len(inits) == 1 and inits[0] is not None else inits)
    if ok:
        ctx.ok(rid, F, "the checksum of the empty payload is the fold's non-zero start value (%s): a zeroed header does not verify" % why, b.relfile, b.line)
    elif ok is False:
        ctx.violate(rid, F, "empty-payload-checksum-not-the-start-value", b.relfile, b.line,
                    "checksum64 does not return its accumulator started from one non-zero constant on every path (%s): for the empty payload it can yield 0, the value a zeroed "
                    "header carries, so a header whose metadata was zeroed verifies and is delivered as an (empty) entry that was never appended" % why)
    else:
        ctx.violate(rid, F, "checksum-shape-undecided", b.relfile, b.line,
                    "checksum64 is neither an accumulator loop nor a fold from a constant: what it returns for the empty payload cannot be established (a defaulted 0 would make a "
                    "zeroed header verify): fail closed")


def check_seal_fold(ctx, facts):
    from .core.cond import all_tests
    b = facts.body("reader::Reader::append_block_to_chain")
    ctx.saw_body(b)
    F = common.short_fn(b.name)
    blk = b.arg_local("block")
    if blk is None:
        blk = next((i for i in range(1, b.arg_count + 1) if b.local_ty(i) == "wal::block::Block"), None)
    if blk is None:
        ctx.anchor_missing("C01.5", "Block parameter of " + F)
        return
    bname = b.local_name(blk)
    pushes = [c for c in b.calls(re.compile(r"Vec.*::push$")) if show(strip_refs(expr(b, c.node["args"][0])), 6).endswith(".chain")]
    eqs = []
    for T in all_tests(b):
        if T.kind == "cmp" and T.op == "Eq":
            ea, eb = show(strip_refs(expr(b, T.a)), 6), show(strip_refs(expr(b, T.b)), 6)
            if {ea.rsplit(".", 1)[-1] if ea.endswith(".tail_block_id") else ea, eb.rsplit(".", 1)[-1] if eb.endswith(".tail_block_id") else eb} == {"tail_block_id", bname + ".id"}:
                eqs.append(T)
    stores = {"cur_block_idx": [], "cur_block_offset": []}
    for site, st in b.assigns():
        p = st["place"]
        if p["p"] and isinstance(p["p"][-1], dict) and p["p"][-1].get("n") in stores and str(p["p"][-1].get("o", "")).endswith("ColReaderInfo") and st["rv"]["k"] in ("use", "cast"):
            stores[p["p"][-1]["n"]].append((site, show(strip_refs(expr(b, st["rv"]["op"])), 8)))
    ctx.floor("C01.5", "pushes of the sealed block onto the chain", len(pushes), 1)
    for c in pushes:
        arg = op_local(b.resolve_copy(c.node["args"][1]))
        src = show(strip_refs(expr(b, c.node["args"][1])), 4)
        if not (src == bname or src.startswith("clone(") and bname in src):
            ctx.violate("C01.5", F, "chain-push-of-another-block", b.relfile, c.line, "the block appended to the chain is %s, not the sealed block handed in" % src[:60])
        after = b.reachable_after(c.bb)
        T = next((t for t in eqs if t.bb in after and b.dominates(c.bb, t.bb)), None)
        if T is None:
            ctx.violate("C01.5", F, "no-fold-after-push", b.relfile, c.line,
                        "after appending the sealed block this path never tests `tail_block_id == block.id`: a consumer that was reading the block as the tail keeps cursor (idx, off) "
                        "of the previous block and re-reads the sealed block from offset 0")
            continue
        for fld, want in (("cur_block_idx", r"^(saturating_sub|Sub)\(len\(.*\.chain\)*, 1\)$"), ("cur_block_offset", r"^min\(.*\.tail_offset, %s\.used\)$|^min\(%s\.used, .*\.tail_offset\)$" % (re.escape(bname), re.escape(bname)))):
            mine = [(s_, e) for s_, e in stores[fld] if b.edge_guards(T.true_edge, s_.bb)]
            if len(mine) != 1:
                ctx.violate("C01.5", F, "fold-store-missing:" + fld, b.relfile, b.term(T.bb).get("line"), "under `tail_block_id == block.id` this path stores %s %d times" % (fld, len(mine)))
            elif not re.search(want, mine[0][1]):
                ctx.violate("C01.5", F, "fold-value:" + fld, b.relfile, mine[0][0].line, "%s is set to %s when the tail block is sealed" % (fld, mine[0][1][:80]))
            else:
                ctx.ok("C01.5", F, "sealing folds %s = %s" % (fld, "len - 1" if fld == "cur_block_idx" else "min(tail_offset, block.used)"), b.relfile, mine[0][0].line)
    for fld, sts in stores.items():
        for s_, e in sts:
            if not any(b.edge_guards(t.true_edge, s_.bb) for t in eqs):
                ctx.violate("C01.5", F, "fold-outside-guard:" + fld, b.relfile, s_.line, "%s is overwritten at seal time although the consumer was not reading this block as its tail" % fld)
        norm = {re.sub(r"branch\(.*?\) as Continue\.0", "info", e) for s_, e in sts}
        if len(norm) > 1:
            ctx.violate("C01.5", F, "fold-siblings-differ:" + fld, b.relfile, sts[0][0].line, "the fast and the slow path fold %s differently: %s" % (fld, sorted(norm)))


def _helper_is_exact_end_test(facts, call_node):
    """callee returns `arg_off >= (arg_block).used` (nothing else): (index of offset arg, index of block arg) or None"""
    name = strip_generics(call_node.get("callee") or "")
    hb = next((bb_ for nn, bb_ in facts.bodies.items() if strip_generics(nn) == name), None)
    if hb is None or hb.j.get("derived") or str(hb.j.get("ret_ty", "")) != "bool":
        return None
    rets = []
    for site, st in hb.assigns():
        if st["place"]["l"] == 0 and not st["place"]["p"]:
            rets.append(st)
    if len(rets) != 1 or rets[0]["rv"]["k"] != "bin" or rets[0]["rv"]["op"] != "Ge":
        return None
    ea, eb = strip_refs(expr(hb, rets[0]["rv"]["a"])), strip_refs(expr(hb, rets[0]["rv"]["b"]))
    if ea[0] == "v" and 1 <= ea[1] <= hb.arg_count and eb[0] == "field" and eb[3] == "used":
        base = strip_refs(eb[1])
        if base[0] == "v" and 1 <= base[1] <= hb.arg_count:
            return (ea[1] - 1, base[1] - 1)
    return None


def check_block_left_at_end(ctx, facts):
    from .c02 import _is_cursor_offset_load
    n = 0
    for fn_name in ("read_next", "batch_read_for_topic"):
        b = facts.body(fn_name)
        F = common.short_fn(b.name)
        cp = checkpoint_edges(b)
        steps = []
        # (A) stores cur_block_idx := x + 1
        for site, st in b.assigns():
            p = st["place"]
            if p["p"] and isinstance(p["p"][-1], dict) and p["p"][-1].get("n") == "cur_block_idx" and st["rv"]["k"] in ("use", "cast"):
                e = strip_refs(expr(b, st["rv"]["op"]))
                if e[0] == "Add" and fmtfeat.const_eval(e[2]) == 1:
                    steps.append(site)
        # (B) the planner's chain index: a usize local compared `< len(chain)` and incremented by 1
        idx_locals = set()
        for T in all_tests(b):
            if T.kind == "cmp" and T.op == "Lt":
                eb = strip_refs(expr(b, T.b))
                la = op_local(b.resolve_copy(T.a))
                if la is not None and eb[0] == "len" and b.local_name(la):
                    cs = call_site_of(b, T.b)
                    ty = ""
                    if cs is not None and cs.node["args"]:
                        al = borrowed_local(b, cs.node["args"][0])
                        ty = b.local_ty(al) if al is not None else ""
                        if not ty:
                            ty = b.local_ty(op_local(cs.node["args"][0])) if op_local(cs.node["args"][0]) is not None else ""
                    if "block::Block" in ty or "chain" in show(eb, 6):
                        idx_locals.add(la)
        for l in idx_locals:
            for site, kind, node in b.defs.get(l, []):
                if kind == "assign" and node["rv"]["k"] in ("use", "cast"):
                    e = strip_refs(expr(b, node["rv"]["op"]))
                    if e[0] == "Add" and fmtfeat.const_eval(e[2]) == 1 and show(strip_refs(e[1]), 4) == b.local_name(l):
                        steps.append(site)
        # (C) carriers: locals whose value is copied into a store of cur_block_idx / cur_block_offset (the batch
        # path's `final_block_idx`, `final_block_offset`); an assignment `carrier := x + 1` is a step as well
        from .c02 import cursor_carriers
        carriers = lambda field: cursor_carriers(facts, b, field)
        idx_car = carriers("cur_block_idx")
        off_car = carriers("cur_block_offset")
        seen_steps = {(s_.bb, s_.idx) for s_ in steps}
        for l in idx_car:
            for site, kind, node in b.defs.get(l, []):
                if kind == "assign" and node["rv"]["k"] in ("use", "cast") and (site.bb, site.idx) not in seen_steps:
                    e = strip_refs(expr(b, node["rv"]["op"]))
                    if e[0] == "Add" and fmtfeat.const_eval(e[2]) == 1:
                        steps.append(site)
                        seen_steps.add((site.bb, site.idx))
        for site in steps:
            n += 1
            ok = None
            from .c02 import end_guards
            for edge, off_op in end_guards(b):
                if not b.edge_guards(edge, site.bb):
                    continue
                if _is_cursor_offset_load(b, off_op):
                    ok = "cursor offset >= block.used"
                elif op_local(b.resolve_copy(off_op)) in off_car:
                    # the position the parser has reached (the value it commits as the cursor offset)
                    ok = "reached offset >= block.used"
                elif fn_name == "batch_read_for_topic" and re.search(r"^min\(.*\.used.*\)$|^min\(.*, .*\.used\)$", show(strip_refs(expr(b, off_op)), 8)):
                    # the planner: the range it has just planned ends at the end of the block (what the parser
                    # then really delivers is governed by C01.6)
                    ok = "the planned range reaches block.used"
                else:
                    ea = strip_refs(expr(b, off_op))
                    if ea[0] == "Add" and guarded(b, site.bb, cp):
                        src, _, _ = origins(b, off_op)
                        if any(o.kind == "call" and o.what.endswith("block::Block::read") for o in src):
                            ok = "offset + size of the entry just read >= block.used (consuming read)"
            if ok:
                ctx.ok("C01.7", F, "step to the next block under " + ok, b.relfile, site.line)
            else:
                ctx.violate("C01.7", F, "block-left-before-its-end", b.relfile, site.line,
                            "the reader steps to the next block of the chain without `cursor offset >= block.used` having been established: whatever still lies between the "
                            "cursor and the end of this block (an empty entry behind `offset + header >= used`, entries behind a planned end of range) is never delivered")
    ctx.floor("C01.7", "steps to the next sealed block", n, 2)


CURSOR_PAIRS = (("cur_block_idx", "cur_block_offset"), ("tail_block_id", "tail_offset"))


def check_cursor_pairs(ctx, facts, rid="C01.8"):
    b = facts.body("walrus_read::batch_read_for_topic")
    ctx.saw_body(b)
    F = common.short_fn(b.name)
    eff = Effects(facts)
    def has_cursor_store(cb):
        return any(st["place"]["p"] and isinstance(st["place"]["p"][-1], dict) and str(st["place"]["p"][-1].get("o", "")).endswith("ColReaderInfo")
                   and st["place"]["p"][-1].get("n") in ("cur_block_idx", "cur_block_offset", "tail_block_id", "tail_offset") for site, st in cb.assigns())
    clos = [c for c in [b] + list(facts.closures_of(b, recursive=False)) if has_cursor_store(c)]
    if not clos:
        ctx.anchor_missing(rid, "the commit of the cursor (stores to ColReaderInfo) in " + F)
        return
    n_pairs = 0
    seen_pairs = set()
    for clo in clos:
        capname = {}
        for vd in clo.j["var_debug"]:
            v = vd.get("value") or {}
            if v.get("l") == 1 and v.get("p"):
                for e in v["p"]:
                    if isinstance(e, dict) and "f" in e:
                        capname[e["f"]] = vd["name"]
                        break

        def source(op):
            """name of the captured variable an operand is a copy of (possibly a field / cast of it), or None"""
            cur = op_place(op)
            for _ in range(8):
                if cur is None:
                    return None
                if clo.kind != "Closure":
                    if clo.local_name(cur["l"]) and cur["l"] > clo.arg_count:
                        return clo.local_name(cur["l"])
                elif cur["l"] == 1 and cur["p"]:
                    k = next((e["f"] for e in cur["p"] if isinstance(e, dict) and "f" in e), None)
                    return capname.get(k)
                sd = clo.single_def(cur["l"])
                if not sd or sd[1] != "assign" or sd[2]["rv"]["k"] not in ("use", "cast"):
                    return None
                cur = op_place(sd[2]["rv"]["op"])
            return None
        stores = {}
        for site, st in clo.assigns():
            pl = st["place"]
            if pl["p"] and isinstance(pl["p"][-1], dict) and str(pl["p"][-1].get("o", "")).endswith("ColReaderInfo") and st["rv"]["k"] in ("use", "cast"):
                stores.setdefault(pl["p"][-1].get("n"), []).append((site, source(st["rv"]["op"])))
                # in the commit closure the cursor becomes exactly the position the batch reached: a captured variable (or a
                # constant), not a combination with what the cursor held before (`max`, `min`, `+`)
                fld = pl["p"][-1].get("n")
                if clo.kind == "Closure" and fld in ("cur_block_idx", "cur_block_offset", "tail_block_id", "tail_offset"):
                    sh = show(strip_refs(expr(clo, st["rv"]["op"])), 10)
                    plain = st["rv"]["op"].get("k") == "const" or re.match(
                        r"^(?:(?:unwrap_or|unwrap_or_default|unwrap|expect)\()?_1\.[A-Za-z_0-9]+(?: as \w+)?(?:\.\w+)*(?:, [^_]*)?\)?(?:\.\w+)*(?: as \w+)?$", sh) or re.match(r"^-?\d+$", sh)
                    if plain:
                        ctx.ok(rid, common.short_fn(clo.name), "%s := the position reached (%s)" % (fld, sh[:40]), clo.relfile, site.line)
                    else:
                        ctx.violate(rid, common.short_fn(clo.name), "committed-cursor-not-the-reached-position:" + fld, clo.relfile, site.line,
                                    "the commit sets %s to %s, not to the position the batch reached: combined with the value the cursor held before (an offset inside another "
                                    "block after a rotation), the cursor ends up behind or inside entries and later reads skip or never see them" % (fld, sh[:80]))
        for fa, fb in CURSOR_PAIRS:
            for sa, na in stores.get(fa, []):
                # the partner store of the same arm
                partner = [(sb, nb) for sb, nb in stores.get(fb, []) if sb.bb == sa.bb or clo.dominates(sa.bb, sb.bb) or clo.dominates(sb.bb, sa.bb)]
                for sb, nb in partner:
                    if na is None or nb is None or na == nb:
                        continue
                    la = next((l for l in range(len(b.locals)) if b.local_name(l) == na), None)
                    lb = next((l for l in range(len(b.locals)) if b.local_name(l) == nb), None)
                    if la is None or lb is None:
                        continue
                    da = [s_ for s_, k_, n_ in b.defs.get(la, []) if k_ == "assign"]
                    db = [s_ for s_, k_, n_ in b.defs.get(lb, []) if k_ == "assign"]
                    if (na, nb) in seen_pairs:
                        continue
                    seen_pairs.add((na, nb))
                    if len(b.unique_defs(la)) < 2 or len(b.unique_defs(lb)) < 2:
                        continue        # bound once (a `let` of the value at hand), not a variable that is maintained while parsing
                    n_pairs += 1
                    bad = None
                    for mine, other, nm, onm in ((da, db, na, nb), (db, da, nb, na)):
                        obbs = {o.bb for o in other}
                        for s_ in mine:
                            if s_.bb in obbs:
                                continue
                            if b.must_pass([s_.bb], b.return_blocks(), obbs):
                                continue
                            bad = bad or (s_, nm, onm)
                    if bad:
                        ctx.violate(rid, F, "cursor-halves-assigned-apart:%s/%s" % (fa, fb), b.relfile, bad[0].line,
                                    "`%s` is assigned at line %s without `%s` being assigned with it (not in the same block, and not on every way on to the return): the commit stores "
                                    "%s from one and %s from the other, so a planned range that yields no entry leaves a position made of one block's index and another block's offset"
                                    % (bad[1], bad[0].line, bad[2], fa, fb))
                    else:
                        ctx.ok(rid, F, "`%s` and `%s` (committed as %s / %s) are always assigned together" % (na, nb, fa, fb), b.relfile, sa.line, "%d + %d assignments" % (len(da), len(db)))
    if n_pairs == 0:
        ctx.ok(rid, F, "the commit takes each cursor pair from one variable (or from constants): nothing to pair", b.relfile, b.line)


def run(ctx):
    for k, v in RULES.items():
        ctx.rule(k, v)
    facts = common.mir(ctx, "walrus_rust")
    check_batch_returned_is_consumed(ctx, facts)
    check_read_next_commit(ctx, facts)
    check_header_tables(ctx, facts)
    check_checksum_gate(ctx, facts)
    from .c03 import check_first_entry_widening
    check_first_entry_widening(ctx, facts, rid="C01.4")
    check_seal_fold(ctx, facts)
    from .c03 import check_budget_stop_ends_batch
    check_budget_stop_ends_batch(ctx, facts, rid="C01.6")
    check_block_left_at_end(ctx, facts)
    check_cursor_pairs(ctx, facts)
    from .c07 import check_reader_rejections
    check_reader_rejections(ctx, facts, rid="C01.9")
    from .c06 import check_cursor_limit
    check_cursor_limit(ctx, facts, rid="C01.10")
    ctx.assume("NOT decided: ordering and once-only delivery across blocks, the planner/budget interaction (e.g. a budget that ends inside a sealed block while the tail holds entries), rotation arithmetic")
    return {
        "explanation": "four structural clauses on MIR: must-pass-through between the per-entry counter and the push into the returned vector (with offset-addressed-only edges derived "
                       "from the code), dataflow/NOEXIT obligations on read_next's cursor commits, agreement of encoder and decoder header tables by symbolic expression reconstruction, "
                       "a dominance rule for the checksum comparison before every Entry construction, and an only-allowed-bypass rule for the widening of the first planned range.",
    }
