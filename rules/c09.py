"""C09 - consumer positions survive crashes with the promised delivery guarantee (partial)."""
import re
from .core import common
from .core.mir import op_local, op_place, strip_generics, callee_name
from .core.cond import all_tests, call_site_of, borrowed_local, const_of, result_edges, bypass_edges, classify_edge
from .core.slicing import origins, origin_calls, origin_args
from .core.readflags import checkpoint_edges, stateful_edges, guarded, flag_places, place_key
from .core.absint import Interp, Undecided, Sym, Ref
from .core.effects import Effects, provenance
from .core.taint import Taint
from .c02 import exception_class
from .persistord import check_atomic_replace
from .core.symexpr import expr, show, strip_refs

RULES = {
    "C09.4": "a persisted position means the same entries after the restart (= C06.3): recovery re-creates each block from one unit, and the loop that walks the entries of a unit "
             "leaves it when its read offset reaches DEFAULT_BLOCK_SIZE (strictly: `>=`). A scan that runs on behind an exactly full unit books the next unit's entries into this "
             "block as well; a consumer whose persisted position lies in it gets them twice",
    "C09.1a": "should_persist returns true on every path when the consistency is StrictlyAtOnce (its sub-CFG is evaluated for force in {true,false})",
    "C09.1b": "persist-before-return in read_next (only-allowed-bypass): from every checkpoint-guarded cursor commit, the paths to `return Ok(Some(entry))` reach WalIndex::set; the only "
              "branches that may bypass it are: should_persist returned false (or the Option carrying its verdict is None), checkpoint is false, or the index lock is poisoned; the "
              "position written is the committed one and the key is the topic",
    "C09.1d": "persisted position = cursor position (reaching stores): at every point of read_next where the (index, offset) pair later handed to WalIndex::set is packaged, every store "
              "to the cursor's offset field (cur_block_offset resp. tail_offset, directly or through a callee) that reaches that point without being overwritten stores the very value that "
              "is packaged; a path on which the cursor was moved to another position than the one persisted makes a restart resume from a position the consumer never was at",
    "C09.1e": "a tail position is never persisted behind the reader's own progress: wherever read_next hands `(active block id | TAIL_FLAG, offset)` to the index outside the commit "
              "itself (the provisional persists made while (re)initialising the tail position), the offset is the reader's in-memory tail offset for that block - a load of "
              "ColReaderInfo.tail_offset - and may be the constant 0 only on the edge on which `tail_block_id != active block id` was established. Persisting 0 unconditionally "
              "rewinds the durable position of a StrictlyAtOnce consumer: a poll that finds nothing, or a crash before the read that follows, re-delivers the whole tail block",
    "C09.1c": "persist-before-return in batch_read_for_topic: in the commit closure the `persist to disk` flag is cleared only under ReadConsistency::AtLeastOnce; a persist target is "
              "recorded on both the tail and the sealed arm whenever the flag is set; in the caller both non-empty targets reach WalIndex::set with the only bypass being the poisoned lock",
    "C09.3": "a persisted position is translated back by identity, not by place: every store to the cursor's chain index (ColReaderInfo.cur_block_idx) outside the seal fold of "
             "Reader::append_block_to_chain stores either a constant, the chain length (`caught up`), the index + 1 (advance), a value derived from the persisted sealed index "
             "(BlockPos.cur_block_idx), or the result of a search over the chain that compares block ids (find / position / an explicit loop). `chain.len() - 1` and similar positional "
             "guesses for `the block the persisted tail position names` are reported: when the writer rotated after the position was persisted, the block is not where they expect it",
    "C09.2": "index replacement order (ORD in WalIndex::persist): write tmp -> fsync tmp -> rename over the index (directory fsync is C10.4's obligation), and WalIndex::set calls persist on every path",
}


_SINKS = {}


def index_setters(ctx, facts):
    """Methods of WalIndex that record a position (key, index, offset) and (may) reach
    WalIndex::persist.  Returns a regex matching their call sites.  A setter that can return
    without persisting is a violation wherever a consuming read relies on it."""
    if id(facts) in _SINKS:
        return _SINKS[id(facts)]
    pers = "index::WalIndex::persist"
    names = {}
    changed = True
    must = {pers: True}
    while changed:
        changed = False
        for name, b in facts.bodies.items():
            sn = common.short_fn(name)
            if not sn.startswith("index::WalIndex::") or sn in must or b.kind == "closure" or sn.endswith("::persist"):
                continue
            cs = [c for c in b.calls() if common.short_fn(strip_generics(c.node.get("callee") or "")) in must]
            if not cs:
                continue
            good = [c for c in cs if must[common.short_fn(strip_generics(c.node.get("callee") or ""))]]
            must[sn] = bool(good) and b.must_pass([0], b.return_blocks(), [c.bb for c in good])
            names[sn] = b
            changed = True
    setters = {sn: b for sn, b in names.items() if b.arg_count == 4}
    rx = re.compile("|".join(re.escape(sn) + "$" for sn in sorted(setters)) or r"index::WalIndex::set$")
    _SINKS[id(facts)] = (rx, setters, must)
    return _SINKS[id(facts)]


def check_setters_used(ctx, facts, b, F, calls):
    rx, setters, must = index_setters(ctx, facts)
    for c in calls:
        sn = common.short_fn(strip_generics(c.node.get("callee") or ""))
        if must.get(sn):
            continue
        sb = setters.get(sn)
        ctx.violate("C09.1b", F, "position-setter-can-skip-persist:" + sn.split("::")[-1], b.relfile, c.line,
                    "the consumed position is handed to %s, which can return Ok without having written the index (%s:%s): the read returns although its position is not durable, or a "
                    "later, smaller-looking position (a tail position folded into the sealed chain) is never recorded" % (sn, sb.relfile if sb else "?", sb.line if sb else "?"))


def check_should_persist(ctx, facts):
    b = facts.body("should_persist")
    ctx.saw_body(b)
    F = common.short_fn(b.name)
    adt = facts.adts.get("wal::runtime::walrus::ReadConsistency")
    names = [v["name"] for v in adt["variants"]] if adt else []
    if "StrictlyAtOnce" not in names:
        ctx.anchor_missing("C09.1a", "enum ReadConsistency::StrictlyAtOnce")
        return
    d = names.index("StrictlyAtOnce")
    force_l = b.arg_local("force")
    bad = []
    for force in (False, True):
        env = {1: Ref(-1), -1: {"read_consistency": {"__discr": d}}, 2: Ref(-2), -2: {"reads_since_persist": Sym("n")}}
        if force_l is not None:
            env[force_l] = force
        it = Interp(b)
        try:
            r = it.run({}, env=env)
        except Undecided as e:
            ctx.violate("C09.1a", F, "strict-arm-undecided", b.relfile, b.line, "should_persist cannot be evaluated for StrictlyAtOnce (%s): fail closed" % e)
            return
        if r[0] != "return" or r[1] is not True:
            bad.append(force)
    if bad:
        ctx.violate("C09.1a", F, "strict-does-not-always-persist", b.relfile, b.line,
                    "with ReadConsistency::StrictlyAtOnce should_persist returns false for force=%s: a consuming read returns without its position being persisted" % bad)
    else:
        ctx.ok("C09.1a", F, "StrictlyAtOnce => true for force in {false, true}", b.relfile, b.line)


def _allowed_bypass(b, edge, sp_dest_taint, cp_keys):
    T, which = classify_edge(b, edge)
    if T is None:
        return None
    # (i) branch on the should_persist verdict or on a local carrying it
    if T.kind == "local" and op_local(T.operand) in sp_dest_taint and which == "false":
        return "should_persist verdict false"
    if T.kind == "call" and T.site is not None and strip_generics(T.callee).endswith("should_persist") and which == "false":
        return "should_persist verdict false"
    if T.kind == "discr" and not T.place["p"] and T.place["l"] in sp_dest_taint and which != 1:
        return "verdict Option is None"
    # (ii) checkpoint false
    if T.kind == "local":
        p = op_place(b.resolve_copy(T.operand))
        if p is not None and place_key(p) in cp_keys and which == "false":
            return "checkpoint false"
    # (iii) lock poison: Err edge of a RwLock::write/read result
    if T.kind == "discr" and not T.place["p"]:
        cs = call_site_of(b, {"k": "copy", "place": T.place})
        if cs is not None and re.search(r"RwLock::(write|read)$", callee_name(cs.node)) and which != 0:
            return "index lock poisoned"
    return None


def _closure_packed(b, node, want):
    """`cond.then(|| Packed { a, b })` / `cond.then_some(Packed { .. })`: the locals of `b` that the closure (or the
    argument) packs into the field that is read (`want`), or None if the call is not such a packaging."""
    cn = strip_generics(node.get("callee") or "")
    if not re.search(r"bool::then(_some)?$|Option(::<[^>]*>)?::(map|and_then|filter|or|xor)$", cn):
        return None
    facts_ = getattr(b, "facts", None)
    out = []
    found = False
    for a_ in node.get("args", []):
        al_ = op_local(b.resolve_copy(a_))
        d_ = b.def_rvalue(al_) if al_ is not None else None
        if d_ and d_[0] == "rv" and d_[1]["k"] == "agg" and d_[1].get("akind") == "closure" and facts_ is not None:
            cb = facts_.bodies.get(d_[1].get("name"))
            if cb is None:
                return None
            capname = {}
            for vd in cb.j.get("var_debug", []):
                v = vd.get("value") or {}
                if v.get("l") == 1 and v.get("p"):
                    k = next((e["f"] for e in v["p"] if isinstance(e, dict) and "f" in e), None)
                    if k is not None:
                        capname[k] = vd["name"]
            rets = [st for site, st in cb.assigns() if st["rv"]["k"] == "agg" and st["rv"].get("akind") in ("adt", "tuple") and
                    (st["place"]["l"] == 0 or any(s2["rv"]["k"] == "use" and op_local(s2["rv"]["op"]) == st["place"]["l"] and s2["place"]["l"] == 0 for _, s2 in cb.assigns()))]
            if not rets:
                return None
            for st in rets:
                rv = st["rv"]
                if want is not None and rv.get("akind") == "adt" and want[0] is not None and rv.get("variant") != want[0]:
                    found = True        # another variant than the one that is read: this arm of the reader is not fed from here
                    continue
                ops = rv["ops"]
                if want is not None and want[1] < len(ops):
                    ops = [ops[want[1]]]
                for o_ in ops:
                    if o_.get("k") == "const":
                        continue
                    cur = op_place(o_)
                    nm = None
                    kcap = None
                    for _ in range(8):
                        if cur is None:
                            break
                        if cur["l"] == 1 and cur["p"]:
                            kcap = next((e["f"] for e in cur["p"] if isinstance(e, dict) and "f" in e), None)
                            nm = capname.get(kcap)
                            break
                        sd = cb.single_def(cur["l"])
                        if not sd or sd[1] != "assign" or sd[2]["rv"]["k"] not in ("use", "cast"):
                            break
                        cur = op_place(sd[2]["rv"]["op"])
                    # the very variable captured at this closure's creation (two variables of the function may share a name)
                    pl_ = []
                    cops = d_[1].get("ops") or []
                    if kcap is not None and kcap < len(cops):
                        cl_ = borrowed_local(b, cops[kcap])
                        if cl_ is None:
                            cl_ = op_local(b.resolve_copy(cops[kcap]))
                        if cl_ is not None:
                            pl_ = [cl_]
                    if not pl_:
                        pl_ = b.locals_named(nm) if nm else []
                    if not pl_:
                        return None
                    out.append(pl_[0])
                found = True
        elif al_ is not None and cn.endswith("then_some") and a_ is node["args"][-1]:
            out.append(("whole", al_))      # the packed value itself: the field is still to be selected from it
            found = True
    return out if found else None


def _want_of(pl):
    """(variant name or None, field index) selected by the projections of a place, or None if it has no field projection"""
    var = None
    fld = None
    for e in pl["p"]:
        if isinstance(e, dict) and "d" in e:
            var = e.get("d")
            fld = None
        elif isinstance(e, dict) and "f" in e:
            if fld is None:
                fld = e["f"]
            else:
                return "deep"
    if fld is None:
        return None
    return (var, fld)


def pack_leaves(b, operand, depth=12, by_ctor=None):
    """Named locals that a value is *packaged* from: follows only copies, moves, references, tuple / enum / Option
    packing and unpacking (no arithmetic, no calls).  A read of one field of a packed value follows only the operand
    that was packed into that field (of that variant); nested reads are followed level by level.  Used to say 'the
    offset persisted is the offset committed' without value reasoning."""
    out = set()
    seen = set()
    work = []
    p = op_place(operand)
    if p is None:
        return out
    w0 = _want_of(p)
    # work items: (local, fields still to select, the site where the packaged value was first put together on this way)
    work.append((p["l"], (w0,) if w0 not in (None, "deep") else (), None))

    def leaf(l_, ctor_):
        out.add(l_)
        if by_ctor is not None and ctor_ is not None:
            by_ctor.setdefault((ctor_.bb, ctor_.idx), (ctor_, set()))[1].add(l_)
    while work:
        l, want, ctor = work.pop()
        if (l, want) in seen:
            continue
        seen.add((l, want))
        defs = b.defs.get(l, [])
        pure = True
        nxt = []
        mismatch = False
        for site, kind, node in defs:
            if kind == "call":
                w = want
                if w and w[0][0] in ("Some", None) and w[0][1] == 0:
                    w = w[1:]       # the payload of the Option the call yields
                via = _closure_packed(b, node, w[0] if w else None)
                if via is None:
                    pure = False
                else:
                    if not via:
                        mismatch = True
                    for x in via:
                        if isinstance(x, tuple):
                            nxt.append((x[1], w, ctor))
                        else:
                            nxt.append((x, w[1:] if w else (), ctor or site))
                continue
            if kind == "part":
                continue
            rv = node["rv"]
            if rv["k"] in ("use", "cast", "ref", "rawptr"):
                q = op_place(rv["op"]) if rv["k"] in ("use", "cast") else rv["place"]
                if q is not None:
                    # one step of look-ahead: `x = (checked-arithmetic tuple).0` is a computation of x
                    sd = b.single_def(q["l"])
                    if b.local_name(q["l"]) is None and sd is not None and ((sd[1] == "assign" and sd[2]["rv"]["k"] in ("bin", "un")) or (sd[1] == "call" and _closure_packed(b, sd[2], None) is None)):
                        pure = False
                    else:
                        w = _want_of(q)
                        if w == "deep":
                            pure = False
                        else:
                            nxt.append((q["l"], ((w,) + want) if w is not None else want, ctor))
                # constants (None / 0 initialisers) are neutral
            elif rv["k"] == "agg" and rv.get("akind") in ("tuple", "adt"):
                ops = rv["ops"]
                rest = want
                if want:
                    wv, wf = want[0]
                    if rv.get("akind") == "adt" and wv is not None and rv.get("variant") != wv:
                        mismatch = True
                        continue        # another variant than the one that is read
                    if wf < len(ops) and (rv.get("akind") == "tuple" or wv is None or rv.get("variant") == wv):
                        ops = [ops[wf]]
                        rest = want[1:]
                for o in ops:
                    q = op_place(o)
                    if q is not None:
                        nxt.append((q["l"], rest, ctor or (site if rv.get("akind") == "adt" and not str(rv.get("name", "")).startswith("std::option::Option") else None)))
                    elif len(ops) == 1 and want:
                        mismatch = True     # the field that is read was packed from a constant: nothing to follow, and not a leaf
            else:
                pure = False
        if pure and not nxt and mismatch:
            continue        # only other variants are ever packed here: the read of this variant's field is not fed on this way
        if b.local_name(l) and (not pure or not nxt):
            leaf(l, ctor)
            continue
        if not pure and not b.local_name(l):
            leaf(l, ctor)
            continue
        work.extend(nxt)
    return out


def check_read_next_persist(ctx, facts):
    b = facts.body("read_next")
    ctx.saw_body(b)
    F = common.short_fn(b.name)
    eff = Effects(facts)
    cp = checkpoint_edges(b)
    cp_keys = flag_places(b, "checkpoint")
    n = 0
    sets = b.calls(index_setters(ctx, facts)[0])
    check_setters_used(ctx, facts, b, F, sets)
    sps = b.calls(re.compile(r"should_persist$"))
    # locals carrying a should_persist verdict (data/control dependent)
    verdict = set()
    for sp in sps:
        t = Taint(b, [sp.node["dest"]["l"]], track_memory=False)
        verdict |= t.t
    for site, kinds, callee in eff.sites(b):
        if callee is not None:
            continue
        k = next(iter(kinds))
        if not k.startswith("store:ColReaderInfo.") or k.split(".")[-1] not in ("cur_block_offset", "tail_offset"):
            continue
        if exception_class(b, site, kinds) or not guarded(b, site.bb, cp):
            continue
        n += 1
        # the WalIndex::set calls that can follow this commit on the way to the return
        after = b.reachable_after(site.bb)
        tg = [s for s in sets if s.bb in after]
        if not tg:
            ctx.violate("C09.1b", F, "commit-never-persisted", b.relfile, site.line, "no WalIndex::set is reachable after this cursor commit")
            continue
        by = bypass_edges(b, site.bb, [s.bb for s in tg])
        bad = []
        reasons = set()
        for e in by:
            why = _allowed_bypass(b, e, verdict, cp_keys)
            if why is None:
                # edges that leave towards unwinding / unreachable are not paths
                if b.term(e[1])["k"] == "unreachable":
                    continue
                bad.append(e)
            else:
                reasons.add(why)
        if bad:
            T, which = classify_edge(b, bad[0])
            ctx.violate("C09.1b", F, "persist-skipped-under-extra-condition", b.relfile, b.term(bad[0][0])["line"],
                        "after the cursor commit at line %s the persist of the position can be skipped by a branch that is neither the should_persist verdict, nor checkpoint, nor a poisoned lock" % site.line)
        else:
            ctx.ok("C09.1b", F, "commit -> WalIndex::set can only be bypassed by: %s" % sorted(reasons), b.relfile, site.line)
        # the should_persist call between commit and set
        if any(sp.bb in after or sp.bb == site.bb for sp in sps):
            ctx.ok("C09.1b", F, "commit is followed by the should_persist decision", b.relfile, site.line)
        else:
            ctx.violate("C09.1b", F, "commit-without-persist-decision", b.relfile, site.line, "the commit is not followed by a should_persist decision")
        # value persisted = value committed; key = topic argument
        for s in tg:
            ksrc, _, _ = origins(b, s.node["args"][1])
            if origin_args(ksrc) and "col_name" in origin_args(ksrc) or len(origin_args(ksrc)) == 1:
                ctx.ok("C09.1b", F, "persisted key is the topic argument", b.relfile, s.line)
            else:
                ctx.violate("C09.1b", F, "persisted-key", b.relfile, s.line, "the position is persisted under a key that is not the topic argument")
    ctx.floor("C09.1b", "checkpoint-guarded cursor commits in read_next", n, 2)


def pack_sites(b, operand, depth=10):
    """Statements that build the tuple from which `operand` was later unpacked (follows copies,
    casts, field/downcast projections and Option wrapping backwards)."""
    out = []
    seen = set()
    p0 = op_place(operand)
    if p0 is None:
        return out
    work = [(p0["l"], bool(p0["p"]))]
    while work:
        l, projected = work.pop()
        if l in seen:
            continue
        seen.add(l)
        for site, kind, node in b.defs.get(l, []):
            if kind == "call":
                # `cond.then(|| (idx, off))` / `opt.map(|x| (a, b))`: the tuple is built by a closure of this function; it is
                # presented as if built at the call, over the variables the closure captures
                facts_ = getattr(b, "facts", None)
                for a_ in node.get("args", []):
                    al_ = op_local(b.resolve_copy(a_))
                    d_ = b.def_rvalue(al_) if al_ is not None else None
                    if not (d_ and d_[0] == "rv" and d_[1]["k"] == "agg" and d_[1].get("akind") == "closure" and facts_ is not None):
                        # `cond.then_some((idx, off))`, `Some(..)`-like wrappers: the value passes through the call
                        if al_ is not None and re.search(r"bool::then_some$|Option::(Some|from|filter|or|xor)$|::into$|::from$", strip_generics(node.get("callee") or "")):
                            work.append((al_, projected))
                        continue
                    cb = facts_.bodies.get(d_[1].get("name"))
                    if cb is None:
                        continue
                    for cs_, cst in cb.assigns():
                        crv = cst["rv"]
                        if crv["k"] == "agg" and crv.get("akind") == "tuple" and len(crv["ops"]) >= 2 and cst["place"]["l"] == 0 or (
                                crv["k"] == "agg" and crv.get("akind") == "tuple" and len(crv["ops"]) >= 2 and any(
                                    s2["rv"]["k"] == "use" and op_local(s2["rv"]["op"]) == cst["place"]["l"] and s2["place"]["l"] == 0 for _, s2 in cb.assigns())):
                            ops2 = []
                            okm = True
                            for o_ in crv["ops"]:
                                q_ = op_place(cb.resolve_copy(o_)) if o_.get("k") != "const" else None
                                if o_.get("k") == "const":
                                    ops2.append(o_)
                                    continue
                                nm_ = None
                                for vd in cb.j.get("var_debug", []):
                                    if q_ is not None and vd["value"].get("l") == q_["l"] and [x for x in vd["value"]["p"] if x != "*"] == [x for x in q_["p"] if x != "*"]:
                                        nm_ = vd["name"]
                                if nm_ is None:
                                    # a value computed inside the closure from captures (`info.cur_block_idx as u64`): take its expression's captured root
                                    from .core.symexpr import expr as _e2, show as _s2, strip_refs as _sr2
                                    m_ = re.search(r"_1\.(\w+)", _s2(_sr2(_e2(cb, o_)), 8))
                                    nm_ = m_.group(1) if m_ else None
                                pl_ = b.locals_named(nm_) if nm_ else []
                                if pl_:
                                    ops2.append({"k": "copy", "place": {"l": pl_[0], "p": []}})
                                elif o_ is not crv["ops"][-1]:
                                    ops2.append({"k": "const", "val": None, "dbg": "?"})   # only the offset (last component) is judged
                                else:
                                    okm = False
                            if okm:
                                class _PS:
                                    pass
                                ps_ = _PS()
                                ps_.bb, ps_.idx, ps_.body = site.bb, site.idx, b
                                ps_.line = site.line
                                ps_.node = {"rv": {"k": "agg", "akind": "tuple", "ops": ops2}, "line": site.line}
                                out.append(ps_)
                continue
            if kind != "assign":
                continue
            rv = node["rv"]
            if rv["k"] in ("use", "cast"):
                q = op_place(rv["op"])
                if q is not None:
                    work.append((q["l"], projected or bool(q["p"])))
            elif rv["k"] == "agg":
                if rv.get("akind") == "tuple" and len(rv["ops"]) >= 2:
                    out.append(site)
                else:
                    for o in rv["ops"]:
                        q = op_place(o)
                        if q is not None:
                            work.append((q["l"], projected))
    return out


def reaching_stores(b, stores, at):
    """stores: list of Site (statement or call terminator) that all write one abstract location.
    Returns the subset that reaches program point `at` (a Site) without an intervening store."""
    by_bb = {}
    for st in stores:
        by_bb.setdefault(st.bb, []).append(st)

    def order(x):
        return 10 ** 9 if x.idx == "term" else x.idx
    for v in by_bb.values():
        v.sort(key=order)
    # stores of at.bb that precede `at`
    before = [x for x in by_bb.get(at.bb, []) if order(x) < order(at)]
    if before:
        return [before[-1]]
    out = []
    seen = set()
    work = list(b.pred[at.bb])
    while work:
        n = work.pop()
        if n in seen or n not in b.live_blocks:
            continue
        seen.add(n)
        if n in by_bb:
            if n == at.bb:
                # reached again through a back edge: the stores after `at` in this block
                out.append(by_bb[n][-1])
            else:
                out.append(by_bb[n][-1])
            continue
        work.extend(b.pred[n])
    return out


def check_persisted_equals_cursor(ctx, facts):
    b = facts.body("read_next")
    F = common.short_fn(b.name)
    eff = Effects(facts)
    sets = b.calls(index_setters(ctx, facts)[0])
    stores = {"cur_block_offset": [], "tail_offset": []}
    for site, kinds, callee in eff.sites(b):
        for k in kinds:
            if k.startswith("store:ColReaderInfo.") and k.split(".")[-1] in stores:
                stores[k.split(".")[-1]].append((site, callee))
    n = 0
    seen_p = set()
    for s in sets:
        for P in pack_sites(b, s.node["args"][3]):
            if (P.bb, P.idx) in seen_p:
                continue
            seen_p.add((P.bb, P.idx))
            by_ctor = {}
            packed = pack_leaves(b, P.node["rv"]["ops"][-1], by_ctor=by_ctor)
            packed_sym = show(strip_refs(expr(b, P.node["rv"]["ops"][-1])), 10)
            if not packed:
                continue   # a constant offset (provisional positions) says nothing about a commit
            # the position may have been put together earlier than where it is unpacked for the setter (an enum built at
            # the commit, encoded by a helper after the lock was dropped): the stores are judged where it was built
            at = P
            if len(by_ctor) == 1 and set().union(*[v[1] for v in by_ctor.values()]) == packed:
                at = next(iter(by_ctor.values()))[0]
            assoc = None
            for fld, sts in stores.items():
                rs = reaching_stores(b, [x for x, _ in sts], at)
                vals = []
                for r in rs:
                    callee = next(c for x, c in sts if x is r)
                    if callee is not None:
                        vals.append((r, None))
                    else:
                        v = pack_leaves(b, r.node["rv"]["op"])
                        # the same value spelled out twice is the same value
                        if v != packed and show(strip_refs(expr(b, r.node["rv"]["op"])), 10) == packed_sym:
                            v = packed
                        vals.append((r, v))
                if any(v == packed for _, v in vals):
                    assoc = (fld, vals)
            if assoc is None:
                # the package reads the cursor field itself: consistent by construction
                m = re.search(r"\.(cur_block_offset|tail_offset)\b", packed_sym)
                if m and stores[m.group(1)]:
                    n += 1
                    ctx.ok("C09.1d", F, "the packaged offset is read from the cursor field %s itself" % m.group(1), b.relfile, P.line)
                else:
                    n += 1
                    ctx.violate("C09.1d", F, "persisted-offset-is-not-a-committed-offset", b.relfile, P.line,
                                "the offset packaged for WalIndex::set (%s) is not the value of any store to the cursor that reaches this point: the index records a position other "
                                "than the one the consumer is at" % sorted(b.local_name(x) or "_%d" % x for x in packed))
                continue
            n += 1
            fld, vals = assoc
            bad = [(r, v) for r, v in vals if v != packed]
            if bad:
                r = bad[0][0]
                ctx.violate("C09.1d", F, "persisted-offset-differs-from-cursor:" + fld, b.relfile, r.line,
                            "the position packaged for WalIndex::set at line %s carries the offset %s, but on a path reaching it the cursor's %s was last set to a different value "
                            "(line %s): the index then records a position the consumer is not at, and a restart resumes from there" % (
                                P.line, sorted(b.local_name(x) or "_%d" % x for x in packed), fld, r.line))
            else:
                ctx.ok("C09.1d", F, "every store to %s reaching the package of the persisted position stores the packaged offset" % fld, b.relfile, P.line)
    ctx.floor("C09.1d", "packaged persisted positions in read_next", n, 2)


def check_no_tail_regress(ctx, facts):
    b = facts.body("read_next")
    F = common.short_fn(b.name)
    TAIL = 1 << 63
    n = 0

    def is_tail_offset_load(e):
        return show(e, 8).endswith(".tail_offset")

    def neq_edges(block_id_show):
        out = []
        for T in all_tests(b):
            if T.kind == "cmp" and T.op in ("Eq", "Ne"):
                ea, eb = show(strip_refs(expr(b, T.a)), 8), show(strip_refs(expr(b, T.b)), 8)
                pair = {ea.rsplit(".", 1)[-1] if ea.endswith(".tail_block_id") else ea, eb.rsplit(".", 1)[-1] if eb.endswith(".tail_block_id") else eb}
                if "tail_block_id" in pair and block_id_show in pair:
                    out.append(T.false_edge if T.op == "Eq" else T.true_edge)
        return out

    def judge(op, at_bb, blk_show, depth=0, seen=None):
        """list of (site, why) for definitions of the offset that are neither the in-memory tail offset nor a guarded 0"""
        seen = seen if seen is not None else set()
        bad = []
        if op.get("k") == "const":
            if op.get("val") == 0 and (any(b.edge_guards(e, at_bb) for e in neq_edges(blk_show)) or b.edges_guard(neq_edges(blk_show), at_bb)):
                return []
            return [(at_bb, "constant %s" % op.get("val"))]
        e = strip_refs(expr(b, op))
        if is_tail_offset_load(e):
            return []
        l = op_local(b.resolve_copy(op))
        if l is None or l in seen or depth > 6:
            return [(at_bb, show(e, 6)[:50])]
        seen.add(l)
        defs = [(site, node) for site, kind, node in b.defs.get(l, []) if kind == "assign"]
        if not defs:
            return [(at_bb, show(e, 6)[:50])]
        for site, node in defs:
            rv = node["rv"]
            if rv["k"] in ("use", "cast"):
                bad += judge(rv["op"], site.bb, blk_show, depth + 1, seen)
            else:
                bad.append((site.bb, rv["k"]))
        return bad
    seen_ctor = set()
    for c in b.calls(index_setters(ctx, facts)[0]):
        idx_e = strip_refs(expr(b, c.node["args"][2]))
        if idx_e[0] != "BitOr":
            # the position may reach the setter packaged: an enum value (`Tail { block_id, offset }`) that a helper encodes as
            # (block_id | TAIL_FLAG, offset).  Judge the offset the enum was built with, where it was built
            for P in pack_sites(b, c.node["args"][3]):
                ops = P.node["rv"]["ops"]
                l0 = op_local(ops[0]) if ops[0].get("k") != "const" else None
                sd = b.single_def(l0) if l0 is not None else None
                if not (sd and sd[1] == "assign" and sd[2]["rv"]["k"] == "bin" and str(sd[2]["rv"].get("op")) == "BitOr"):
                    continue
                a_, b_ = sd[2]["rv"]["a"], sd[2]["rv"]["b"]
                if const_of(b, b_) == TAIL:
                    xop = a_
                elif const_of(b, a_) == TAIL:
                    xop = b_
                else:
                    continue
                by_ctor = {}
                pack_leaves(b, xop, by_ctor=by_ctor)
                # ... and the offset handed to the setter is the one packed with that block id (the same constructed value)
                by_ctor_off = {}
                pack_leaves(b, ops[-1], by_ctor=by_ctor_off)
                if not by_ctor and (P.bb, P.idx) not in seen_ctor:
                    # the pair itself is built with the flag (`Some((active_block.id | TAIL_FLAG, 0))` handed to a helper)
                    bshow = show(strip_refs(expr(b, xop)), 8)
                    if bshow.endswith(".id"):
                        seen_ctor.add((P.bb, P.idx))
                        n += 1
                        bad = judge(ops[-1], P.bb, bshow)
                        if bad:
                            ctx.violate("C09.1e", F, "tail-position-persisted-behind-progress", b.relfile, P.line,
                                        "read_next persists (active block | TAIL_FLAG, %s) without regard to the tail offset this reader has already reached in that block: an empty poll, or a crash "
                                        "before the read that follows, leaves the durable position at the start of the block and a StrictlyAtOnce consumer gets the whole tail block again" % bad[0][1])
                        else:
                            ctx.ok("C09.1e", F, "provisional tail persist carries the in-memory tail offset (0 only when the reader was not in this block)", b.relfile, P.line)
                for (cbb, cidx), (csite, _lv) in by_ctor.items():
                    if (cbb, cidx) in seen_ctor:
                        continue
                    rv0 = csite.node.get("rv") if csite.idx != "term" else None
                    off_const_same = rv0 is not None and rv0.get("k") == "agg" and len(rv0.get("ops", [])) == 2 and rv0["ops"][1].get("k") == "const" and ops[-1].get("k") != "const" and not pack_leaves(b, ops[-1])
                    if (cbb, cidx) not in by_ctor_off and not off_const_same:
                        continue
                    rvc = csite.node["rv"] if csite.idx != "term" and csite.node.get("rv") else None
                    if not (rvc and rvc["k"] == "agg" and rvc.get("akind") == "adt" and len(rvc["ops"]) == 2):
                        continue
                    seen_ctor.add((cbb, cidx))
                    bshow = show(strip_refs(expr(b, rvc["ops"][0])), 8)
                    if not bshow.endswith(".id"):
                        continue        # a commit (the block id was remembered earlier), judged by C09.1d
                    n += 1
                    bad = judge(rvc["ops"][1], cbb, bshow)
                    if bad:
                        ctx.violate("C09.1e", F, "tail-position-persisted-behind-progress", b.relfile, csite.line,
                                    "read_next persists (active block | TAIL_FLAG, %s) without regard to the tail offset this reader has already reached in that block: an empty poll, or a crash "
                                    "before the read that follows, leaves the durable position at the start of the block and a StrictlyAtOnce consumer gets the whole tail block again" % bad[0][1])
                    else:
                        ctx.ok("C09.1e", F, "provisional tail persist carries the in-memory tail offset (0 only when the reader was not in this block)", b.relfile, csite.line)
            continue
        sides = [strip_refs(idx_e[1]), strip_refs(idx_e[2])]
        flag = [x for x in sides if x[0] == "c" and x[1] == TAIL]
        blk = [x for x in sides if not (x[0] == "c" and x[1] == TAIL)]
        if not flag or len(blk) != 1 or not show(blk[0], 8).endswith(".id"):
            continue   # packaged commits (C09.1d) and other shapes
        n += 1
        bad = judge(c.node["args"][3], c.bb, show(blk[0], 8))
        if bad:
            ctx.violate("C09.1e", F, "tail-position-persisted-behind-progress", b.relfile, c.line,
                        "read_next persists (active block | TAIL_FLAG, %s) without regard to the tail offset this reader has already reached in that block: an empty poll, or a crash "
                        "before the read that follows, leaves the durable position at the start of the block and a StrictlyAtOnce consumer gets the whole tail block again" % bad[0][1])
        else:
            ctx.ok("C09.1e", F, "provisional tail persist carries the in-memory tail offset (0 only when the reader was not in this block)", b.relfile, c.line)
    ctx.floor("C09.1e", "provisional tail persists in read_next", n, 1)


def _idx_value_flags(facts, b, operand, depth=0):
    """(derived from the persisted sealed index, found by a search over the chain, positional guess) for a value
    that becomes the cursor's chain index; crate-local helpers are looked into (their returned value)."""
    src, _, _ = origins(b, operand, follow_all_calls=True)
    calls = {strip_generics(o.what) for o in src if o.kind == "call"}
    from_pos = any(o.kind == "field" and isinstance(o.what, tuple) and str(o.what[0]).endswith("index::BlockPos") and o.what[1] == "cur_block_idx" for o in src)
    searched = any(re.search(r"Iterator>?::(find|position|rposition|find_map|rfind)$", c_) for c_ in calls)
    guess = any(re.search(r"::(checked_sub|saturating_sub|wrapping_sub|last|last_mut)$", c_) for c_ in calls)
    from .core.slicing import index_counted_from_end
    if any(o.kind == "call" and o.site is not None and index_counted_from_end(b, o.site) for o in src):
        # `chain.iter().rev().position(..)` counts from the end of the chain: used as a chain index it names another block
        searched, guess = False, True
    if depth < 2:
        for c_ in calls:
            hb = next((bb_ for nn, bb_ in facts.bodies.items() if strip_generics(nn) == c_), None)
            if hb is None or hb.j.get("derived") or hb is b:
                continue
            f2, s2, g2 = _idx_value_flags(facts, hb, {"k": "copy", "place": {"l": 0, "p": []}}, depth + 1)
            searched = searched or s2
            guess = guess or g2
            from_pos = from_pos or f2
    return from_pos, searched, guess


def check_position_translation(ctx, facts, rid="C09.3"):
    n = 0
    for name in sorted(facts.bodies):
        b = facts.bodies[name]
        F = common.short_fn(name)
        if b.j.get("derived") or F.endswith("Reader::append_block_to_chain"):
            continue
        for site, st in b.assigns():
            p = st["place"]
            if not (p["p"] and isinstance(p["p"][-1], dict) and p["p"][-1].get("n") == "cur_block_idx" and str(p["p"][-1].get("o", "")).endswith("ColReaderInfo")):
                continue
            if st["rv"]["k"] not in ("use", "cast"):
                continue
            n += 1
            ctx.saw_body(b)
            e = strip_refs(expr(b, st["rv"]["op"]))
            sh = show(e, 10)
            ok = None
            if e[0] == "c":
                ok = "constant"
            elif b.kind.lower() == "closure" and re.match(r"^(?:(?:unwrap_or|unwrap_or_default|unwrap|expect)\()?_1\.[A-Za-z_0-9]+(?: as \w+)?(?:\.\w+)*(?:, [^_]*)?\)?(?:\.\w+)*$", sh):
                ok = "the chain index planned / reached by the batch read (captured local)"
            elif re.match(r"^len\((ref\()*.*\.chain\)*\)$", sh):
                ok = "chain length (caught up)"
            elif e[0] == "Add" and (show(strip_refs(e[1]), 8).endswith(".cur_block_idx") or show(strip_refs(e[1]), 8) in ("idx", "cur_idx")) and fmtfeat_const(e[2]) == 1:
                ok = "advance by one"
            else:
                from_pos, searched, guess = _idx_value_flags(facts, b, st["rv"]["op"])
                guess = guess or "Sub(" in sh
                if searched:
                    ok = "index found by a search over the chain"
                elif from_pos and not guess:
                    ok = "derived from the persisted sealed index"
                elif e[0] == "Add" and fmtfeat_const(e[2]) == 1 and not guess:
                    ok = "advance by one"
            if ok:
                ctx.ok(rid, F, "cur_block_idx := " + ok, b.relfile, site.line)
            else:
                ctx.violate(rid, F, "position-translated-by-place", b.relfile, site.line,
                            "the cursor's chain index is set to %s: a persisted position is mapped back to a block by where that block is expected to be in the chain, not by "
                            "finding it; if the writer rotated after the position was persisted the consumer resumes in another block and skips or repeats entries" % sh[:80])
    ctx.floor(rid, "stores to the cursor's chain index", n, 2)


def fmtfeat_const(e):
    from . import fmtfeat
    return fmtfeat.const_eval(e)


def _carries_result_of(facts, b, local, clo, depth, seen):
    """Does the value of `local` in body `b` come from what the closure `clo` returns - directly, through a closure that
    calls it, or through Option combinators applied to such a value ?"""
    from .core.readflags import _value_defs
    if depth > 6 or (b.name, local) in seen:
        return False
    seen.add((b.name, local))
    for vsite, vrv in _value_defs(b, local):
        if vrv["k"] != "call":
            continue
        node = vrv["node"]
        cn = node.get("callee") or ""
        if strip_generics(cn) == strip_generics(clo.name):
            return True
        cb = facts.bodies.get(cn)
        if cb is not None and cb.kind == "Closure" and _carries_result_of(facts, cb, 0, clo, depth + 1, seen):
            return True
        scn = strip_generics(cn)
        # the result is Some exactly when the receiver is (no predicate can drop it)
        if re.search(r"^std::option::Option(::<[^>]*>)?::(map|inspect|as_ref|as_mut|as_deref|as_deref_mut|take|cloned|copied)$", scn) and node.get("args"):
            rl = op_local(b.resolve_copy(node["args"][0]))
            if rl is None:
                rl = borrowed_local(b, node["args"][0])
            if rl is not None and _carries_result_of(facts, b, rl, clo, depth + 1, seen):
                return True
        # the result is what the closure handed to the combinator returns
        if re.search(r"^std::option::Option(::<[^>]*>)?::(and_then|map_or|map_or_else)$|^std::result::Result(::<[^>]*>)?::(map_or|map_or_else)$", scn) and node.get("args"):
            for a in node["args"][1:]:
                fl_ = op_local(b.resolve_copy(a))
                fd = b.single_def(fl_) if fl_ is not None else None
                if fd and fd[1] == "assign" and fd[2]["rv"]["k"] == "agg" and fd[2]["rv"].get("akind") == "closure":
                    cb = facts.bodies.get(fd[2]["rv"].get("name"))
                    if cb is not None and _carries_result_of(facts, cb, 0, clo, depth + 1, seen):
                        return True
    return False


def strict_commit_records_target(ctx, facts, b, clo, CF, cons_names):
    """C09.1c, decided by evaluating the commit closure: entered for a consuming read (checkpoint = true) of a
    StrictlyAtOnce instance, every path to its return has recorded a persist target - in the value it returns or in a
    variable it captures by mutable reference - that is not the `nothing to persist` value."""
    from .core.absint import explore_paths
    strict = cons_names.index("StrictlyAtOnce")
    ck_keys = set(flag_places(clo, "checkpoint"))

    def place_fn(cp):
        if place_key(cp) in ck_keys:
            return ("val", 1)
        last = cp["p"][-1] if cp["p"] else None
        if isinstance(last, dict) and last.get("n") == "read_consistency":
            return ("variant", strict)
        return None

    def store_key(cp):
        # *(env.k) where capture k is a `&mut` of an enum / Option
        pp = cp["p"]
        if cp["l"] == 1 and len(pp) == 3 and pp[0] == "*" and isinstance(pp[1], dict) and pp[2] == "*" and str(pp[1].get("t", "")).startswith("&mut "):
            ty = pp[1]["t"][5:]
            if ty.startswith("std::option::Option") or (facts.adts.get(ty) and len(facts.adts[ty]["variants"]) >= 2):
                return (pp[1].get("n") or pp[1]["f"], ty)
        return None

    def variant_index(name, v):
        if name in ("std::option::Option",) or (name or "").startswith("std::option::Option"):
            return {"None": 0, "Some": 1}.get(v)
        adt = facts.adts.get(name or "")
        if adt:
            nm = [x["name"] for x in adt["variants"]]
            if v in nm:
                return nm.index(v)
        return None

    def on_call(bb, t, env):
        cn = strip_generics(t.get("callee") or "")
        if re.search(r"bool::then(_some)?$", cn) and t["args"]:
            p_ = op_place(t["args"][0])
            v = env.get(p_["l"]) if p_ is not None and not p_["p"] else None
            if v is not None:
                return {"variant": 1 if v else 0}
        return None

    ret_ty = clo.local_ty(0)
    returns_target = ret_ty not in ("()", "")
    none_idx = None
    tgt_adt = None
    if returns_target and not ret_ty.startswith("std::option::Option"):
        tgt_adt = facts.adts.get(ret_ty)
    results = []

    def on_return(bb, env):
        if returns_target:
            results.append((bb, env.get(("variant", 0), "unknown"), None))
        else:
            st = {k[1]: v for k, v in env.items() if isinstance(k, tuple) and k[0] == "store"}
            results.append((bb, None, st))

    try:
        explore_paths(clo, {}, place_fn=place_fn, on_call=on_call, on_return=on_return, store_key=store_key, variant_index=variant_index)
    except Undecided as e:
        ctx.violate("C09.1c", CF, "strict-commit-undecided", clo.relfile, clo.line, "the commit closure cannot be evaluated for a StrictlyAtOnce consuming read (%s): fail closed" % e)
        return
    if not results:
        ctx.anchor_missing("C09.1c", "a return of the commit closure reachable for a StrictlyAtOnce consuming read")
        return

    def is_none(adt_name, v):
        if isinstance(v, int):
            if adt_name is None or adt_name.startswith("std::option::Option"):
                return v == 0
            adt = facts.adts.get(adt_name)
            return bool(adt) and adt["variants"][v]["name"] == "None"
        return v == "None"

    bad = []
    for bb, rv_, st in results:
        if returns_target:
            if rv_ == "unknown" or is_none(ret_ty, rv_):
                bad.append((bb, "returns %s" % ("an undetermined value" if rv_ == "unknown" else "the `nothing to persist` value")))
        else:
            good = [k for k, v in st.items() if v != "unknown" and not is_none(k[1], v)]
            if not good:
                bad.append((bb, "leaves every captured target unset" if not st else "stores an undetermined / empty target"))
    if bad:
        ctx.violate("C09.1c", CF, "strict-commit-without-persist-target", clo.relfile, clo.term(bad[0][0])["line"] if clo.term(bad[0][0]) else clo.line,
                    "evaluated with checkpoint = true and StrictlyAtOnce, the commit closure %s on %d of its %d return path(s): a consuming batch read returns without its "
                    "position being made durable" % (bad[0][1], len(bad), len(results)))
    else:
        ctx.ok("C09.1c", CF, "evaluated with checkpoint = true and StrictlyAtOnce: every return path records a persist target", clo.relfile, clo.line, "%d return path state(s)" % len(results))
        return True
    return False


def check_batch_persist(ctx, facts):
    b = facts.body("batch_read_for_topic")
    ctx.saw_body(b)
    F = common.short_fn(b.name)
    eff = Effects(facts)
    clo = None
    for c in facts.closures_of(b, recursive=False):
        if any(k.startswith("store:ColReaderInfo") for site, k in eff.prim.get(c.name, [])):
            clo = c
    if clo is None:
        ctx.anchor_missing("C09.1c", "commit closure of " + F)
        return
    ctx.saw_body(clo)
    CF = common.short_fn(clo.name)
    adt = facts.adts.get("wal::runtime::walrus::ReadConsistency")
    names = [v["name"] for v in adt["variants"]]
    alo = names.index("AtLeastOnce")
    # the flag: a named bool local set to true once and to false elsewhere
    flag = None
    for l, ld in enumerate(clo.locals):
        if ld["ty"] == "bool" and ld.get("name") and l > clo.arg_count:
            ds = [(s, n_) for s, k, n_ in clo.defs.get(l, []) if k == "assign" and n_["rv"]["k"] == "use" and n_["rv"]["op"].get("k") == "const"]
            if any(n_["rv"]["op"].get("val") == 1 for s, n_ in ds) and any(n_["rv"]["op"].get("val") == 0 for s, n_ in ds):
                flag = (l, ds)
    sem_ok = strict_commit_records_target(ctx, facts, b, clo, CF, names)
    fl, ds = flag if flag is not None else (None, [])
    alo_edges = []
    for T in all_tests(clo):
        if T.kind == "discr" and any(isinstance(e, dict) and e.get("n") == "read_consistency" for e in T.place["p"]):
            e = T.variant_edges.get(alo)
            if e is None and len(T.variant_edges) == 1 and alo not in T.variant_edges:
                e = (T.bb, T.otherwise)
            if e:
                alo_edges.append(e)
    for s, n_ in ds:
        if n_["rv"]["op"].get("val") == 0:
            if any(clo.edge_guards(e, s.bb) for e in alo_edges):
                ctx.ok("C09.1c", CF, "persist flag cleared only under AtLeastOnce", clo.relfile, s.line)
            else:
                ctx.violate("C09.1c", CF, "persist-flag-cleared-for-strict", clo.relfile, s.line,
                            "the persist-to-disk flag is cleared on a path that a StrictlyAtOnce read can take: the batch returns without its position being durable")
    # the persist target: the variable (captured by the closure) whose value the caller tests before it calls the
    # index setter - an enum with a `None` variant, an Option, ... ; its non-None stores are the recorded targets
    sets0 = b.calls(index_setters(ctx, facts)[0])
    tvars = {}
    for T in all_tests(b):
        if T.kind == "discr" and not T.place["p"] and [s_ for s_ in sets0 if any(b.edge_guards(e_, s_.bb) for e_ in T.variant_edges.values())]:
            l_ = op_local(b.resolve_copy({"k": "copy", "place": {"l": T.place["l"], "p": []}}))
            for cand in (T.place["l"], l_):
                if cand is not None and b.local_name(cand) and clo.captured(b.local_name(cand)) is not None:
                    tvars[b.local_name(cand)] = b.local_ty(cand)
    tstores = []
    from .core.readflags import _value_defs
    for nm in tvars:
        cap = clo.captured(nm)
        ck = place_key(cap)
        for site, st in clo.assigns():
            pl = st["place"]
            pk = place_key(clo.canon_place(pl)) if pl["p"] else place_key(pl)
            if pk != ck and not (ck[-1] == "*" and pk == ck[:-1]):
                continue
            rv = st["rv"]
            vals = [(site, rv)]
            if rv["k"] == "use" and op_local(rv["op"]) is not None:
                vals = list(_value_defs(clo, op_local(rv["op"])))
            for vsite, vrv in vals:
                if vrv["k"] == "agg" and vrv.get("akind") == "adt" and vrv.get("variant") not in ("None",):
                    tstores.append((site, vrv.get("variant")))
    if not tvars:
        # one step of indirection: the tested value is itself computed from the captured target
        # (`let position = match target { Tail{..} => Some(..), .. }; persist(position)`)
        for T in all_tests(b):
            if T.kind == "discr" and not T.place["p"] and [s_ for s_ in sets0 if any(b.edge_guards(e_, s_.bb) for e_ in T.variant_edges.values())]:
                for vsite, vrv in _value_defs(b, T.place["l"]):
                    if not (vrv["k"] == "agg" and vrv.get("akind") == "adt" and vrv.get("variant") not in ("None",)):
                        continue
                    for T2 in all_tests(b):
                        if T2.kind != "discr" or T2.place["p"] or not any(b.edge_guards(e_, vsite.bb) for e_ in T2.variant_edges.values()):
                            continue
                        l2 = op_local(b.resolve_copy({"k": "copy", "place": {"l": T2.place["l"], "p": []}}))
                        for cand in (T2.place["l"], l2):
                            if cand is not None and b.local_name(cand) and clo.captured(b.local_name(cand)) is not None:
                                tvars[b.local_name(cand)] = b.local_ty(cand)
        for nm in tvars:
            cap = clo.captured(nm)
            ck = place_key(cap)
            for site, st in clo.assigns():
                pl = st["place"]
                pk = place_key(clo.canon_place(pl)) if pl["p"] else place_key(pl)
                if pk != ck and not (ck[-1] == "*" and pk == ck[:-1]):
                    continue
                rv = st["rv"]
                vals = [(site, rv)]
                if rv["k"] == "use" and op_local(rv["op"]) is not None:
                    vals = list(_value_defs(clo, op_local(rv["op"])))
                for vsite, vrv in vals:
                    if vrv["k"] == "agg" and vrv.get("akind") == "adt" and vrv.get("variant") not in ("None",):
                        tstores.append((site, vrv.get("variant")))
    if not tvars:
        # the closure may hand the target back as its return value instead (`target = update_state(&mut info)`)
        for T in all_tests(b):
            if T.kind == "discr" and not T.place["p"] and [s_ for s_ in sets0 if any(b.edge_guards(e_, s_.bb) for e_ in T.variant_edges.values())]:
                l_ = op_local(b.resolve_copy({"k": "copy", "place": {"l": T.place["l"], "p": []}}))
                for cand in (T.place["l"], l_):
                    if cand is None:
                        continue
                    vd = list(_value_defs(b, cand))
                    if any(rv_["k"] == "call" and strip_generics(rv_["node"].get("callee") or "") == strip_generics(clo.name) for s_, rv_ in vd):
                        tvars[b.local_name(cand) or "_%d" % cand] = b.local_ty(cand)
        if tvars:
            for vsite, vrv in _value_defs(clo, 0):
                if vrv["k"] == "agg" and vrv.get("akind") == "adt" and vrv.get("variant") not in ("None",):
                    tstores.append((vsite, vrv.get("variant")))
    if not tvars:
        # the value the commit closure returns, carried to the test through Option combinators and wrapper closures
        # (`let t = guard.and_then(|mut i| commit(&mut i)); let slot = t.map(encode); if let Some(..) = slot { set }`)
        for T in all_tests(b):
            if T.kind == "discr" and not T.place["p"] and [s_ for s_ in sets0 if any(b.edge_guards(e_, s_.bb) for e_ in T.variant_edges.values())]:
                if _carries_result_of(facts, b, T.place["l"], clo, 0, set()):
                    tvars[b.local_name(T.place["l"]) or "_%d" % T.place["l"]] = b.local_ty(T.place["l"])
        if tvars:
            for vsite, vrv in _value_defs(clo, 0):
                if vrv["k"] == "agg" and vrv.get("akind") == "adt" and vrv.get("variant") not in ("None",):
                    tstores.append((vsite, vrv.get("variant")))
            tnames_by_local = True
    if not tvars:
        ctx.anchor_missing("C09.1c", "the persist target (a variable captured by the commit closure that the caller tests before WalIndex::set)")
        return
    if not tstores and fl is not None and not sem_ok:
        ctx.violate("C09.1c", CF, "persist-target-missing", clo.relfile, clo.line, "the commit closure never records a persist target in %s" % sorted(tvars))
    for site, v in (tstores if fl is not None else []):
        # bypass edges from the closure's checkpoint-true edge to this store: only flag false / the other arm of saw_tail
        ok_flag = False
        for T in all_tests(clo):
            if T.kind == "local" and op_local(T.operand) == fl and clo.edge_guards(T.true_edge, site.bb):
                ok_flag = True
        if ok_flag:
            ctx.ok("C09.1c", CF, "persist target (%s) recorded under the persist flag" % v, clo.relfile, site.line)
        else:
            ctx.violate("C09.1c", CF, "persist-target-not-under-flag", clo.relfile, site.line, "a persist target (%s) is recorded without consulting the persist flag" % v)
    # each cursor store arm has its target store: for each store of cur_block_offset/tail_offset there is a target store dominated by it or in the same arm
    # (the two arms are the successors of the saw_tail test)
    cp = checkpoint_edges(clo)
    entry_edges = cp if fl is not None else []
    if entry_edges:
        tgt_blocks = [s.bb for s, v in tstores]
        by = bypass_edges(clo, entry_edges[0][1], tgt_blocks) if tgt_blocks else []
        bad = []
        for e in by:
            T, which = classify_edge(clo, e)
            if T is not None and T.kind == "local" and op_local(T.operand) == fl and which == "false":
                continue
            if clo.term(e[1])["k"] == "unreachable":
                continue   # the impossible arm of an exhaustive match
            bad.append(e)
        if bad:
            ctx.violate("C09.1c", CF, "persist-target-skipped", clo.relfile, clo.term(bad[0][0])["line"], "a consuming batch commit can leave the persist target unset although the persist flag is set")
        else:
            ctx.ok("C09.1c", CF, "with the flag set every commit path records a persist target", clo.relfile, clo.line)
    # caller: both arms reach WalIndex::set
    sets = b.calls(index_setters(ctx, facts)[0])
    check_setters_used(ctx, facts, b, F, sets)
    tnames = set(tvars)
    for T in all_tests(b):
        if T.kind != "discr" or T.place["p"]:
            continue
        l_ = op_local(b.resolve_copy({"k": "copy", "place": {"l": T.place["l"], "p": []}}))
        if not ({b.local_name(T.place["l"]) or "_%d" % T.place["l"], b.local_name(l_) if l_ is not None else None} & tnames):
            continue
        ty = b.local_ty(T.place["l"])
        edges_ = dict(T.variant_edges)
        if T.otherwise is not None and b.term(T.otherwise)["k"] != "unreachable":
            edges_["otherwise"] = (T.bb, T.otherwise)
        n_arms = 0
        for v, e in edges_.items():
            reach = b.reachable_from([e[1]])
            tg = [s for s in sets if s.bb in reach and b.edge_guards(e, s.bb)]
            via = None
            if not tg:
                # arms that only encode the target and then join in front of one setter call: the arm persists if every way on
                # from it passes the setter (the bypass edges are judged below)
                cand = [s for s in sets if s.bb in reach]
                if cand and b.must_pass([e[1]], b.return_blocks(), [s.bb for s in cand],
                                       removed_edges=[be for be in bypass_edges(b, e[1], [s.bb for s in cand])
                                                      if (lambda T2, w: T2 is not None and T2.kind == "discr" and (call_site_of(b, {"k": "copy", "place": T2.place}) is not None) and
                                                          re.search(r"RwLock::(write|read)$", callee_name(call_site_of(b, {"k": "copy", "place": T2.place}).node)))(*classify_edge(b, be))]):
                    tg = cand
            if not tg:
                # the arm may hand its value on: an Option built as Some on this arm (and only tested afterwards)
                for T3 in all_tests(b):
                    if T3.kind != "discr" or T3.place["p"] or not b.local_ty(T3.place["l"]).startswith("std::option::Option") or T3.bb not in reach:
                        continue
                    here = [(vs, vr) for vs, vr in _value_defs(b, T3.place["l"]) if b.edge_guards(e, vs.bb)]
                    if here and all(vr["k"] == "agg" and vr.get("variant") == "Some" for vs, vr in here):
                        se = T3.variant_edges.get(1)
                        cand = [s for s in sets if se and b.edge_guards(se, s.bb)]
                        if cand:
                            tg, via = cand, T3
            if tg:
                n_arms += 1
                by = bypass_edges(b, e[1], [s.bb for s in tg])
                bad = []
                for be in by:
                    T2, which = classify_edge(b, be)
                    if via is not None and T2 is not None and T2.bb == via.bb and which != 1:
                        continue   # the None edge of the Option this arm has just built as Some
                    if T2 is not None and T2.kind == "discr":
                        cs = call_site_of(b, {"k": "copy", "place": T2.place})
                        if cs is not None and re.search(r"RwLock::(write|read)$", callee_name(cs.node)):
                            continue
                    if b.term(be[1])["k"] == "unreachable":
                        continue
                    bad.append(be)
                if bad:
                    ctx.violate("C09.1c", F, "persist-arm-skips-set", b.relfile, b.term(bad[0][0])["line"], "a recorded persist target does not reach WalIndex::set")
                else:
                    ctx.ok("C09.1c", F, "persist target arm reaches WalIndex::set (bypass: poisoned lock only)", b.relfile, tg[0].line)
        # every arm but the `nothing to persist` one calls the setter
        adt_t = facts.adts.get(strip_generics(ty)) or next((a for n_, a in facts.adts.items() if n_.endswith("::" + strip_generics(ty).split("::")[-1])), None)
        n_var = 2 if ty.startswith("std::option::Option") else (len(adt_t["variants"]) if adt_t else len(edges_))
        if n_arms < n_var - 1:
            ctx.violate("C09.1c", F, "persist-arm-missing", b.relfile, b.term(T.bb)["line"], "only %d of the %d arms of the persist target test call WalIndex::set" % (n_arms, n_var))


def check_index(ctx, facts):
    check_atomic_replace(ctx, "C09.2", "C09.2", facts, "index::WalIndex::persist", need_dir_sync=False)
    st = facts.body("index::WalIndex::set")
    ctx.saw_body(st)
    ps = st.calls(re.compile(r"index::WalIndex::persist$"))
    if ps and st.must_pass([0], st.return_blocks(), [p.bb for p in ps]) and 0 not in st.return_blocks():
        ctx.ok("C09.2", "index::WalIndex::set", "set() inserts and then returns the result of persist()", st.relfile, ps[0].line)
    else:
        ctx.violate("C09.2", "index::WalIndex::set", "set-without-persist", st.relfile, st.line, "WalIndex::set can return without having called persist")
    ins = st.calls(re.compile(r"HashMap::insert$"))
    if ins and ps and st.dominates(ins[0].bb, ps[0].bb):
        ctx.ok("C09.2", "index::WalIndex::set", "the new position is inserted before persist serialises the map", st.relfile, ins[0].line)
    else:
        ctx.violate("C09.2", "index::WalIndex::set", "persist-before-insert", st.relfile, st.line, "persist runs before the new position is in the map")


def run(ctx):
    for k, v in RULES.items():
        ctx.rule(k, v)
    facts = common.mir(ctx, "walrus_rust")
    check_should_persist(ctx, facts)
    check_read_next_persist(ctx, facts)
    check_persisted_equals_cursor(ctx, facts)
    check_no_tail_regress(ctx, facts)
    check_position_translation(ctx, facts)
    check_batch_persist(ctx, facts)
    check_index(ctx, facts)
    from .c06 import check_entry_scan_bound, check_alloc_rounding
    check_entry_scan_bound(ctx, facts, rid="C09.4")
    check_alloc_rounding(ctx, facts, rid="C09.4")
    ctx.assume("NOT decided: the provisional `TAIL_FLAG|id, 0` persist before the tail read, tail block ids versus recovery's synthetic ids (value-level), the AtLeastOnce redelivery bound")
    ctx.assume("discarded results of WalIndex::set and a poisoned index lock silently skip persistence: I/O-failure behaviour outside this property's crash quantifier (recorded, not armed)")
    return {
        "explanation": "persist-before-return as an only-allowed-bypass rule on the MIR CFG between each cursor commit and the WalIndex::set calls (bypass edges are enumerated and each must "
                       "belong to an allowed class), evaluation of should_persist's StrictlyAtOnce arm, structural obligations on the batch commit closure's persist flag/target, and the "
                       "write-fsync-rename order of the index file.",
    }
