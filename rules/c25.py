"""C25 - segment storage keys map one-to-one to (topic, segment).

The codec in distributed-walrus/src/controller/types.rs is analysed on MIR through the stub
harness (resolved callees: str::rsplitn, str::strip_prefix, str::parse::<u64>)."""
import re
from .core import common
from .core.mir import op_local, op_place, strip_generics, callee_name
from .core.cond import all_tests, const_of
from .core.slicing import origins, origin_args, origin_calls
from .core.symexpr import expr, show, strip_refs, local_expr

RULES = {
    "C25.1": "encoder shape: wal_key formats exactly P, topic, S, segment in that order (P and S literal text of the template or string constants), nothing after the segment; the "
             "segment is an unsigned integer (its Display is [0-9]+)",
    "C25.2": "decoder shape: parse_wal_key splits at the right-most S' (rsplitn(2, S') with a 2-part guard, or rsplit_once(S')), removes the prefix P' from the left part exactly once "
             "(strip_prefix; trimming functions that remove repeated or partial matches are reported), parses the right part as u64 and returns exactly (left part without prefix, "
             "parsed number)",
    "C25.4": "one codec: the separator's text occurs in the sources of the distributed layer only inside wal_key and parse_wal_key - no other function builds or splits keys "
             "with it (a second decoder, however plausible, is outside the lemma)",
    "C25.3": "agreement: S' == S, P' == P, S is non-empty and its last character is not an ASCII digit",
}

LEMMA = ("Let k = P.t.S.d with d = decimal(s). Any occurrence of S that starts to the right of the encoder's occurrence would have to end inside d (k ends with d and d is non-empty), so its "
         "last character would be a digit, contradicting C25.3; hence the right-most occurrence of S in k is the encoder's, rsplitn(2, S) yields [d, P.t], strip_prefix(P) yields t and "
         "d.parse::<u64>() yields s (Display of u64 round-trips through parse). parse_wal_key is a left inverse of wal_key, so wal_key is injective.")


def run(ctx):
    for k, v in RULES.items():
        ctx.rule(k, v)
    facts = common.mir(ctx, "dwshim")
    enc = facts.body("types::wal_key")
    dec = facts.body("types::parse_wal_key")
    ctx.saw_body(enc)
    ctx.saw_body(dec)
    FE, FD = "types::wal_key", "types::parse_wal_key"
    # ---- encoder ---------------------------------------------------------------------
    # the formatted sequence: literal pieces of the template, and arguments; an argument that is a
    # string constant (`const P: &str`, promoted `&P`) is a literal piece too
    tmpl = None
    for site, st in enc.assigns():
        rv = st["rv"]
        if rv["k"] == "use" and rv["op"].get("k") == "const":
            b = common.bytes_const(rv["op"])
            if b is not None:
                tmpl = (b, site)
    P = S = None
    arr = None
    for site, st in enc.assigns():
        if st["rv"]["k"] == "agg" and st["rv"].get("akind") == "array":
            arr = st
    seq = None
    if tmpl is None:
        ctx.violate("C25.1", FE, "encoder-not-a-format", enc.relfile, enc.line, "wal_key is not a format! of a literal template")
    else:
        pieces = common.fmt_template_pieces(tmpl[0])
        if pieces is None:
            ctx.violate("C25.1", FE, "template-undecided", enc.relfile, tmpl[1].line, "format template uses an encoding the rule does not know: fail closed")
        else:
            args = []
            bad_arg = False
            for o in (arr["rv"]["ops"] if arr else []):
                l = op_local(o)
                d = enc.def_rvalue(l)
                if not (d and d[0] == "call" and callee_name(d[1]).endswith("Argument::new_display")):
                    ctx.violate("C25.1", FE, "format-argument-not-display", enc.relfile, arr["line"], "an argument is not formatted with Display")
                    bad_arg = True
                    break
                a0 = d[1]["args"][0]
                # constant string argument?
                cst = None
                cur = enc.resolve_copy(a0)
                for _ in range(10):
                    if cur is None or cst is not None:
                        break
                    if cur.get("k") == "const":
                        cst = cur.get("str")
                        break
                    pl = op_place(cur)
                    if pl is None:
                        break
                    dd = enc.def_rvalue(pl["l"])
                    if not dd or dd[0] != "rv":
                        break
                    rvv = dd[1]
                    flds = [e_ for e_ in pl["p"] if isinstance(e_, dict) and "f" in e_]
                    if rvv["k"] == "agg" and rvv.get("akind") == "tuple" and len(flds) == 1:
                        cur = rvv["ops"][flds[0]["f"]]
                    elif rvv["k"] in ("use", "cast"):
                        cur = rvv["op"]
                    elif rvv["k"] == "ref":
                        cur = {"k": "copy", "place": {"l": rvv["place"]["l"], "p": [e_ for e_ in rvv["place"]["p"] if e_ != "*"]}}
                    else:
                        break
                if cst is not None:
                    args.append(("lit", cst))
                else:
                    ae = strip_refs(expr(enc, a0))
                    if ae[0] == "v" and 1 <= ae[1] <= enc.arg_count:
                        args.append(("arg", ae[1], enc.local_ty(ae[1]), ae[2] or str(ae[1])))
                    else:
                        args.append(("arg", None, "?", show(ae, 4)[:30]))
            if not bad_arg:
                holes = sum(1 for x in pieces if x is None)
                if holes != len(args):
                    ctx.violate("C25.1", FE, "format-arguments", enc.relfile, enc.line, "the template has %d holes and %d arguments" % (holes, len(args)))
                else:
                    seq = []
                    ai = 0
                    for x in pieces:
                        item = ("lit", x.decode("utf-8", "replace")) if x is not None else args[ai]
                        if x is None:
                            ai += 1
                        if item[0] == "lit" and seq and seq[-1][0] == "lit":
                            seq[-1] = ("lit", seq[-1][1] + item[1])
                        elif not (item[0] == "lit" and item[1] == ""):
                            seq.append(item)
    if seq is not None:
        shape = [x[0] for x in seq]
        if shape == ["lit", "arg", "lit", "arg"]:
            P, S = seq[0][1], seq[2][1]
            t_arg, n_arg = seq[1], seq[3]
        elif shape == ["arg", "lit", "arg"]:
            P, S = "", seq[1][1]
            t_arg, n_arg = seq[0], seq[2]
        else:
            t_arg = n_arg = None
            ctx.violate("C25.1", FE, "template-shape", enc.relfile, tmpl[1].line, "the key is formatted as %s; expected prefix, topic, separator, segment" % [x[:2] for x in seq])
        if t_arg is not None:
            ctx.ok("C25.1", FE, "key = %r + topic + %r + segment, nothing after the segment" % (P, S), enc.relfile, tmpl[1].line)
            if t_arg[1] == 1 and n_arg[1] == 2 and t_arg[2] == "&str" and n_arg[2] in ("u64", "u32", "u16", "u8", "usize", "u128"):
                ctx.ok("C25.1", FE, "holes are filled with (topic: &str, segment: %s) in that order" % n_arg[2], enc.relfile, arr["line"])
            else:
                P = S = None
                ctx.violate("C25.1", FE, "format-argument-order-or-type", enc.relfile, arr["line"], "holes are filled with %s of types %s" % ([t_arg[3], n_arg[3]], [t_arg[2], n_arg[2]]))
    # ---- decoder ---------------------------------------------------------------------
    def str_of(o):
        if o.get("str") is not None:
            return o["str"]
        l = op_local(dec.resolve_copy(o))
        d = dec.def_rvalue(l) if l is not None else None
        if d and d[0] == "rv" and d[1]["k"] == "use" and d[1]["op"].get("str") is not None:
            return d[1]["op"]["str"]
        return None
    rs = dec.calls(re.compile(r"str>?::(rsplitn|rsplit_once)$|str::(rsplitn|rsplit_once)$"))
    others = dec.calls(re.compile(r"str>?::(splitn|split|rsplit|split_once|split_terminator|rsplit_terminator)$|str::(splitn|split|rsplit|split_once)$"))
    Sd = Pd = None
    LEFT = RIGHT = None
    if len(rs) != 1 or others:
        ctx.violate("C25.2", FD, "decoder-split", dec.relfile, (rs or others or [None])[0].line if (rs or others) else dec.line,
                    "parse_wal_key does not split with exactly one right-most split (rsplitn(2, S) or rsplit_once(S)); found %s" % [callee_name(s.node).split("::")[-1] for s in rs + others])
    else:
        kind = callee_name(rs[0].node).split("::")[-1]
        src, _, _ = origins(dec, rs[0].node["args"][0])
        if kind == "rsplitn":
            n = const_of(dec, rs[0].node["args"][1])
            Sd = str_of(rs[0].node["args"][2])
            if n == 2 and Sd is not None and len(origin_args(src)) == 1:
                ctx.ok("C25.2", FD, "splits the key with rsplitn(2, %r)" % Sd, dec.relfile, rs[0].line)
            else:
                ctx.violate("C25.2", FD, "decoder-split-arguments", dec.relfile, rs[0].line, "rsplitn is called with n=%s, separator %s" % (n, Sd))
            LEFT = r"(?:ref\()*collect\(rsplitn\(.*?\)\)+\[1\]\)*"
            RIGHT = r"(?:ref\()*collect\(rsplitn\(.*?\)\)+\[0\]\)*"
            # 2-part guard: Ne(len(parts), 2) -> None
            guard = False
            for T in all_tests(dec):
                if T.kind == "cmp" and T.op in ("Ne", "Eq") and const_of(dec, T.b) == 2:
                    e = show(strip_refs(expr(dec, T.a)), 12)
                    if e.startswith("len(") and "rsplitn" in e:
                        bad_edge = T.true_edge if T.op == "Ne" else T.false_edge
                        nb = [site.bb for site, st in dec.assigns() if st["place"]["l"] == 0 and st["rv"]["k"] == "agg" and st["rv"].get("variant") == "None"]
                        if any(dec.edge_guards(bad_edge, b) for b in nb):
                            guard = True
            # or: the two pieces are taken from the iterator itself, `pieces.next()?` twice - the first is the right part
            # (rsplitn walks from the back), the second the left part; a missing piece returns None through the `?`
            nexts = []
            for c_ in dec.calls(re.compile(r"Iterator>?::next$")):
                rsrc, _, _ = origins(dec, c_.node["args"][0], stop_calls=[r"::rsplitn$"])
                if any(o.kind == "call" and o.what.endswith("::rsplitn") and o.site is not None and o.site.bb == rs[0].bb for o in rsrc):
                    nexts.append(c_)
            iter_form = False
            if not guard and len(nexts) == 2:
                a_, b_ = nexts
                if dec.dominates(b_.bb, a_.bb) and not dec.dominates(a_.bb, b_.bb):
                    a_, b_ = b_, a_
                both_q = True
                for c_ in (a_, b_):
                    br = [x for x in dec.calls(re.compile(r"Try>::branch$")) if op_local(dec.resolve_copy(x.node["args"][0])) == c_.node["dest"]["l"]]
                    if not br:
                        both_q = False
                if dec.dominates(a_.bb, b_.bb) and both_q:
                    iter_form = True
                    guard = True
                    NEXT_RIGHT, NEXT_LEFT = a_, b_
                    LEFT = RIGHT = r"(?:ref\()*branch\(next\((?:ref\()*rsplitn\(.*?\)\)+ as Continue\.0\)*"
            if guard:
                ctx.ok("C25.2", FD, "returns None unless the split produced exactly 2 parts", dec.relfile, dec.line)
            else:
                ctx.violate("C25.2", FD, "missing-two-part-guard", dec.relfile, dec.line, "parse_wal_key does not require that the split produced 2 parts")
        else:
            Sd = str_of(rs[0].node["args"][1])
            if Sd is not None and len(origin_args(src)) == 1:
                ctx.ok("C25.2", FD, "splits the key at the right-most %r with rsplit_once (None when absent)" % Sd, dec.relfile, rs[0].line)
            else:
                ctx.violate("C25.2", FD, "decoder-split-arguments", dec.relfile, rs[0].line, "rsplit_once is called with separator %s" % Sd)
            base = r"(?:ref\()*(?:branch\(rsplit_once\(.*?\)\) as Continue\.0|rsplit_once\(.*?\) as Some\.0)"
            LEFT = base + r"\.0\)*"
            RIGHT = base + r"\.1\)*"
    # the returned pair
    ret = None
    for site, st in dec.assigns():
        if st["place"]["l"] == 0 and st["rv"]["k"] == "agg" and st["rv"].get("variant") == "Some":
            ret = (site, st)
    if ret is None:
        ctx.violate("C25.2", FD, "no-some-return", dec.relfile, dec.line, "parse_wal_key never returns Some")
    elif LEFT is not None:
        e = strip_refs(expr(dec, ret[1]["rv"]["ops"][0]))
        sh = show(e, 40)
        # strings appear as 'lit' or as ?path::CONST in the expression text: normalise named constants
        def unconst(txt):
            def rep(m):
                c = facts.consts.get(m.group(1)) or next((v for k, v in facts.consts.items() if k.endswith(m.group(1))), None)
                return repr(c["str"]) if c and c.get("str") is not None else m.group(0)
            return re.sub(r"\?([A-Za-z0-9_:]+)", rep, txt)
        shn = unconst(sh)
        mt = re.match(r"^\((?:to_string|to_owned|from|into)\((?:ref\()*(?:branch\(strip_prefix\(" + LEFT + r", '(.*?)'\)\) as Continue\.0|strip_prefix\(" + LEFT + r", '(.*?)'\) as Some\.0)\)*\)*, (.*)\)$", shn)
        if mt and locals().get("iter_form"):
            # which piece is which is decided by the order of the two next() calls, which the expression text cannot show
            tsrc, _, _ = origins(dec, ret[1]["rv"]["ops"][0], stop_calls=[r"Iterator>?::next$"], follow_all_calls=True)
            nsrc, _, _ = origins(dec, ret[1]["rv"]["ops"][1] if len(ret[1]["rv"]["ops"]) > 1 else ret[1]["rv"]["ops"][0], stop_calls=[r"Iterator>?::next$"], follow_all_calls=True)
            tn = {(o.site.bb, o.site.idx) for o in tsrc if o.kind == "call" and o.what.endswith("::next") and o.site is not None}
            nn = {(o.site.bb, o.site.idx) for o in nsrc if o.kind == "call" and o.what.endswith("::next") and o.site is not None}
            tup = strip_refs(expr(dec, ret[1]["rv"]["ops"][0]))
            if True:
                # the returned value is one tuple operand: slice its two components
                d_ = dec.def_rvalue(op_local(dec.resolve_copy(ret[1]["rv"]["ops"][0])))
                if d_ and d_[0] == "rv" and d_[1]["k"] == "agg" and len(d_[1]["ops"]) == 2:
                    tsrc, _, _ = origins(dec, d_[1]["ops"][0], stop_calls=[r"Iterator>?::next$"], follow_all_calls=True)
                    nsrc, _, _ = origins(dec, d_[1]["ops"][1], stop_calls=[r"Iterator>?::next$"], follow_all_calls=True)
                    tn = {(o.site.bb, o.site.idx) for o in tsrc if o.kind == "call" and o.what.endswith("::next") and o.site is not None}
                    nn = {(o.site.bb, o.site.idx) for o in nsrc if o.kind == "call" and o.what.endswith("::next") and o.site is not None}
            if tn != {(NEXT_LEFT.bb, NEXT_LEFT.idx)} or nn != {(NEXT_RIGHT.bb, NEXT_RIGHT.idx)}:
                mt = None
                ctx.violate("C25.2", FD, "decoder-pieces-swapped", dec.relfile, ret[0].line,
                            "rsplitn yields the right-most piece first: the topic must come from the second next() and the segment number from the first")
                shn = ""
        if mt:
            Pd = mt.group(1) if mt.group(1) is not None else mt.group(2)
            ctx.ok("C25.2", FD, "topic = left part with the prefix %r removed exactly once (strip_prefix)" % Pd, dec.relfile, ret[0].line)
            num = mt.group(3)
            if re.match(r"^branch\(ok\(parse\(" + RIGHT + r"\)\)\) as Continue\.0$", num) or re.match(r"^ok\(parse\(" + RIGHT + r"\)\) as Some\.0$", num):
                ctx.ok("C25.2", FD, "segment = right part parsed as a number", dec.relfile, ret[0].line)
            else:
                ctx.violate("C25.2", FD, "decoder-number-source", dec.relfile, ret[0].line, "the segment number is %s; expected <right part>.parse().ok()?" % num[:120])
        else:
            culprit = re.search(r"(trim_start_matches|trim_matches|trim_end_matches|trim_left_matches|replace|replacen|trim_start|trim|strip_suffix|to_lowercase|to_uppercase)\(", shn)
            if culprit:
                ctx.violate("C25.2", FD, "prefix-not-removed-exactly-once:" + culprit.group(1), dec.relfile, ret[0].line,
                            "the topic is obtained with %s, which does not remove the prefix exactly once: a topic that itself begins with the prefix (or contains what is trimmed) "
                            "decodes to a different topic, so two keys map to one (topic, segment)" % culprit.group(1))
            else:
                ctx.violate("C25.2", FD, "decoder-result-shape", dec.relfile, ret[0].line,
                            "the returned pair is %s; expected (left part).strip_prefix(P)?.to_string() and (right part).parse().ok()?" % shn[:220])
        ps = dec.calls(re.compile(r"str>?::parse$|str::parse$"))
        if len(ps) == 1 and "parse::<u64>" in (ps[0].node.get("callee_generic") or ""):
            ctx.ok("C25.2", FD, "the number is parsed as u64", dec.relfile, ps[0].line)
        else:
            ctx.violate("C25.2", FD, "segment-parse-type", dec.relfile, dec.line, "the segment is parsed as %s" % [p.node.get("callee_generic") for p in ps])
    # ---- the decoder turns a key down only for the three reasons the lemma allows ------------
    # (no separator, no prefix, the right part is not a number): every way to a None result is decided by the result of
    # the split, of strip_prefix, of parse, or by the 2-part guard.  An extra test on the pieces - however reasonable a
    # "canonical form" check looks - can reject a key that wal_key produces (segment 0 under `no leading zero`)
    from .core.cond import all_tests as _all_tests, call_site_of as _cso
    none_sites = []
    for site, st in dec.assigns():
        rv = st["rv"]
        if st["place"]["l"] == 0 and not st["place"]["p"] and rv["k"] == "agg" and rv.get("variant") == "None":
            none_sites.append(site)
    for c_ in dec.calls(re.compile(r"::from_residual$")):
        if c_.node["dest"]["l"] == 0 and not c_.node["dest"]["p"]:
            none_sites.append(c_)
    n_none = 0
    for site in none_sites:
        n_none += 1
        guards = []
        for T in _all_tests(dec):
            for e_ in [getattr(T, "true_edge", None), getattr(T, "false_edge", None)] + list(getattr(T, "variant_edges", {}).values()):
                if e_ and dec.edge_guards(e_, site.bb):
                    guards.append((T, e_))
        inner = None
        for T, e_ in guards:
            if all(e2 == e_ or dec.edge_guards(e2, e_[0]) for _, e2 in guards):
                inner = (T, e_)
        why = None
        if inner is not None:
            T = inner[0]
            if T.kind == "discr":
                src_, _, _ = origins(dec, {"k": "copy", "place": T.place}, follow_all_calls=True)
                calls_ = {strip_generics(o.what) for o in src_ if o.kind == "call"}
                if any(re.search(r"str>?::(rsplit_once|rsplitn|strip_prefix|parse)$|::parse$|Iterator>?::next$|Result(::<[^>]*>)?::ok$", c2) for c2 in calls_) and not any(
                        re.search(r"::(starts_with|ends_with|contains|is_empty|all|any|eq|ne|len|bytes|chars|trim\w*|is_ascii\w*)$", c2) for c2 in calls_):
                    why = "result of the split / prefix removal / number parse"
            elif T.kind == "cmp":
                ea_, eb_ = show(strip_refs(expr(dec, T.a)), 6), show(strip_refs(expr(dec, T.b)), 6)
                if (const_of(dec, T.b) == 2 or const_of(dec, T.a) == 2) and ("len(" in ea_ + eb_):
                    why = "the split did not yield 2 parts"
        if why:
            ctx.ok("C25.2", FD, "a None result is decided by %s" % why, dec.relfile, site.line)
        else:
            ctx.violate("C25.2", FD, "decoder-rejects-on-extra-condition", dec.relfile, site.line,
                        "parse_wal_key can answer None for a reason other than `no separator`, `no prefix` or `not a number`: a test on the pieces that wal_key's own output can "
                        "fail (e.g. `no leading zero` rejects segment 0) makes the round trip partial")
    ctx.floor("C25.2", "None results of the decoder", n_none, 2)
    # ---- agreement -------------------------------------------------------------------
    if P is not None and S is not None and Sd is not None and Pd is not None:
        if Sd == S and Pd == P:
            ctx.ok("C25.3", FD, "decoder separator and prefix equal the encoder's (%r, %r)" % (S, P), dec.relfile, dec.line)
        else:
            ctx.violate("C25.3", FD, "codec-constants-differ", dec.relfile, dec.line, "encoder uses prefix %r / separator %r, decoder uses %r / %r" % (P, S, Pd, Sd))
        if S and not S[-1].isdigit():
            ctx.ok("C25.3", FE, "separator is non-empty and does not end with a digit", enc.relfile, enc.line)
        else:
            ctx.violate("C25.3", FE, "separator-can-occur-in-number", enc.relfile, enc.line, "separator %r is empty or ends with a digit: the right-most occurrence is not necessarily the encoder's" % S)
    # ---- one codec ------------------------------------------------------------------
    # The lemma is about wal_key / parse_wal_key.  Any other function of the distributed layer that takes keys apart (or
    # puts them together) with the separator's text is a second codec that nothing above judges
    if S:
        import os
        from .core import ast as A
        root = os.path.join(os.environ.get("VERIF_REPO", "/repo"), "distributed-walrus", "src")
        rels = []
        for dp, dn, fn_ in os.walk(root):
            for f_ in sorted(fn_):
                if f_.endswith(".rs"):
                    rels.append(os.path.relpath(os.path.join(dp, f_), os.environ.get("VERIF_REPO", "/repo")))
        core = S.strip() or S
        others = []
        n_files = 0
        try:
            files = A.load(ctx, sorted(rels))
        except Exception as e:     # a file the syntax-tree extractor cannot read: fail closed
            files = {}
            ctx.violate("C25.4", "distributed-walrus", "sources-not-readable", "distributed-walrus/src", None, "the sources could not be scanned for other uses of the separator: %s" % str(e)[:120])
        for rel, af in files.items():
            n_files += 1
            for it in af.items:
                if it.get("k") != "fn" or not isinstance(it.get("body"), dict):
                    continue
                if rel.endswith("controller/types.rs") and it["name"] in ("wal_key", "parse_wal_key"):
                    continue
                if "test" in (it.get("attrs") or []) or "cfg(test)" in str(it.get("attrs") or "") or "tests" in (it.get("ctx") or ""):
                    continue
                for n in A.walk(it["body"]):
                    if not isinstance(n, dict):
                        continue
                    t = None
                    if n.get("k") == "lit" and isinstance(n.get("text"), str) and n["text"].startswith(("\"", "r\"", "b\"", "r#")):
                        t = n["text"]
                    elif n.get("k") == "macro":
                        t = n.get("tokens") or ""
                    if t and core in t.replace("{ }", "{}"):
                        others.append((rel, it["name"], n.get("line")))
        if others:
            ctx.violate("C25.4", "%s::%s" % (others[0][0].split("/")[-1][:-3], others[0][1]), "second-wal-key-codec", others[0][0], others[0][2],
                        "%s uses the separator text %r outside wal_key / parse_wal_key: keys are put together or taken apart by code that the codec rules do not judge "
                        "(e.g. a decoder that finds the separator with a forward scan mis-splits topics that end in a prefix of it)" % (others[0][1], core))
        elif n_files:
            ctx.ok("C25.4", "distributed-walrus", "the separator text %r is used only by wal_key and parse_wal_key (%d files scanned)" % (core, n_files), "distributed-walrus/src", None)
        ctx.floor("C25.4", "source files of distributed-walrus scanned", n_files, 5)
    ctx.assume("u64::to_string / str::parse::<u64> round-trip (std); rsplitn(2, S) splits at the right-most occurrence of S and yields the right part first (std)")
    ctx.assume("controller/types.rs is type-checked through harness/dwshim (real file, stub dependencies)")
    return {
        "explanation": "codec obligations decided on the MIR of wal_key / parse_wal_key (template bytes of the format string, argument order and types, resolved str methods and their "
                       "literal arguments, the symbolic expression of the returned pair); together with the written lemma they give parse(wal_key(t, s)) = (t, s) for all strings t and all u64 s.",
        "lemma": LEMMA,
    }
