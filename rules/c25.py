"""C25 - segment storage keys map one-to-one to (topic, segment).

The codec in distributed-walrus/src/controller/types.rs is analysed on MIR through the stub
harness (resolved callees: str::rsplitn, str::strip_prefix, str::parse::<u64>)."""
import re
from .core import common
from .core.mir import op_local, op_place, strip_generics, callee_name
from .core.cond import all_tests, const_of
from .core.slicing import origins, origin_args, origin_calls
from .core.symexpr import expr, show, strip_refs, local_expr

RULES = {
    "C25.1": "encoder shape: wal_key is format!(P \"{}\" S \"{}\") with the topic in the first hole, the segment in the second, nothing after the second hole; the segment is an "
             "unsigned integer (its Display is [0-9]+)",
    "C25.2": "decoder shape: parse_wal_key splits with rsplitn(2, S'), returns None unless 2 parts were produced, strips prefix P' from the part at index 1 (the left part), parses the "
             "part at index 0 (the right part) as u64 and returns exactly (left part without prefix, parsed number)",
    "C25.3": "agreement: S' == S, P' == P, S is non-empty and its last character is not an ASCII digit",
}

LEMMA = ("Let k = P.t.S.d with d = decimal(s). Any occurrence of S that starts to the right of the encoder's occurrence would have to end inside d (k ends with d and d is non-empty), so its "
         "last character would be a digit, contradicting C25.3; hence the right-most occurrence of S in k is the encoder's, rsplitn(2, S) yields [d, P.t], strip_prefix(P) yields t and "
         "d.parse::<u64>() yields s (Display of u64 round-trips through parse). parse_wal_key is a left inverse of wal_key, so wal_key is injective.")


def run(ctx):
    for k, v in RULES.items():
        ctx.rule(k, v)
    facts = common.mir(ctx, "dwshim")
    enc = facts.body("types::wal_key")
    dec = facts.body("types::parse_wal_key")
    ctx.saw_body(enc)
    ctx.saw_body(dec)
    FE, FD = "types::wal_key", "types::parse_wal_key"
    # ---- encoder ---------------------------------------------------------------------
    tmpl = None
    for site, st in enc.assigns():
        rv = st["rv"]
        if rv["k"] == "use" and rv["op"].get("k") == "const":
            b = common.bytes_const(rv["op"])
            if b is not None:
                tmpl = (b, site)
    P = S = None
    if tmpl is None:
        ctx.violate("C25.1", FE, "encoder-not-a-format", enc.relfile, enc.line, "wal_key is not a format! of a literal template")
    else:
        pieces = common.fmt_template_pieces(tmpl[0])
        if pieces is None:
            ctx.violate("C25.1", FE, "template-undecided", enc.relfile, tmpl[1].line, "format template uses an encoding the rule does not know: fail closed")
        elif len(pieces) == 4 and pieces[0] is not None and pieces[1] is None and pieces[2] is not None and pieces[3] is None:
            P, S = pieces[0].decode("utf-8", "replace"), pieces[2].decode("utf-8", "replace")
            ctx.ok("C25.1", FE, "template is P{}S{} with P=%r S=%r and nothing after the second hole" % (P, S), enc.relfile, tmpl[1].line)
        elif len(pieces) == 3 and pieces[0] is None and pieces[1] is not None and pieces[2] is None:
            P, S = "", pieces[1].decode("utf-8", "replace")
            ctx.ok("C25.1", FE, "template is {}S{} with empty prefix, S=%r" % S, enc.relfile, tmpl[1].line)
        else:
            ctx.violate("C25.1", FE, "template-shape", enc.relfile, tmpl[1].line, "format template pieces are %s; expected prefix, hole, separator, hole" % pieces)
    # argument order and formatters
    arr = None
    for site, st in enc.assigns():
        if st["rv"]["k"] == "agg" and st["rv"].get("akind") == "array":
            arr = st
    if arr is None or len(arr["rv"]["ops"]) != 2:
        ctx.violate("C25.1", FE, "format-arguments", enc.relfile, enc.line, "wal_key does not format exactly two arguments")
    else:
        tys = []
        srcs = []
        for o in arr["rv"]["ops"]:
            l = op_local(o)
            d = enc.def_rvalue(l)
            if not (d and d[0] == "call" and callee_name(d[1]).endswith("Argument::new_display")):
                ctx.violate("C25.1", FE, "format-argument-not-display", enc.relfile, arr["line"], "an argument is not formatted with Display")
                tys = None
                break
            ae = strip_refs(expr(enc, d[1]["args"][0]))
            if ae[0] == "v" and 1 <= ae[1] <= enc.arg_count:
                srcs.append([ae[2] or str(ae[1])])
                tys.append(enc.local_ty(ae[1]))
            else:
                srcs.append([])
                tys.append("?")
        if tys is not None:
            names = [s_[0] if s_ else "?" for s_ in srcs]
            a1 = enc.arg_local(names[0]) if names[0] != "?" else None
            a2 = enc.arg_local(names[1]) if names[1] != "?" else None
            if a1 == 1 and a2 == 2 and tys[0] == "&str" and tys[1] in ("u64", "u32", "u16", "u8", "usize", "u128"):
                ctx.ok("C25.1", FE, "holes are filled with (topic: &str, segment: %s) in that order" % tys[1], enc.relfile, arr["line"])
            else:
                ctx.violate("C25.1", FE, "format-argument-order-or-type", enc.relfile, arr["line"], "holes are filled with %s of types %s" % (names, tys))
    # ---- decoder ---------------------------------------------------------------------
    rs = dec.calls(re.compile(r"str>?::rsplitn$|str::rsplitn$"))
    others = dec.calls(re.compile(r"str>?::(splitn|split|rsplit|split_once|rsplit_once)$|str::(splitn|split|rsplit|split_once|rsplit_once)$"))
    Sd = Pd = None
    if len(rs) != 1 or others:
        ctx.violate("C25.2", FD, "decoder-split", dec.relfile, (rs or others or [None])[0].line if (rs or others) else dec.line,
                    "parse_wal_key does not split with exactly one rsplitn (found %s)" % [callee_name(s.node).split("::")[-1] for s in rs + others])
    else:
        n = const_of(dec, rs[0].node["args"][1])
        sep = rs[0].node["args"][2]
        Sd = sep.get("str")
        src, _, _ = origins(dec, rs[0].node["args"][0])
        if n == 2 and Sd is not None and len(origin_args(src)) == 1:
            ctx.ok("C25.2", FD, "splits the key with rsplitn(2, %r)" % Sd, dec.relfile, rs[0].line)
        else:
            ctx.violate("C25.2", FD, "decoder-split-arguments", dec.relfile, rs[0].line, "rsplitn is called with n=%s, separator %s" % (n, sep.get("str")))
    # 2-part guard: Ne(len(parts), 2) -> None
    guard = False
    for T in all_tests(dec):
        if T.kind == "cmp" and T.op in ("Ne", "Eq") and const_of(dec, T.b) == 2:
            e = show(strip_refs(expr(dec, T.a)), 12)
            if e.startswith("len(") and "rsplitn" in e:
                bad_edge = T.true_edge if T.op == "Ne" else T.false_edge
                # the bad edge returns None
                nb = [site.bb for site, st in dec.assigns() if st["place"]["l"] == 0 and st["rv"]["k"] == "agg" and st["rv"].get("variant") == "None"]
                if any(dec.edge_guards(bad_edge, b) for b in nb):
                    guard = True
    if guard:
        ctx.ok("C25.2", FD, "returns None unless the split produced exactly 2 parts", dec.relfile, dec.line)
    else:
        ctx.violate("C25.2", FD, "missing-two-part-guard", dec.relfile, dec.line, "parse_wal_key does not require that the split produced 2 parts")
    # the returned pair
    ret = None
    for site, st in dec.assigns():
        if st["place"]["l"] == 0 and st["rv"]["k"] == "agg" and st["rv"].get("variant") == "Some":
            ret = (site, st)
    if ret is None:
        ctx.violate("C25.2", FD, "no-some-return", dec.relfile, dec.line, "parse_wal_key never returns Some")
    else:
        e = strip_refs(expr(dec, ret[1]["rv"]["ops"][0]))
        sh = show(e, 40)
        m = re.match(r"^\(to_string\((?:ref\()?branch\(strip_prefix\((?:ref\()*collect\(rsplitn\(.*?\)\)+\[(\d)\]\)*, '(.*?)'\)\) as Continue\.0\)*, branch\(ok\(parse\((?:ref\()*collect\(rsplitn\(.*?\)\)+\[(\d)\]\)*\)\)\) as Continue\.0\)$", sh)
        if m:
            i_left, Pd, i_right = int(m.group(1)), m.group(2), int(m.group(3))
            if i_left == 1 and i_right == 0:
                ctx.ok("C25.2", FD, "returns (part[1].strip_prefix(%r), part[0].parse())" % Pd, dec.relfile, ret[0].line)
            else:
                ctx.violate("C25.2", FD, "decoder-part-indices", dec.relfile, ret[0].line,
                            "the topic is taken from part[%d] and the number from part[%d]; rsplitn yields the right part first" % (i_left, i_right))
        else:
            ctx.violate("C25.2", FD, "decoder-result-shape", dec.relfile, ret[0].line, "the returned pair is %s; expected (strip_prefix(part[1], P).to_string(), part[0].parse().ok()?)" % sh[:200])
        ps = dec.calls(re.compile(r"str>?::parse$|str::parse$"))
        if len(ps) == 1 and "parse::<u64>" in (ps[0].node.get("callee_generic") or ""):
            ctx.ok("C25.2", FD, "the number is parsed as u64", dec.relfile, ps[0].line)
        else:
            ctx.violate("C25.2", FD, "segment-parse-type", dec.relfile, dec.line, "the segment is parsed as %s" % [p.node.get("callee_generic") for p in ps])
    # ---- agreement -------------------------------------------------------------------
    if P is not None and S is not None and Sd is not None and Pd is not None:
        if Sd == S and Pd == P:
            ctx.ok("C25.3", FD, "decoder separator and prefix equal the encoder's (%r, %r)" % (S, P), dec.relfile, dec.line)
        else:
            ctx.violate("C25.3", FD, "codec-constants-differ", dec.relfile, dec.line, "encoder uses prefix %r / separator %r, decoder uses %r / %r" % (P, S, Pd, Sd))
        if S and not S[-1].isdigit():
            ctx.ok("C25.3", FE, "separator is non-empty and does not end with a digit", enc.relfile, enc.line)
        else:
            ctx.violate("C25.3", FE, "separator-can-occur-in-number", enc.relfile, enc.line, "separator %r is empty or ends with a digit: the right-most occurrence is not necessarily the encoder's" % S)
    ctx.assume("u64::to_string / str::parse::<u64> round-trip (std); rsplitn(2, S) splits at the right-most occurrence of S and yields the right part first (std)")
    ctx.assume("controller/types.rs is type-checked through harness/dwshim (real file, stub dependencies)")
    return {
        "explanation": "codec obligations decided on the MIR of wal_key / parse_wal_key (template bytes of the format string, argument order and types, resolved str methods and their "
                       "literal arguments, the symbolic expression of the returned pair); together with the written lemma they give parse(wal_key(t, s)) = (t, s) for all strings t and all u64 s.",
        "lemma": LEMMA,
    }
