"""C07 - acknowledged appends survive a process crash at any point (partial: ack-after-write)."""
import re
from .core import common
from .core.mir import op_local, op_place, strip_generics, callee_name
from .core.cond import all_tests, call_site_of, borrowed_local, const_of, result_edges
from .core.slicing import origins, origin_calls, origin_args
from .core.symexpr import expr, show, strip_refs
from .c04 import error_exits, real_source, _offset_stores
from . import fmtfeat

RULES = {
    "C07.6": "the reader accepts what the writer acknowledged: every comparison in Block::read (the function recovery scans with) is one of - header length against a constant, "
             "`entry end > file length`, the checksum comparison; any other bound on the entry (the block's limit, the next block's start, a non-strict comparison with the file "
             "length) can be met exactly by a valid entry and makes recovery drop the last entry of an exactly full block",
    "C07.5": "recovery yields nothing that was not acknowledged (= C04.3d): a batch that fails after some of its entries reached the file returns Err, so none of its entries may "
             "be readable after a restart; the rollback zeroes the header of EVERY planned entry (not only the first of each block), because the next acknowledged append can fill "
             "exactly the first slot and the recovery scan then runs on into the stale, fully valid entries behind it",
    "C07.1": "ack after write (MPT over the resolved call chain): every success return of append_for_topic / batch_append_for_topic is dominated by the Ok edge of the writer call; "
             "Writer::write's Ok return by Block::write of the caller's bytes at the current offset; Block::write's Ok return by SharedMmap::write of prefix+payload at "
             "block.offset + in_block_offset; SharedMmap::write reaches a positional write on both backends; in the batch paths every planned entry is written (portable loop) or "
             "submitted (one SQE per plan element, submit_and_wait(plan.len()), completion check) before the publish, and the planning loop plans every batch index exactly once",
    "C07.2": "recovery does not fail for data reasons: the error exits of the open path (with_paths, startup_chore and callees) all originate from filesystem calls or lock poisoning, "
             "never from a decode/parse of file contents (frozen table of error sources)",
    "C07.3": "recovery counts only verified entries: in the per-unit entry scan of startup_chore, every amount by which the scan offset (and with it the block's used bytes) advances is "
             "the size returned by a verified read - a callee all of whose success returns are dominated by the equal-edge of a comparison with checksum64 of the payload. An entry "
             "whose header alone was inspected may be the torn remainder of an append that was never acknowledged; counting it puts garbage between the acknowledged entries and "
             "everything appended after the restart",
    "C07.4": "recovery visits every unit that may hold acknowledged entries and attributes them to the right block (= C06.2, C06.3, C06.5): the per-file unit loop is left only by its "
             "condition, advances by exactly one unit or by a recognised round-up of the recovered block's used bytes to whole units, and the entry scan of one unit stops strictly "
             "before the next unit begins",
}

OPEN_ERR_SOURCES = {
    r"allocator::BlockAllocator::new$": "creates the first WAL file: I/O",
    r"paths::WalPathManager::(create_new_file|ensure_root)$": "mkdir / create / fsync: I/O",
    r"storage::SharedMmapKeeper::get_mmap_arc$|storage::SharedMmap::new$|storage::create_storage_impl$|storage::FdBackend::new$": "open/mmap of a WAL file: I/O",
    r"topic_clean::CleanMarkerStore::new_in$": "reads the marker file: I/O (its contents are decoded without error paths)",
    r"index::WalIndex::new_in$": "reads the cursor index: I/O",
    r"walrus::Walrus::startup_chore$": "propagates only the sources listed here",
    r"walrus::Walrus::rebuild_topic_entry_counts_after_recovery$": "never returns Err (signature only)",
    r"fs::File::(create|open|set_len|sync_all|metadata)$|^std::fs::(read|create_dir_all)$|OpenOptions::open$|MmapMut::map_mut$|MmapOptions.*::map_mut$": "filesystem call",
    r"RwLock.*::(read|write)$|Mutex.*::lock$": "lock poisoning only",
}


def _ok_returns(b):
    return [site.bb for site, st in b.assigns() if st["place"]["l"] == 0 and not st["place"]["p"] and st["rv"]["k"] == "agg" and st["rv"].get("variant") == "Ok"]


def check_chain(ctx, facts):
    # (a) public APIs
    for fn, callee in (("walrus_write::append_for_topic", r"Writer::write$"), ("walrus_write::batch_append_for_topic", r"Writer::batch_write$")):
        b = facts.body(fn)
        ctx.saw_body(b)
        ws = b.calls(re.compile(callee))
        if len(ws) != 1:
            ctx.anchor_missing("C07.1", "writer call in " + fn)
            continue
        ok_e, _ = result_edges(b, ws[0])
        oks = _ok_returns(b)
        if oks and all(any(b.edge_guards(e, r) for e in ok_e) for r in oks):
            ctx.ok("C07.1", fn, "Ok return is dominated by the Ok edge of the writer call", b.relfile, ws[0].line)
        else:
            ctx.violate("C07.1", fn, "ack-without-write", b.relfile, b.line, "the append can return Ok on a path where the writer did not report success")
        # the bytes handed to the writer are the caller's
        src, _, _ = origins(b, ws[0].node["args"][1])
        if len(origin_args(src)) == 1 and not origin_calls(src):
            ctx.ok("C07.1", fn, "the writer receives the caller's bytes", b.relfile, ws[0].line)
        else:
            ctx.violate("C07.1", fn, "writes-other-bytes", b.relfile, ws[0].line, "the bytes handed to the writer are not the caller's argument")
    # (b) Writer::write
    w = facts.body("writer::Writer::write")
    ctx.saw_body(w)
    bw = w.calls(re.compile(r"block::Block::write$"))
    if len(bw) != 1:
        ctx.anchor_missing("C07.1", "Block::write in Writer::write")
    else:
        ok_e, _ = result_edges(w, bw[0])
        oks = _ok_returns(w)
        if oks and all(any(w.edge_guards(e, r) for e in ok_e) for r in oks):
            ctx.ok("C07.1", "writer::Writer::write", "Ok return is dominated by the Ok edge of Block::write", w.relfile, bw[0].line)
        else:
            ctx.violate("C07.1", "writer::Writer::write", "ack-without-write", w.relfile, w.line, "Writer::write can return Ok without Block::write having succeeded")
        dsrc, _, _ = origins(w, bw[0].node["args"][2])
        osh = show(strip_refs(expr(w, bw[0].node["args"][1])))
        if len(origin_args(dsrc)) == 1 and not origin_calls(dsrc):
            ctx.ok("C07.1", "writer::Writer::write", "Block::write receives the data argument", w.relfile, bw[0].line)
        else:
            ctx.violate("C07.1", "writer::Writer::write", "writes-other-bytes", w.relfile, bw[0].line, "Block::write does not receive the data argument")
        # offset = the guarded current offset
        offl = origins(w, bw[0].node["args"][1], follow_all_calls=True)[0]
        if any(o.kind == "field" and o.what[1] == "current_offset" for o in offl):
            ctx.ok("C07.1", "writer::Writer::write", "the entry is written at the writer's current offset", w.relfile, bw[0].line)
        else:
            ctx.violate("C07.1", "writer::Writer::write", "write-at-other-offset", w.relfile, bw[0].line, "the entry is not written at the writer's current offset")
        # the published advance equals the written size
        adv = [(s, sh) for s, k, sh in _offset_stores(w) if k == "advance"]
        need_ok = False
        for s, sh in adv:
            e = strip_refs(expr(w, s.node["rv"]["op"]))
            if e[0] == "Add":
                inc = show(strip_refs(e[2]))
                if re.search(r"Add\(256, len\(.*data.*\)\)|Add\(len\(.*data.*\), 256\)", inc) or "need" in inc:
                    need_ok = True
        if adv and need_ok:
            ctx.ok("C07.1", "writer::Writer::write", "offset advances by PREFIX_META_SIZE + data.len()", w.relfile, adv[0][0].line)
        else:
            ctx.violate("C07.1", "writer::Writer::write", "advance-differs-from-written-size", w.relfile, w.line, "the offset does not advance by header + payload size")
    # (c) Block::write
    blk = facts.body("block::Block::write")
    ctx.saw_body(blk)
    sw = blk.calls(re.compile(r"SharedMmap::write$"))
    oks = _ok_returns(blk)
    f = fmtfeat.encoder_features(blk)
    if len(sw) == 1 and oks and all(blk.dominates(sw[0].bb, r) for r in oks):
        ctx.ok("C07.1", "block::Block::write", "Ok return is dominated by SharedMmap::write", blk.relfile, sw[0].line)
        off = show(strip_refs(expr(blk, sw[0].node["args"][1])))
        if off in ("Add(self.offset, in_block_offset)", "Add(in_block_offset, self.offset)"):
            ctx.ok("C07.1", "block::Block::write", "file offset = block.offset + in_block_offset", blk.relfile, sw[0].line)
        else:
            ctx.violate("C07.1", "block::Block::write", "file-offset", blk.relfile, sw[0].line, "the file offset written is %s" % off)
        buf = strip_refs(expr(blk, sw[0].node["args"][2]))
        if f and f["combined_order"] == ["PREFIX", "DATA"] and "with_capacity" in show(buf):
            ctx.ok("C07.1", "block::Block::write", "the buffer written is prefix + payload", blk.relfile, sw[0].line)
        else:
            ctx.violate("C07.1", "block::Block::write", "buffer-written", blk.relfile, sw[0].line, "the buffer handed to SharedMmap::write is not the combined prefix+payload buffer")
    elif f and f.get("_split_writes") and oks:
        # header and payload written separately (accepted idiom): both before every Ok return; the payload
        # write may be skipped only when the payload is empty
        pw, dw = f["_split_writes"]
        good = all(blk.dominates(pw.bb, r) for r in oks)
        if good and not all(blk.dominates(dw.bb, r) for r in oks):
            from .core.cond import bypass_edges, classify_edge
            for e in bypass_edges(blk, pw.bb, [dw.bb]):
                T, which = classify_edge(blk, e)
                desc = show(strip_refs(expr(blk, T.a))) if T is not None and T.kind == "cmp" else (T.callee if T is not None and T.kind == "call" else "")
                if not (T is not None and ("is_empty" in str(desc) or (T.kind == "cmp" and "len(" in str(desc) and const_of(blk, T.b) == 0))):
                    good = False
        offp = show(strip_refs(expr(blk, pw.node["args"][1])))
        if good and re.search(r"Add\((self\.offset, in_block_offset|in_block_offset, self\.offset)\)", offp):
            ctx.ok("C07.1", "block::Block::write", "Ok return is dominated by the header write and (unless the payload is empty) the payload write at block.offset + in_block_offset (+ PREFIX_META_SIZE)", blk.relfile, pw.line)
        else:
            ctx.violate("C07.1", "block::Block::write", "ack-without-write", blk.relfile, blk.line, "Block::write can return Ok without having written header and payload at the entry's offset")
    else:
        ctx.violate("C07.1", "block::Block::write", "ack-without-write", blk.relfile, blk.line, "Block::write can return Ok without calling SharedMmap::write")
    # (d) storage chain
    sm = facts.body("storage::SharedMmap::write")
    si = facts.body("storage::StorageImpl::write")
    fd = facts.body("storage::FdBackend::write")
    for x in (sm, si, fd):
        ctx.saw_body(x)
    if sm.calls(re.compile(r"StorageImpl::write$")) and all(sm.dominates(sm.calls(re.compile(r"StorageImpl::write$"))[0].bb, r) for r in sm.return_blocks()):
        ctx.ok("C07.1", "storage::SharedMmap::write", "always calls StorageImpl::write", sm.relfile, sm.line)
    else:
        ctx.violate("C07.1", "storage::SharedMmap::write", "write-skipped", sm.relfile, sm.line, "SharedMmap::write can return without calling StorageImpl::write")
    names = {callee_name(s.node) for s in si.calls()}
    if any(n.endswith("copy_nonoverlapping") for n in names) and any(n.endswith("FdBackend::write") for n in names):
        ctx.ok("C07.1", "storage::StorageImpl::write", "Mmap arm copies into the mapping, Fd arm calls FdBackend::write", si.relfile, si.line)
    else:
        ctx.violate("C07.1", "storage::StorageImpl::write", "backend-write-missing", si.relfile, si.line, "a backend arm of StorageImpl::write does not write")
    wa = fd.calls(re.compile(r"FileExt>::write_at$|FileExt::write_at$|write_all_at$"))
    if wa:
        a_data = origins(fd, wa[0].node["args"][1])[0]
        a_off = origins(fd, wa[0].node["args"][2])[0]
        if origin_args(a_data) == {"data"} and origin_args(a_off) == {"offset"}:
            ctx.ok("C07.1", "storage::FdBackend::write", "pwrite(data, offset) with the caller's data and offset", fd.relfile, wa[0].line)
        else:
            ctx.violate("C07.1", "storage::FdBackend::write", "pwrite-arguments", fd.relfile, wa[0].line, "write_at does not receive the caller's data and offset")
    else:
        ctx.violate("C07.1", "storage::FdBackend::write", "no-positional-write", fd.relfile, fd.line, "FdBackend::write performs no positional write")


def check_batch(ctx, facts):
    b = facts.body("writer::Writer::batch_write")
    u = facts.body("writer::Writer::submit_batch_via_io_uring")
    ctx.saw_body(b)
    ctx.saw_body(u)
    # planning loop: every push into the plan is followed by the index increment; index increments only with a push
    from .c04 import plan_shape
    plan_ty, plan_bf, plan_of, plan_xf = plan_shape(facts)
    plan_pushes = []
    for s in b.calls(re.compile(r"Vec::push$")):
        l = borrowed_local(b, s.node["args"][0])
        if l is not None and plan_ty in b.local_ty(l):
            plan_pushes.append((s, l))
    if not plan_pushes:
        ctx.anchor_missing("C07.1", "write plan pushes in batch_write")
        return
    plan_local = plan_pushes[0][1]
    # parameter names by role (type), not by spelling
    bname = next((b.local_name(i) for i in range(1, b.arg_count + 1) if "[&[u8]]" in b.local_ty(i)), None)
    pname = next((u.local_name(i) for i in range(1, u.arg_count + 1) if plan_ty in u.local_ty(i)), None)
    if not bname or not pname:
        ctx.anchor_missing("C07.1", "the batch slice parameter of batch_write / the write-plan parameter of the io_uring helper")
        return
    bre = re.escape(bname)
    # the batch index local: third tuple element pushed
    idx_locals = set()
    for s, l in plan_pushes:
        tl = op_local(s.node["args"][1])
        d = b.def_rvalue(tl) if tl is not None else None
        if d and d[0] == "rv" and d[1]["k"] == "agg":
            il = op_local(b.resolve_copy(d[1]["ops"][2]))
            if il is not None:
                idx_locals.add(il)
    incs = []
    for il in idx_locals:
        for site, kind, node in b.defs.get(il, []):
            if kind == "assign" and node["rv"]["k"] == "use":
                p = op_place(node["rv"]["op"])
                if p is not None and p["p"]:
                    incs.append(site)
    push_blocks = [s.bb for s, _ in plan_pushes]
    # the other way of walking the batch: `for (idx, data) in batch.iter().enumerate()` - the index pushed is the
    # one the iterator yields, and every yielded item reaches exactly one push before the next one is asked for
    enum_next = None
    for il in idx_locals:
        cur_, hops_ = il, 0
        while cur_ is not None and hops_ < 8:
            hops_ += 1
            sd_ = b.single_def(cur_)
            if sd_ is None:
                break
            if sd_[1] == "call":
                cn_ = strip_generics(sd_[2].get("callee") or "")
                if re.search(r"Iterator>?::next$", cn_) and sd_[2]["args"]:
                    rl_ = borrowed_local(b, sd_[2]["args"][0])
                    rty = b.local_ty(rl_) if rl_ is not None else ""
                    src_i, _, _ = origins(b, sd_[2]["args"][0])
                    if "iter::Enumerate<std::slice::Iter<" in rty and bname in origin_args(src_i) and not origin_calls(src_i):
                        enum_next = sd_[0]
                break
            rv_ = sd_[2]["rv"]
            q_ = op_place(rv_["op"]) if rv_["k"] in ("use", "cast") else None
            cur_ = q_["l"] if q_ is not None else None
    if enum_next is not None:
        N_ = enum_next.node["dest"]["l"]
        some_e = None
        for T in all_tests(b):
            if T.kind == "discr" and not T.place["p"] and T.place["l"] == N_:
                some_e = T.variant_edges.get(1)
        ok_iter = False
        if some_e is not None:
            every = b.must_pass([some_e[1]], [enum_next.bb], push_blocks)
            once = all(not [pb for pb in push_blocks if pb in b.reachable_after(s_.bb, removed_blocks=[enum_next.bb])] for s_, _ in plan_pushes)
            ok_iter = every and once
        if ok_iter:
            ctx.ok("C07.1", "writer::Writer::batch_write", "planning: the batch is walked with iter().enumerate() and every yielded index is pushed into the plan exactly once", b.relfile, plan_pushes[0][0].line)
            ctx.ok("C07.1", "writer::Writer::batch_write", "planning continues until the iterator over the batch is exhausted", b.relfile, plan_pushes[0][0].line)
        else:
            ctx.violate("C07.1", "writer::Writer::batch_write", "plan-incomplete", b.relfile, plan_pushes[0][0].line, "an item yielded by the iteration over the batch can reach the next iteration without having been pushed into the plan (or be pushed twice)")
        incs = None
    good = bool(incs)
    iter_form = incs is None
    incs = incs or []
    for i in incs:
        if not any(b.dominates(pb, i.bb) for pb in push_blocks):
            good = False
    for s, _ in plan_pushes:
        if not b.must_pass([s.bb], push_blocks, [i.bb for i in incs]):
            good = False
    if iter_form:
        pass
    elif good:
        ctx.ok("C07.1", "writer::Writer::batch_write", "planning: each batch index is pushed into the plan exactly once (push and index increment are paired)", b.relfile, plan_pushes[0][0].line)
    else:
        ctx.violate("C07.1", "writer::Writer::batch_write", "plan-incomplete", b.relfile, plan_pushes[0][0].line, "the planning loop can skip or duplicate a batch index")
    # loop exit only when index >= len(batch)
    cond_ok = False
    for T in all_tests(b):
        if T.kind == "cmp" and T.op == "Lt" and op_local(T.a) in idx_locals:
            eb = strip_refs(expr(b, T.b))
            if eb[0] == "len" and bname in show(eb):
                cond_ok = True
    if iter_form:
        pass
    elif cond_ok:
        ctx.ok("C07.1", "writer::Writer::batch_write", "planning continues while index < batch.len()", b.relfile, plan_pushes[0][0].line)
    else:
        ctx.violate("C07.1", "writer::Writer::batch_write", "plan-loop-condition", b.relfile, plan_pushes[0][0].line, "the planning loop is not bounded by index < batch.len()")
    # portable loop: Block::write(*offset, batch[*data_idx]) from the same plan element
    for w in b.calls(re.compile(r"block::Block::write$")):
        ea = [show(strip_refs(expr(b, a))) for a in w.node["args"]]
        # args: blk, offset, data, col, next
        bfx, ofx, xfx = re.escape(plan_bf), re.escape(plan_of), re.escape(plan_xf or "?")
        same = re.search(r"as Some\.0\.%s|\.%s$" % (bfx, bfx), ea[0]) is not None
        data_ok = ea[2].startswith(bname + "[") and ("as Some.0.%s" % (plan_xf or "?")) in ea[2] or re.search(bre + r"\[.*\.%s\]" % xfx, ea[2])
        off_ok = ("as Some.0.%s" % plan_of) in ea[1] or re.search(r"\.%s$" % ofx, ea[1])
        if data_ok and off_ok:
            ctx.ok("C07.1", "writer::Writer::batch_write", "portable loop writes batch[plan.idx] at plan.offset of plan.block", b.relfile, w.line)
        else:
            ctx.violate("C07.1", "writer::Writer::batch_write", "plan-element-mismatch", b.relfile, w.line, "the portable loop does not write the planned entry at the planned offset (%s, %s)" % (ea[1][:40], ea[2][:40]))
    # io_uring: one push per plan element, submit_and_wait(len(plan)), completion loop over len(plan)
    pushes = u.calls(re.compile(r"SubmissionQueue.*::push$"))
    sw = u.calls(re.compile(r"::submit_and_wait$"))
    if len(pushes) == 1 and len(sw) == 1:
        # push inside the loop over write_plan
        loop_ok = pushes[0].bb in u.reachable_after(pushes[0].bb) and u.dominates(pushes[0].bb, sw[0].bb) is False
        n_arg = show(strip_refs(expr(u, sw[0].node["args"][1])))
        if pushes[0].bb in u.reachable_after(pushes[0].bb) and n_arg in ("len(%s)" % pname, "len(ref(%s))" % pname):
            ctx.ok("C07.1", "writer::Writer::submit_batch_via_io_uring", "one SQE per plan element, submit_and_wait(write_plan.len())", u.relfile, sw[0].line)
        else:
            ctx.violate("C07.1", "writer::Writer::submit_batch_via_io_uring", "submission-count", u.relfile, sw[0].line, "not every planned write is submitted and awaited (%s)" % n_arg)
        # the SQE: Write::new(fd, combined.ptr, combined.len).offset(blk.offset + offset)
        offs = u.calls(re.compile(r"opcode::Write::offset$"))
        if offs:
            osh = show(strip_refs(expr(u, offs[0].node["args"][1])))
            if re.search(r"(?i)^add\(.*\.%s\.offset, .*\.%s\)+$" % (re.escape(plan_bf), re.escape(plan_of)), osh):
                ctx.ok("C07.1", "writer::Writer::submit_batch_via_io_uring", "SQE offset = plan.block.offset + plan.offset", u.relfile, offs[0].line)
            else:
                ctx.violate("C07.1", "writer::Writer::submit_batch_via_io_uring", "sqe-offset", u.relfile, offs[0].line, "SQE offset is %s" % osh[:60])
    else:
        ctx.anchor_missing("C07.1", "SQE push / submit_and_wait in the io_uring helper")


def verified_readers(facts):
    """short names of bodies whose every Ok return is dominated by the equal edge of a
    comparison against checksum64(..) (or by the Ok edge of a call to such a body)."""
    ver = set()
    changed = True
    while changed:
        changed = False
        for name, b in facts.bodies.items():
            sn = common.short_fn(name)
            if sn in ver or b.j.get("derived") or b.kind == "closure":
                continue
            if not str(b.j.get("ret_ty", "")).startswith("std::result::Result"):
                continue
            oks = _ok_returns(b)
            if not oks:
                continue
            gates = []
            for T in all_tests(b):
                if T.kind == "cmp" and T.op in ("Eq", "Ne"):
                    sh = show(strip_refs(expr(b, T.a)), 6) + "|" + show(strip_refs(expr(b, T.b)), 6)
                    if "checksum64(" in sh:
                        gates.append(T.true_edge if T.op == "Eq" else T.false_edge)
            for c in b.calls():
                if common.short_fn(strip_generics(c.node.get("callee") or "")) in ver:
                    ok_e, _ = result_edges(b, c)
                    gates += ok_e
            if gates and all(any(b.edge_guards(e, r) for e in gates) for r in oks):
                ver.add(sn)
                changed = True
    return ver


def check_recovery_verifies(ctx, facts, rid="C07.3"):
    b = facts.body("walrus::Walrus::startup_chore")
    F = "walrus::Walrus::startup_chore"
    ver = verified_readers(facts)
    if "block::Block::read" not in ver:
        ctx.violate(rid, "block::Block::read", "reader-not-verified", None, None, "Block::read can return Ok without the payload checksum having been compared")
    D = facts.const_val("config::DEFAULT_BLOCK_SIZE")
    n = 0
    reads = [c for c in b.calls() if common.short_fn(strip_generics(c.node.get("callee") or "")) in ver or re.search(r"block::Block::\w+$", strip_generics(c.node.get("callee") or ""))]
    loops = []
    for c in reads:
        hb, L = b.enclosing_loop(c.bb)
        if L is not None and (hb, frozenset(L)) not in loops:
            loops.append((hb, frozenset(L)))
    for hb, L in loops:
        for site, st in b.assigns():
            if site.bb not in L or st["place"]["p"] or st["rv"]["k"] != "use":
                continue
            e = strip_refs(expr(b, st["rv"]["op"]))
            if e[0] != "Add":
                continue
            tgt = st["place"]["l"]
            if b.local_ty(tgt) != "u64" or b.local_name(tgt) is None:
                continue
            # amount = the operand that is not the accumulator itself
            amt = None
            for side in (e[1], e[2]):
                if show(strip_refs(side)) != (b.local_name(tgt) or ""):
                    amt = side
            if amt is None or fmtfeat.const_eval(amt) is not None:
                continue
            # origin calls of the amount, read off the assignment's operand chain
            rv_op = st["rv"]["op"]
            src, _, _ = origins(b, rv_op)
            calls = {common.short_fn(strip_generics(o.what)) for o in src if o.kind == "call"}
            calls = {c_ for c_ in calls if not re.search(r"::(checked_add|saturating_add|wrapping_add|from|into|map|unwrap_or)$", c_)}
            if not calls:
                continue
            n += 1
            bad = sorted(c_ for c_ in calls if c_ not in ver)
            if bad:
                ctx.violate(rid, F, "recovery-counts-unverified-entry:" + bad[0].split("::")[-1], b.relfile, site.line,
                            "the recovery scan advances `%s` by a size obtained from %s, which does not compare the payload checksum: a header whose payload was never written (a "
                            "crash between the two, or a rolled-back batch) is counted into the block" % (b.local_name(tgt), ", ".join(bad)))
            else:
                ctx.ok(rid, F, "`%s` advances only by the size of a checksum-verified read" % b.local_name(tgt), b.relfile, site.line)
    ctx.floor(rid, "advances of the recovery entry scan", n, 1)


def check_open_errors(ctx, facts):
    n = 0
    for fn in ("walrus::Walrus::with_paths", "walrus::Walrus::startup_chore", "walrus::Walrus::rebuild_topic_entry_counts_after_recovery"):
        b = facts.body(fn)
        ctx.saw_body(b)
        for c in b.calls():
            if not c.node.get("dest_ty", "").startswith("std::result::Result"):
                continue
            ex = error_exits(b, c)
            if not ex:
                continue
            n += 1
            src = real_source(b, c)
            cn = callee_name(src.node)
            why = None
            for pat, reason in OPEN_ERR_SOURCES.items():
                if re.search(pat, cn):
                    why = reason
            if why:
                ctx.ok("C07.2", fn, "error exit from %s" % cn.split("::")[-1], b.relfile, c.line, why)
            else:
                ctx.violate("C07.2", fn, "open-fails-on:" + cn.split("::")[-1], b.relfile, c.line,
                            "the open path returns an error produced by %s, which is not a filesystem call or lock: damaged file contents could make the reopen fail" % cn)
        # direct `return Err(..)` in these bodies
        for site, st in b.assigns():
            if st["place"]["l"] == 0 and not st["place"]["p"] and st["rv"]["k"] == "agg" and st["rv"].get("variant") == "Err":
                n += 1
                ctx.violate("C07.2", fn, "open-returns-err", b.relfile, st["line"], "the open path constructs an error itself: recovery must tolerate any file contents")
    ctx.floor("C07.2", "error exits on the open path", n, 1)


def check_reader_rejections(ctx, facts, rid="C07.6"):
    """Block::read turns an entry down only for a reason the writer cannot produce: a header length of 0 / beyond the header
    area, an entry that runs past the end of the FILE, a checksum mismatch (and constant-vs-constant tests the compiler
    leaves).  Every comparison in the function is classified; one that fits no class is reported (a reader that compares
    the entry's end with anything the writer fills exactly - the block, the next block's start - drops the last entry of
    an exactly full block, and everything recovery counts after it)."""
    try:
        b = facts.body("block::Block::read")
    except Exception:
        ctx.anchor_missing(rid, "block::Block::read")
        return
    ctx.saw_body(b)
    F = common.short_fn(b.name)
    n = 0
    # the function itself and the closures it (or a helper inlined into it) hands to combinators (`checked_add(..).map_or(false, |end| ..)`)
    sites = []
    for hb in [b] + list(facts.closures_of(b)):
        for site, st in hb.assigns():
            sites.append((hb, site, st))
    for hb, site, st in sites:
        rv = st["rv"]
        if not (rv["k"] == "bin" and str(rv["op"]) in ("Lt", "Le", "Gt", "Ge", "Eq", "Ne")):
            continue
        # comparisons the compiler emits for an index bounds check (`assert(idx < len)`) are not the function's own tests
        t_ = hb.term(site.bb)
        if t_ and t_["k"] == "assert" and op_local(t_.get("cond") or {}) == st["place"]["l"] and not st["place"]["p"]:
            continue
        ea, eb = strip_refs(expr(hb, rv["a"])), strip_refs(expr(hb, rv["b"]))
        sa, sb = show(ea, 8), show(eb, 8)
        ca, cb = fmtfeat.const_eval(ea), fmtfeat.const_eval(eb)
        cls = None
        if ca is not None and cb is not None:
            cls = "constants"
        elif (cb is not None or ca is not None) and re.search(r"BitOr\(.*\[0\], Shl\(.*\[1\], 8\)\)|from_le_bytes\(\(?.*\[0\], .*\[1\]\)?\)", sa if cb is not None else sb):
            cls = "header length against a constant"
        elif str(rv["op"]) in ("Eq", "Ne") and ("checksum" in sa and "checksum" in sb):
            cls = "checksum"
        elif str(rv["op"]) in ("Gt", "Ge", "Lt", "Le") and (re.match(r"^len\(", sb) or re.match(r"^len\(", sa) or re.search(r"(storage|mmap)[^,]*\)*\.?len|::len\(", sa + " " + sb)):
            # entry end against the file length: only `end > len` (strictly) may reject
            cls = "entry end against the file length"
            end_left = not re.match(r"^len\(", sa) and "len(" not in sa.split(",")[0][:4]
            op = str(rv["op"])
            op = op if end_left else {"Gt": "Lt", "Ge": "Le", "Lt": "Gt", "Le": "Ge"}[op]
            if op in ("Ge", "Lt"):
                cls = None      # `end >= len` / `end < len`: an entry that ends with the file is a valid entry
        n += 1
        if cls:
            ctx.ok(rid, F, "comparison at line %s: %s" % (site.line, cls), b.relfile, site.line)
        else:
            ctx.violate(rid, F, "reader-rejects-on-untriaged-condition", b.relfile, site.line,
                        "Block::read compares %s %s %s: neither the header-length sanity test, nor `entry end > file length`, nor the checksum comparison. A bound the writer can "
                        "meet exactly (the block's limit, the next block's start, `>=` / `<` against the file length) rejects the last entry of an exactly full block or file; "
                        "recovery then truncates the block there" % (sa[:60], rv["op"], sb[:60]))
    ctx.floor(rid, "comparisons in Block::read", n, 3)


def run(ctx):
    for k, v in RULES.items():
        ctx.rule(k, v)
    facts = common.mir(ctx, "walrus_rust")
    check_chain(ctx, facts)
    check_batch(ctx, facts)
    check_recovery_verifies(ctx, facts)
    from .c06 import check_scan_stride, check_scan, check_entry_scan_bound, check_read_side_ignores_limit
    check_read_side_ignores_limit(ctx, facts, rid="C07.4")
    check_scan_stride(ctx, facts, rid="C07.4")
    check_scan(ctx, facts, rid="C07.4")
    check_entry_scan_bound(ctx, facts, rid="C07.4")
    check_open_errors(ctx, facts)
    from .c04 import check_rollback_zeroing
    check_rollback_zeroing(ctx, facts, rid="C07.5")
    check_reader_rejections(ctx, facts, rid="C07.6")
    ctx.assume("crash model of the property: completed write syscalls persist across a process crash; what recovery reconstructs from the bytes is covered only by the layout/scan clauses of C06")
    ctx.assume("the discarded result of the positional write in FdBackend::write is reported under C04.4 (known finding), not repeated here")
    return {
        "explanation": "ack-after-write as dominance / must-pass-through obligations along the resolved call chain from the public append APIs down to the positional write of each backend, "
                       "plan completeness and plan-element agreement in the batch paths, and a frozen table of the error sources of the open path.",
    }
