"""C16 - FD/io_uring and mmap backends behave identically (sibling agreement)."""
import re
from .core import common
from .core.mir import op_local, op_place, strip_generics, callee_name
from .core.cond import all_tests
from .core.slicing import origins
from .core.symexpr import expr, show, strip_refs
from . import fmtfeat

RULES = {
    "C16.1": "encoder siblings (SA): Block::write (mmap/portable path) and the per-entry body of submit_batch_via_io_uring build the same Metadata from the same sources, use the same "
             "serializer, the same 2-byte length prefix encoding, the same prefix buffer length, the same metadata copy range, the same buffer order and the same header-length guard "
             "(an over-long header must be an error in both, before anything is written)",
    "C16.2": "read-range siblings (SA): the io_uring range builder, its fallback and the mmap range builder of batch_read_for_topic compute size = end - start and "
             "file_offset = blk.offset + start identically",
    "C16.3": "backend dispatch is exhaustive: every match on StorageImpl in write/read/flush/len handles both variants with no catch-all, the Mmap arm of flush reaches MmapMut::flush "
             "and the Fd arm reaches File::sync_all",
    "C16.4": "completion accounting of the io_uring batch path: either (a) the ring a batch is submitted on is created in that very call (IoUring::new dominates every SQE push and "
             "submit_and_wait, the ring does not come from a field or static) with a size derived from that batch's plan - then submit_and_wait(plan.len()) leaves exactly this "
             "batch's completions in a queue that can hold them -, or (b) the completion loop treats a missing completion as a failure. The mmap backend has no such state, so a ring "
             "that outlives a batch (stale completions, a completion queue sized for an earlier batch) makes the two backends answer the same sequence of batches differently",
}

ENCODERS = ["block::Block::write", "writer::Writer::submit_batch_via_io_uring"]


def check_encoders(ctx, facts):
    feats = {}
    for n in ENCODERS:
        b = facts.body(n)
        ctx.saw_body(b)
        f = fmtfeat.encoder_features(b)
        if f is None:
            ctx.anchor_missing("C16.1", "single Metadata construction in " + n)
            return None
        feats[n] = f
    ref_name, other = ENCODERS[0], ENCODERS[1]
    ref, oth = fmtfeat.encoder_public(feats[ref_name]), fmtfeat.encoder_public(feats[other])
    ob = facts.body(other)
    for k in sorted(ref):
        if ref[k] == oth.get(k):
            ctx.ok("C16.1", other, "feature `%s` agrees with %s" % (k, ref_name), ob.relfile, feats[other]["_meta_site"].line, str(ref[k])[:160])
        else:
            ctx.violate("C16.1", other, "encoder-feature-differs:" + k, ob.relfile, feats[other]["_meta_site"].line,
                        "the two batch/single encoders disagree on `%s`: %s has %s, %s has %s" % (k, ref_name, ref[k], other, oth.get(k)))
    # the guard must reject (Err return) before the write in each sibling that has it
    for n in ENCODERS:
        b = facts.body(n)
        for op, bound, T in feats[n]["_guard_tests"]:
            # edge on which the header is too long
            bad_edge = T.true_edge if op in ("Gt", "Ge") else T.false_edge
            region = b.reachable_from([bad_edge[1]])
            writes = [s for s in b.calls(re.compile(r"SharedMmap::write$|submission.*::push$|SubmissionQueue.*::push$")) if s.bb in region]
            err_ret = False
            for site, st in b.assigns():
                if site.bb in region and st["place"]["l"] == 0 and st["rv"]["k"] == "agg" and st["rv"].get("variant") == "Err":
                    err_ret = True
            # the bad edge must not fall through to the normal path: its region must not contain the copy of the metadata
            falls = [s for s in b.calls(re.compile(r"copy_from_slice$")) if s.bb in b.reachable_from([bad_edge[1]], removed_blocks=[]) and not b.dominates(s.bb, T.bb) and b.edge_guards(bad_edge, s.bb)]
            if err_ret and not falls:
                ctx.ok("C16.1", n, "over-long header is rejected with Err before the header is built", b.relfile, b.term(T.bb)["line"], "len(meta) %s %s" % (op, bound))
            else:
                ctx.violate("C16.1", n, "guard-does-not-reject", b.relfile, b.term(T.bb)["line"], "the header-length test does not lead to an Err return")
    return feats


def _fld(e):
    """(base, name) if e is a field access (references elided)"""
    e = strip_refs(e)
    if isinstance(e, tuple) and e and e[0] == "field":
        return strip_refs(e[1]), e[3]
    return None, None


def _classify_size(e):
    e = strip_refs(e)
    if isinstance(e, tuple) and e and e[0] == "Sub":
        b1, n1 = _fld(e[1])
        b2, n2 = _fld(e[2])
        if n1 == "end" and n2 == "start" and b1 == b2 and b1 is not None:
            return "end-start"
    return "other:" + show(e)[:80]


def _classify_offset(e):
    e = strip_refs(e)
    if isinstance(e, tuple) and e and e[0] == "Add":
        for x, y in ((e[1], e[2]), (e[2], e[1])):
            bx, nx = _fld(x)
            by, ny = _fld(y)
            if nx == "offset" and ny == "start" and bx is not None:
                bb, nb = _fld(bx)
                if nb == "blk" and bb == by:
                    return "blk.offset+start"
    return "other:" + show(e)[:80]


def _range_features(body):
    out = []
    for s in body.calls(re.compile(r"vec::from_elem$")):
        e = expr(body, s.node["args"][1])
        sh = show(strip_refs(e))
        if fmtfeat.const_eval(strip_refs(e)) is not None:
            continue        # a fixed-size scratch buffer
        if (s.node.get("targs") or [None])[0] != "u8":
            continue        # not a byte buffer (completion bookkeeping and the like)
        # every variable-size buffer of the read path is a range buffer: its size must be the range's length
        out.append(("size", _classify_size(e), s))
    for s in body.calls(re.compile(r"SharedMmap::read$")):
        e = expr(body, s.node["args"][1])
        if "start" in show(e):
            out.append(("offset", _classify_offset(e), s))
    for s in body.calls(re.compile(r"opcode::Read::offset$")):
        out.append(("offset", _classify_offset(expr(body, s.node["args"][1])), s))
    return out


def check_range_builders(ctx, facts):
    main = facts.body("batch_read_for_topic")
    ctx.saw_body(main)
    sibs = {}
    fm = _range_features(main)
    if fm:
        sibs["io_uring loop"] = (main, fm)
    from .core import inline as _inl
    known = _inl.known_functions(facts.crate) or set()
    for nm, hb in facts.bodies.items():
        if hb.kind != "Closure" and not hb.j.get("derived") and not hb.j.get("absorbed") and known and _inl._sg(nm) not in known:
            fh = _range_features(hb)
            if fh:
                ctx.saw_body(hb)
                sibs[common.short_fn(hb.name).split("::")[-1]] = (hb, fh)
    for clo in facts.closures_of(main, recursive=True):
        fc = _range_features(clo)
        if fc:
            ctx.saw_body(clo)
            sibs[common.short_fn(clo.name).split("::")[-1]] = (clo, fc)
    # every place that sizes a range buffer or computes the file offset of a range uses the one pair of formulas, whichever
    # backend it serves and wherever the code lives (the function, a closure of it, a helper inlined into it)
    n_pos = n_ring = n_size = 0
    for n in sorted(sibs):
        b, fs = sibs[n]
        F = common.short_fn(b.name)
        for k, c, s_ in fs:
            cal = strip_generics(s_.node.get("callee") or "")
            if k == "size":
                n_size += 1
                want = "end-start"
            else:
                want = "blk.offset+start"
                if cal.endswith("opcode::Read::offset"):
                    n_ring += 1
                else:
                    n_pos += 1
            if c == want:
                ctx.ok("C16.2", F, "range %s = %s (%s)" % (k, want, n), b.relfile, s_.line)
            else:
                ctx.violate("C16.2", F, "range-builder-differs:" + n, b.relfile, s_.line,
                            "range builder `%s` computes the %s of a planned range as %s; the siblings compute %s" % (n, k, c, want))
    # the file each submitted range is read from (written to) is the file of that range's own block: the descriptor handed
    # to opcode::Read::new / Write::new depends on the plan element of the very iteration that builds the operation. The
    # mmap siblings go through `blk.mmap` of the element by construction; a descriptor resolved once per submission reads
    # the later ranges of a plan that spans two files from the first file
    n_fd = 0
    for fn_ in ("batch_read_for_topic", "writer::Writer::submit_batch_via_io_uring"):
        try:
            hb = facts.body(fn_)
        except Exception:
            continue
        for s_ in hb.calls(re.compile(r"opcode::(Read|Write)::new$")):
            n_fd += 1
            F = common.short_fn(hb.name)
            hbk, L = hb.enclosing_loop(s_.bb)
            src_, _, trav = origins(hb, s_.node["args"][0], follow_all_calls=True)
            per_elem = any(x.idx == "term" and (L is None or x.bb in L) and hb.dominates(x.bb, s_.bb) and re.search(r"Iterator>?::next$", strip_generics(x.node.get("callee") or "")) for x in trav)
            if per_elem:
                ctx.ok("C16.2", F, "the descriptor of each submitted range comes from that range's own plan element", hb.relfile, s_.line)
            else:
                ctx.violate("C16.2", F, "descriptor-not-of-the-range's-own-block", hb.relfile, s_.line,
                            "the file descriptor handed to %s does not depend on the plan element of the iteration that builds the operation: when a plan spans two WAL files the "
                            "later ranges are read from (written to) the first file at the right offsets - the mmap backend, which goes through each block's own mapping, delivers "
                            "the right bytes" % callee_name(s_.node).split("::")[-2])
    ctx.floor("C16.2", "io_uring operations built per planned range", n_fd, 2)
    ctx.floor("C16.2", "range buffer sizes in batch_read_for_topic", n_size, 1)
    ctx.floor("C16.2", "positional (mmap / pread) range offsets in batch_read_for_topic", n_pos, 1)
    ctx.floor("C16.2", "io_uring range offsets in batch_read_for_topic", n_ring, 1)


def check_dispatch(ctx, facts):
    n = 0
    for fn in ("storage::StorageImpl::write", "storage::StorageImpl::read", "storage::StorageImpl::flush", "storage::StorageImpl::len"):
        b = facts.body(fn)
        ctx.saw_body(b)
        found = False
        for T in all_tests(b):
            if T.kind != "discr":
                continue
            ty = b.local_ty(T.place["l"])
            if "StorageImpl" not in ty:
                continue
            found = True
            n += 1
            t = b.term(T.bb)
            vals = {v for v, _ in t["targets"]}
            ow = b.term(t["otherwise"])
            exhaustive = vals == {0, 1} and ow["k"] == "unreachable" and len({tg for _, tg in t["targets"]}) == 2
            if exhaustive:
                ctx.ok("C16.3", fn, "match on StorageImpl handles Mmap and Fd separately, no catch-all", b.relfile, t["line"])
            else:
                ctx.violate("C16.3", fn, "non-exhaustive-backend-dispatch", b.relfile, t["line"], "the backend match in %s has a catch-all or merges the variants" % fn)
        if not found:
            ctx.anchor_missing("C16.3", "match on StorageImpl in " + fn)
    ctx.floor("C16.3", "backend dispatch sites", n, 2)
    # flush arms
    fl = facts.body("storage::StorageImpl::flush")
    calls = {callee_name(s.node) for s in fl.calls()}
    if any(c.endswith("MmapMut::flush") for c in calls):
        ctx.ok("C16.3", "storage::StorageImpl::flush", "Mmap arm calls MmapMut::flush", fl.relfile, fl.line)
    else:
        ctx.violate("C16.3", "storage::StorageImpl::flush", "mmap-flush-missing", fl.relfile, fl.line, "the Mmap arm of flush does not call MmapMut::flush")
    fd = facts.body("storage::FdBackend::flush")
    ctx.saw_body(fd)
    if any(c.endswith("FdBackend::flush") for c in calls) and any(callee_name(s.node).endswith("File::sync_all") for s in fd.calls()):
        ctx.ok("C16.3", "storage::StorageImpl::flush", "Fd arm reaches File::sync_all", fd.relfile, fd.line)
    else:
        ctx.violate("C16.3", "storage::StorageImpl::flush", "fd-flush-missing", fd.relfile, fd.line, "the Fd arm of flush does not reach File::sync_all")


def check_ring_lifetime(ctx, facts):
    from .core.slicing import origins
    from .core.cond import all_tests
    u = facts.body("writer::Writer::submit_batch_via_io_uring")
    F = common.short_fn(u.name)
    news = u.calls(re.compile(r"io_uring::IoUring(::<.*>)?::new$|IoUring.*::new$|io_uring::Builder.*::build$"))
    users = u.calls(re.compile(r"IoUring.*::(submission|submit_and_wait|submit|completion)$"))
    if not users:
        ctx.anchor_missing("C16.4", "io_uring submission/completion calls in " + F)
        return
    fresh = True
    why = None
    for c in users:
        src, _, _ = origins(u, c.node["args"][0], follow_all_calls=True)
        made_here = [o for o in src if o.kind == "call" and re.search(r"IoUring.*::new$|Builder.*::build$", o.what)]
        foreign = [o for o in src if (o.kind == "field" and isinstance(o.what, tuple) and str(o.what[0]).endswith("writer::Writer")) or o.kind == "static"]
        if not made_here or foreign:
            fresh = False
            why = "the ring used at line %s comes from %s" % (c.line, ("Writer." + foreign[0].what[1]) if foreign and foreign[0].kind == "field" else "outside this call")
            break
        if not any(u.dominates(n.bb, c.bb) for n in news):
            fresh = False
            why = "IoUring::new does not dominate the ring use at line %s (the ring is created on some paths only)" % c.line
            break
    sized = False
    for n in news:
        src, _, _ = origins(u, n.node["args"][0], follow_all_calls=True) if n.node["args"] else (set(), None, None)
        if any(o.kind == "arg" for o in src) and any(o.kind == "call" and o.what.endswith("len") for o in src):
            sized = True
    if fresh and sized:
        ctx.ok("C16.4", F, "the ring is created in this call, sized from this batch's plan, and used for this batch only", u.relfile, news[0].line)
        return
    # (b) a missing completion is a failure
    strict = False
    for c in u.calls(re.compile(r"CompletionQueue.*Iterator>::next$|CompletionQueue.*::next$")):
        d = c.node["dest"]["l"]
        for T in all_tests(u):
            if T.kind == "discr" and T.place["l"] == d and not T.place["p"]:
                none_e = T.variant_edges.get(0)
                if none_e is None:
                    continue
                for site, st in u.assigns():
                    if st["rv"]["k"] == "use" and st["rv"]["op"].get("k") == "const" and st["rv"]["op"].get("ty") == "bool" and st["rv"]["op"].get("val") == 0 \
                            and u.edge_guards(none_e, site.bb):
                        strict = True
    if strict:
        ctx.ok("C16.4", F, "a missing completion clears the success flag", u.relfile, users[0].line)
    else:
        ctx.violate("C16.4", F, "ring-outlives-batch", u.relfile, (news or users)[0].line,
                    "%s, and the completion loop silently skips a missing completion: completions left over from an earlier batch are taken for this batch's, "
                    "and a completion queue sized for an earlier, smaller batch overflows - the io_uring backend then rejects or mis-acknowledges batches the mmap backend accepts"
                    % (why or "the ring is not sized from this batch's plan"))


def check_mmap_write_unconditional(ctx, facts, rid="C16.3"):
    """The mmap arm of StorageImpl::write copies the bytes on every path that returns (assertions aside): the FD arm hands
    every write to pwrite, which either writes or the offset is out of the file; a guard that skips the copy for some
    (offset, len) makes the mmap backend drop a write the FD backend performs - the append is still acknowledged."""
    try:
        b = facts.body("storage::StorageImpl::write")
    except Exception:
        ctx.anchor_missing(rid, "storage::StorageImpl::write")
        return
    ctx.saw_body(b)
    F = "storage::StorageImpl::write"
    copies = [c for c in b.calls(re.compile(r"ptr::copy_nonoverlapping$|ptr::copy$|copy_from_slice$|clone_from_slice$|ptr::write_bytes$"))]
    arm = None
    for T in all_tests(b):
        if T.kind == "discr" and T.variant_edges:
            for vi, e in T.variant_edges.items():
                if any(c.bb in b.reachable_from([e[1]]) for c in copies):
                    arm = e
    if not copies or arm is None:
        ctx.anchor_missing(rid, "the copy in the Mmap arm of StorageImpl::write")
        return
    if b.must_pass([arm[1]], b.return_blocks(), [c.bb for c in copies]) or arm[1] in [c.bb for c in copies]:
        ctx.ok(rid, F, "the Mmap arm performs the copy on every returning path", b.relfile, copies[0].line)
    else:
        ctx.violate(rid, F, "mmap-write-can-be-skipped", b.relfile, copies[0].line,
                    "the Mmap arm of StorageImpl::write can return without copying the bytes (a guard around the copy): for the (offset, length) it excludes - e.g. a write that "
                    "ends on the last byte of the file under `end < len` - the mmap backend silently drops what the FD backend writes, and the append is acknowledged")


def run(ctx):
    for k, v in RULES.items():
        ctx.rule(k, v)
    facts = common.mir(ctx, "walrus_rust")
    check_ring_lifetime(ctx, facts)
    check_encoders(ctx, facts)
    check_range_builders(ctx, facts)
    check_dispatch(ctx, facts)
    check_mmap_write_unconditional(ctx, facts)
    ctx.assume("equality of results over operation sequences is NOT decided; the check decides agreement of the sibling implementations' format, guards and range arithmetic")
    return {
        "explanation": "sibling agreement on MIR: symbolic expressions are reconstructed for the two entry encoders and the three read-range builders and their feature vectors "
                       "(field sources, serializer, prefix bytes, ranges, guards) must be equal; backend dispatch sites must be exhaustive two-arm matches.",
    }
