"""Shared ORD rule for the two 'atomic replace' stores (WalIndex::persist,
CleanMarkerStore::persist_map): write tmp -> fsync tmp -> rename tmp over the target ->
fsync the parent directory -> return Ok."""
import re
from .core.mir import op_local, op_place, callee_name
from .core.cond import all_tests, call_site_of
from .core.slicing import origins, origin_calls
from .core.symexpr import expr, show, strip_refs


def _local_of_ref(b, operand):
    """local whose reference is passed (through &, &*, AsRef temps)"""
    src, locals_, _ = origins(b, operand)
    return set(locals_)


def check_atomic_replace(ctx, rule_ord, rule_dir, facts, fn_name, need_dir_sync=True):
    b = facts.body(fn_name)
    ctx.saw_body(b)
    F = b.short
    writes = b.calls(re.compile(r"^std::fs::write$"))
    renames = b.calls(re.compile(r"^std::fs::rename$"))
    opens = b.calls(re.compile(r"^std::fs::File::open$|OpenOptions::open$"))
    syncs = b.calls(re.compile(r"^std::fs::File::sync_all$|File::sync_data$"))
    if len(writes) != 1 or len(renames) != 1:
        ctx.anchor_missing(rule_ord, "fs::write / fs::rename in " + F)
        return
    w, r = writes[0], renames[0]
    # tmp path local: first arg of write == first arg of rename
    wl = _local_of_ref(b, w.node["args"][0])
    rl = _local_of_ref(b, r.node["args"][0])
    tmp_locals = {l for l in (wl & rl) if b.local_name(l)}
    if not tmp_locals:
        ctx.violate(rule_ord, F, "renamed-file-is-not-the-written-file", b.relfile, r.line, "fs::rename does not move the file that fs::write produced")
        return
    # fsync of tmp between write and rename
    tmp_sync = None
    for s in syncs:
        # the File synced was opened from tmp
        fsrc, flocals, _ = origins(b, s.node["args"][0], follow_all_calls=True)
        if set(flocals) & tmp_locals and b.dominates(w.bb, s.bb) and b.dominates(s.bb, r.bb):
            tmp_sync = s
    if tmp_sync is None:
        ctx.violate(rule_ord, F, "tmp-not-fsynced-before-rename", b.relfile, r.line,
                    "the temporary file is not fsynced between fs::write and fs::rename: after a power loss the renamed file may be empty or partial")
    else:
        ctx.ok(rule_ord, F, "write(tmp) -> sync_all(tmp) -> rename(tmp, target) in dominance order", b.relfile, tmp_sync.line)
    # every fallible step propagates: Err edges of write/open/sync/rename are error exits
    from .c04 import error_exits
    for c in [w, r] + ([tmp_sync] if tmp_sync else []):
        if error_exits(b, c):
            ctx.ok(rule_ord, F, "failure of %s is returned" % callee_name(c.node).split("::")[-1], b.relfile, c.line)
        else:
            ctx.violate(rule_ord, F, "error-dropped:" + callee_name(c.node).split("::")[-1], b.relfile, c.line, "the result of %s is not propagated" % callee_name(c.node))
    if not need_dir_sync:
        return
    # directory fsync after the rename, on every path to an Ok return, except when the target has no parent
    dir_syncs = []
    for s in syncs:
        if not b.dominates(r.bb, s.bb) or s.bb == r.bb:
            continue
        fsrc, flocals, _ = origins(b, s.node["args"][0], follow_all_calls=True)
        if any(o.kind == "call" and re.search(r"Path::parent$", o.what) for o in fsrc):
            dir_syncs.append(s)
    ok_rets = [site.bb for site, st in b.assigns() if st["place"]["l"] == 0 and not st["place"]["p"] and st["rv"]["k"] == "agg" and st["rv"].get("variant") == "Ok"]
    if not dir_syncs:
        ctx.violate(rule_dir, F, "no-directory-fsync-after-rename", b.relfile, r.line,
                    "after fs::rename the parent directory is never fsynced: the rename (and with it the update this call acknowledged) can be lost on power failure")
        return
    # allowed bypass: the None edge of a test on the Option returned by Path::parent (or a filter of it)
    bypass = []
    for T in all_tests(b):
        if T.kind == "discr" and not T.place["p"]:
            src, _, _ = origins(b, {"k": "copy", "place": T.place}, passthrough_extra=[r"Option.*::filter$"])
            if any(o.kind == "call" and re.search(r"Path::parent$", o.what) for o in src):
                e = T.variant_edges.get(0) or ((T.bb, T.otherwise) if 1 in T.variant_edges else None)
                if e:
                    bypass.append(e)
    if b.must_pass([r.bb], ok_rets, [s.bb for s in dir_syncs], removed_edges=bypass):
        ctx.ok(rule_dir, F, "rename is followed by sync_all of the parent directory on every path to Ok (no-parent case excepted)", b.relfile, dir_syncs[0].line)
    else:
        ctx.violate(rule_dir, F, "directory-fsync-skipped-on-a-path", b.relfile, r.line, "a path from fs::rename reaches `return Ok` without syncing the parent directory")
    for s in dir_syncs:
        if error_exits(b, s):
            ctx.ok(rule_dir, F, "failure of the directory sync is returned", b.relfile, s.line)
        else:
            ctx.violate(rule_dir, F, "directory-sync-error-dropped", b.relfile, s.line, "the result of the directory sync_all is not propagated")
    # the synced directory is the parent of the rename target
    tgt = show(strip_refs(expr(b, r.node["args"][1])))
    for s in dir_syncs:
        fsrc, _, _ = origins(b, s.node["args"][0], follow_all_calls=True)
        par = [o for o in fsrc if o.kind == "call" and re.search(r"Path::parent$", o.what)]
        psrc, plocals, _ = origins(b, par[0].site.node["args"][0], follow_all_calls=True)
        tsrc, tlocals, _ = origins(b, r.node["args"][1], follow_all_calls=True)
        named_t = {l for l in tlocals if b.local_name(l) or l <= b.arg_count}
        named_p = {l for l in plocals if b.local_name(l) or l <= b.arg_count}
        tfields = {o.what for o in tsrc if o.kind == "field"}
        pfields = {o.what for o in psrc if o.kind == "field"}
        if (named_t & named_p) and (tfields == pfields or (tfields & pfields) or not tfields):
            ctx.ok(rule_dir, F, "the synced directory is the parent of the rename target", b.relfile, s.line)
        else:
            ctx.violate(rule_dir, F, "wrong-directory-synced", b.relfile, s.line, "the directory that is fsynced is not derived from the rename target")
