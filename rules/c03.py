"""C03 - batch reads honour the entry cap and byte budget (progress clause not decided)."""
import re
from .core import common
from .core.mir import op_local, op_place, strip_generics, callee_name, Site
from .core.cond import decode_test, all_tests, call_site_of, borrowed_local, const_of
from .core.slicing import origins, origin_calls, origin_args

CAP = 2000

RULES = {
    "C03.1": "cap (MPT in the parse loop): with R the vector returned as Ok(R), every Vec::push(&mut R, _) is reachable from function entry and from any push only through the not-full edge of a test len(R) <op> K whose edge bound implies len(R) <= 1999, the len being read after the last push; R starts empty and no other call mutably borrows R; K evaluates to 2000",
    "C03.2": "budget with at-least-one: every push is reachable (from entry and from any push) only through a budget pass edge: the false edge of `next_total > max_bytes` or the true edge of `R.is_empty()`; next_total is a checked/saturating sum of the running total and the entry's read_size; max_bytes is the caller's argument; every path from a push to the next evaluation of next_total stores next_total into the running total, and the running total has no other non-zero definition",
}

LEMMA = ("C03.1: len(R)=0 initially and pushes are the only growth; each push executes with len(R) <= 1999 established after the previous push, "
         "so len(R) <= 2000 at return. C03.2: at each push either next_total <= max_bytes or R is empty; the running total equals the sum of "
         "read_size of entries accounted so far (non-wrapping add), so at return total <= max_bytes, or the only push happened with R empty and any later push "
         "would need next_total <= max_bytes with total already > max_bytes, impossible; hence sum <= max_bytes or len(R) = 1.")

SAFE_MUT = re.compile(r"::(clear|truncate|pop|shrink_to_fit|reserve|reserve_exact)$")
LEN_RE = re.compile(r"Vec::len$|<impl \[T\]>::len$")
EMPTY_RE = re.compile(r"Vec::is_empty$|<impl \[T\]>::is_empty$")


def returned_vec(body):
    """local R such that `_0 = Ok(move R)` and R: Vec<Entry>"""
    cands = set()
    for site, st in body.assigns():
        rv = st["rv"]
        if st["place"]["l"] == 0 and rv["k"] == "agg" and rv.get("variant") == "Ok":
            l = op_local(body.resolve_copy(rv["ops"][0]))
            if l is not None and "Vec<" in body.local_ty(l) and "Entry" in body.local_ty(l):
                cands.add(l)
    return cands


def check(ctx, facts, fn_name="batch_read_for_topic", cap=CAP):
    fn = facts.body(fn_name)
    ctx.saw_body(fn)
    F = common.short_fn(fn.name)
    Rs = returned_vec(fn)
    pushes = []
    for s in fn.calls(re.compile(r"Vec::push$")):
        r = borrowed_local(fn, s.node["args"][0])
        if r in Rs:
            pushes.append((s, r))
    Rset = {r for _, r in pushes}
    if not pushes:
        ctx.anchor_missing("C03.1", "push into the returned Vec<Entry> in " + F)
        return
    ctx.floor("C03.1", "push sites into the returned vector", len(pushes), 1)
    push_blocks = [s.bb for s, _ in pushes]
    # R starts empty; no other mutable use
    for R in Rset:
        for site, kind, node in fn.defs.get(R, []):
            if kind == "call":
                cn = callee_name(node)
                if re.search(r"Vec::(new|with_capacity)$", cn):
                    ctx.ok("C03.1", F, "returned vector starts empty", fn.relfile, site.line, cn)
                else:
                    ctx.violate("C03.1", F, "vector-init", fn.relfile, site.line, "returned vector is initialised by %s, not an empty Vec" % cn)
            elif kind == "assign":
                ctx.violate("C03.1", F, "vector-init", fn.relfile, site.line, "returned vector is assigned from another value; the cap induction needs an empty start")
        for s in fn.calls():
            cn = callee_name(s.node)
            if re.search(r"Vec::push$", cn):
                continue
            for a in s.node["args"]:
                l = op_local(a)
                if l is None:
                    continue
                d = fn.def_rvalue(l)
                if d and d[0] == "rv" and d[1]["k"] == "ref" and d[1]["mut"] and d[1]["place"]["l"] == R and not d[1]["place"]["p"]:
                    if SAFE_MUT.search(cn):
                        continue
                    ctx.violate("C03.1", F, "other-mutation:" + cn.split("::")[-1], fn.relfile, s.line,
                                "%s takes &mut of the returned vector; only push may grow it" % cn)
    # cap tests
    tests = all_tests(fn)
    good_edges = []
    cap_consts = []
    n_tests = 0
    for T in tests:
        if T.kind != "cmp":
            continue
        sa, sb = call_site_of(fn, T.a), call_site_of(fn, T.b)
        ka, kb = const_of(fn, T.a), const_of(fn, T.b)
        len_site, K, op = None, None, T.op
        if sa is not None and LEN_RE.search(callee_name(sa.node)) and kb is not None:
            len_site, K = sa, kb
        elif sb is not None and LEN_RE.search(callee_name(sb.node)) and ka is not None:
            len_site, K = sb, ka
            op = {"Lt": "Gt", "Le": "Ge", "Gt": "Lt", "Ge": "Le", "Eq": "Eq", "Ne": "Ne"}[op]
        if len_site is None:
            continue
        if borrowed_local(fn, len_site.node["args"][0]) not in Rset:
            continue
        n_tests += 1
        # len read must flow directly into the test (no push between)
        between = fn.reachable_after(len_site.bb, removed_blocks=[T.bb]) & set(push_blocks)
        stale = len_site.bb != T.bb and not fn.dominates(len_site.bb, T.bb)
        if stale or (between and not fn.must_pass([len_site.bb], [T.bb], [], ()) and T.bb not in fn.succ[len_site.bb]):
            ctx.violate("C03.1", F, "stale-len", fn.relfile, len_site.line, "len() feeding the cap test is not read immediately before the test")
            continue
        # bound on the not-full edge: len <= bound
        if op == "Ge":      # len >= K true=full ; false => len <= K-1
            edge, bound = T.false_edge, K - 1
        elif op == "Gt":    # false => len <= K
            edge, bound = T.false_edge, K
        elif op == "Lt":    # true => len <= K-1
            edge, bound = T.true_edge, K - 1
        elif op == "Le":
            edge, bound = T.true_edge, K
        else:
            continue
        cap_consts.append(K)
        if bound + 1 <= cap:
            good_edges.append(edge)
            ctx.ok("C03.1", F, "cap test len %s %d: pass edge implies len <= %d" % (op, K, bound), fn.relfile, T.site.line if T.site else None)
        else:
            # not a violation by itself: another test may still guard every push
            ctx.note("cap test `len %s %d` at line %s admits a push at len = %d (not counted as a guard)" % (op, K, T.site.line if T.site else None, bound))
    ctx.floor("C03.1", "cap tests on the returned vector", n_tests, 1)
    for s, r in pushes:
        from_entry = s.bb in fn.reachable_from([0], removed_edges=good_edges)
        from_push = any(s.bb in fn.reachable_after(p.bb, removed_edges=good_edges) for p, _ in pushes)
        if from_entry or from_push:
            ctx.violate("C03.1", F, "push-not-capped", fn.relfile, s.line,
                        "a path reaches this push %s without passing the not-full edge of a cap test that bounds len <= %d" % ("from function entry" if from_entry else "from a previous push", cap - 1))
        else:
            ctx.ok("C03.1", F, "push is preceded (since entry and since every push) by a len < %d edge" % cap, fn.relfile, s.line)
    if cap_consts and max(cap_consts) != cap:
        pass
    try:
        k = facts.const_val("config::MAX_BATCH_ENTRIES")
        if k > cap:
            ctx.violate("C03.1", "config", "MAX_BATCH_ENTRIES", "src/wal/config.rs", None, "MAX_BATCH_ENTRIES evaluates to %d, the property states at most %d" % (k, cap))
        else:
            ctx.ok("C03.1", "config", "MAX_BATCH_ENTRIES = %d <= %d" % (k, cap), "src/wal/config.rs", None)
    except Exception:
        pass

    # ---------------- C03.2 ----------------------------------------------------
    max_arg = fn.arg_local("max_bytes")
    if max_arg is None:
        ctx.anchor_missing("C03.2", "argument max_bytes of " + F)
        return
    pass_edges = []
    budget_tests = []
    for T in tests:
        if T.kind == "cmp" and T.op in ("Gt", "Ge", "Lt", "Le"):
            a_is_max = op_local(T.a) == max_arg
            b_is_max = op_local(T.b) == max_arg
            if not (a_is_max or b_is_max):
                continue
            x = T.b if a_is_max else T.a
            op = T.op if b_is_max else {"Lt": "Gt", "Le": "Ge", "Gt": "Lt", "Ge": "Le"}[T.op]
            # x <op> max_bytes ; x must be sum(total, read_size)
            xs = call_site_of(fn, x)
            src, _, _ = origins(fn, x, stop_calls=[r"checked_add$", r"saturating_add$"])
            adds = [o for o in src if o.kind == "call" and re.search(r"(checked_add|saturating_add)$", o.what)]
            if not adds:
                continue  # planning-phase comparisons against max_bytes (planned_bytes) are not the payload budget
            add = adds[0].site
            a0, a1 = add.node["args"][0], add.node["args"][1]
            acc = op_local(fn.resolve_copy(a0))
            size_src, _, _ = origins(fn, a1)
            if not any(o.kind == "field" and o.what[1] == "read_size" for o in size_src):
                acc2 = op_local(fn.resolve_copy(a1))
                size_src, _, _ = origins(fn, a0)
                if any(o.kind == "field" and o.what[1] == "read_size" for o in size_src):
                    acc = acc2
                else:
                    continue
            xl = op_local(fn.resolve_copy(x))
            budget_tests.append((T, op, xl, acc, add))
    if not budget_tests:
        ctx.anchor_missing("C03.2", "budget test `total + read_size > max_bytes` in " + F)
        return
    for T, op, xl, acc, add in budget_tests:
        if op == "Gt":        # x > max : false edge = within budget
            pass_edges.append(T.false_edge)
        elif op == "Le":      # x <= max : true edge within budget
            pass_edges.append(T.true_edge)
        elif op == "Ge":      # x >= max false => x < max (stricter, fine)
            pass_edges.append(T.false_edge)
        elif op == "Lt":
            pass_edges.append(T.true_edge)
        ctx.ok("C03.2", F, "budget test next_total %s max_bytes found" % op, fn.relfile, T.site.line if T.site else None,
               "next_total=_%s acc=_%s" % (xl, acc))
    for T in tests:
        if T.kind == "call" and EMPTY_RE.search(T.callee) and borrowed_local(fn, T.args[0]) in Rset:
            pass_edges.append(T.true_edge)
            ctx.ok("C03.2", F, "at-least-one escape: R.is_empty() true edge", fn.relfile, T.site.line)
    for s, r in pushes:
        from_entry = s.bb in fn.reachable_from([0], removed_edges=pass_edges)
        from_push = any(s.bb in fn.reachable_after(p.bb, removed_edges=pass_edges) for p, _ in pushes)
        if from_entry or from_push:
            ctx.violate("C03.2", F, "push-not-budgeted", fn.relfile, s.line,
                        "a path reaches this push %s without passing `next_total <= max_bytes` or `entries.is_empty()`" % ("from function entry" if from_entry else "from a previous push"))
        else:
            ctx.ok("C03.2", F, "push is preceded by a budget pass edge or the at-least-one escape", fn.relfile, s.line)
    # accounting: acc only defined as 0 or next_total; stored after each push before next add
    for T, op, xl, acc, add in budget_tests:
        stores = []
        for site, kind, node in fn.defs.get(acc, []):
            if kind != "assign":
                ctx.violate("C03.2", F, "total-defined-by-call", fn.relfile, site.line, "running total is defined by a call")
                continue
            rv = node["rv"]
            o = fn.resolve_copy(rv["op"]) if rv["k"] == "use" else None
            if o is not None and o.get("k") == "const" and o.get("val") == 0:
                continue
            if o is not None and op_local(o) == xl:
                stores.append(site)
                continue
            ctx.violate("C03.2", F, "total-other-definition", fn.relfile, site.line, "running total is assigned something other than 0 or next_total")
        if not stores:
            ctx.violate("C03.2", F, "total-never-updated", fn.relfile, add.line, "the running total is never updated from next_total: the budget test always sees 0")
            continue
        store_blocks = [st.bb for st in stores]
        for s, r in pushes:
            if not fn.must_pass([s.bb], [add.bb], store_blocks):
                ctx.violate("C03.2", F, "push-not-accounted", fn.relfile, s.line, "a path from this push reaches the next budget computation without adding the entry's size to the running total")
            else:
                ctx.ok("C03.2", F, "every path push -> next budget computation stores next_total into the running total", fn.relfile, s.line)
        # the pushed entry's bytes are the ones sized by read_size of the same metadata
        for s, r in pushes:
            esrc, _, _ = origins(fn, s.node["args"][1])
            if any(o.kind == "field" and o.what[1] == "read_size" for o in esrc):
                ctx.ok("C03.2", F, "pushed payload is the slice sized by the accounted read_size", fn.relfile, s.line)
            else:
                ctx.violate("C03.2", F, "pushed-size-unrelated", fn.relfile, s.line, "the pushed entry's length does not derive from the read_size that the budget accounts")
    # max_bytes must not be reassigned
    for site, kind, node in fn.defs.get(max_arg, []):
        ctx.violate("C03.2", F, "max_bytes-reassigned", fn.relfile, site.line, "the budget argument is overwritten inside the function")


def run(ctx):
    for k, v in RULES.items():
        ctx.rule(k, v)
    facts = common.mir(ctx, "walrus_rust")
    check(ctx, facts)
    ctx.assume("rustc MIR construction and callee resolution; Vec::push grows by exactly one; std checked_add/saturating_add do not wrap")
    ctx.assume("the progress clause (at least one entry whenever one is unconsumed) is NOT decided: it depends on planner arithmetic over runtime sizes")
    return {
        "explanation": "must-pass-through analysis on the MIR CFG of batch_read_for_topic: pushes into the returned vector are cut off from entry and from each other when the "
                       "cap-test / budget-test pass edges are removed; plus def-use obligations on the running total. Decides the cap and budget clauses for every input; the progress clause is not decided.",
        "lemma": LEMMA,
    }
