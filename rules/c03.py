"""C03 - batch reads honour the entry cap and byte budget (progress clause not decided)."""
import re
from .core import common
from .core.mir import op_local, op_place, strip_generics, callee_name, Site
from .core.cond import decode_test, all_tests, call_site_of, borrowed_local, const_of
from .core.slicing import origins, origin_calls, origin_args

CAP = 2000

RULES = {
    "C03.5": "progress is not lost to a spurious failure: the batch read returns Err only on a failed / short io_uring completion or a checksum mismatch - every comparison that "
             "decides an Err return is one of those two. An entry that does not fit its planned range (cut by the budget) ends the batch; a read that fails there returns nothing "
             "and can never get past that entry",
    "C03.1": "cap (MPT in the parse loop): with R the vector returned as Ok(R), every Vec::push(&mut R, _) is reachable from function entry and from any push only through the not-full edge of a test len(R) <op> K whose edge bound implies len(R) <= 1999, the len being read after the last push; R starts empty and no other call mutably borrows R; K evaluates to 2000",
    "C03.2": "budget with at-least-one: every push is reachable (from entry and from any push) only through a budget pass edge: the false edge of `next_total > max_bytes` or the true edge of `R.is_empty()`; next_total is a checked/saturating sum of the running total and the entry's read_size; max_bytes is the caller's argument; every path from a push to the next evaluation of next_total stores next_total into the running total, and the running total has no other non-zero definition",
    "C03.3": "first entry always fits the plan (at-least-one, only-allowed-bypass): when nothing has been planned yet (planned == 0) the byte range `want` planned for the block at the "
             "cursor is widened to the size announced by the header at the cursor (want = max(want, PREFIX_META_SIZE + read_size[, + the second header for tiny entries])). Within one "
             "iteration of the planning loop, the only branches that may bypass that widening are: the peek flag being false - and that flag is cleared only under start_offset = "
             "Some(_) (offset-addressed reads trim by their own hint) -, the header not fitting into the block's used bytes, an invalid header length, and a failed header decode. "
             "A budget class for which the widening is skipped plans a range that ends inside the first entry, which the parser then drops: the entry is skipped or never delivered",
    "C03.4": "a budget stop ends the batch: from the edge on which the parser gives up an entry because the byte budget is exhausted (`next_total > max_bytes` with the vector not "
             "empty), and from the edges on which the planned range turns out to end in front of or inside an entry (`offset + needed > buffer.len()`: the budget cut the range "
             "there), no further push into the returned vector is reachable (boolean flags assigned on the way are taken at their value). Otherwise the entries of a later planned "
             "range - the next block, the tail - are delivered and the cursor is committed past the block in which the parser stopped, and the entries left in that block are never "
             "delivered",
}

LEMMA = ("C03.1: len(R)=0 initially and pushes are the only growth; each push executes with len(R) <= 1999 established after the previous push, "
         "so len(R) <= 2000 at return. C03.2: at each push either next_total <= max_bytes or R is empty; the running total equals the sum of "
         "read_size of entries accounted so far (non-wrapping add), so at return total <= max_bytes, or the only push happened with R empty and any later push "
         "would need next_total <= max_bytes with total already > max_bytes, impossible; hence sum <= max_bytes or len(R) = 1.")

SAFE_MUT = re.compile(r"::(clear|truncate|pop|shrink_to_fit|reserve|reserve_exact)$")
LEN_RE = re.compile(r"Vec::len$|<impl \[T\]>::len$")
EMPTY_RE = re.compile(r"Vec::is_empty$|<impl \[T\]>::is_empty$")


def returned_vec(body):
    """local R such that `_0 = Ok(move R)` and R: Vec<Entry>"""
    cands = set()
    for site, st in body.assigns():
        rv = st["rv"]
        if st["place"]["l"] == 0 and rv["k"] == "agg" and rv.get("variant") == "Ok":
            l = op_local(body.resolve_copy(rv["ops"][0]))
            if l is not None and "Vec<" in body.local_ty(l) and "Entry" in body.local_ty(l):
                cands.add(l)
    return cands


def check(ctx, facts, fn_name="batch_read_for_topic", cap=CAP):
    fn = facts.body(fn_name)
    ctx.saw_body(fn)
    F = common.short_fn(fn.name)
    Rs = returned_vec(fn)
    pushes = []
    for s in fn.calls(re.compile(r"Vec::push$")):
        r = borrowed_local(fn, s.node["args"][0])
        if r in Rs:
            pushes.append((s, r))
    Rset = {r for _, r in pushes}
    if not pushes:
        ctx.anchor_missing("C03.1", "push into the returned Vec<Entry> in " + F)
        return
    ctx.floor("C03.1", "push sites into the returned vector", len(pushes), 1)
    push_blocks = [s.bb for s, _ in pushes]
    # R starts empty; no other mutable use
    for R in Rset:
        for site, kind, node in fn.defs.get(R, []):
            if kind == "call":
                cn = callee_name(node)
                if re.search(r"Vec::(new|with_capacity)$", cn):
                    ctx.ok("C03.1", F, "returned vector starts empty", fn.relfile, site.line, cn)
                else:
                    ctx.violate("C03.1", F, "vector-init", fn.relfile, site.line, "returned vector is initialised by %s, not an empty Vec" % cn)
            elif kind == "assign":
                ctx.violate("C03.1", F, "vector-init", fn.relfile, site.line, "returned vector is assigned from another value; the cap induction needs an empty start")
        for s in fn.calls():
            cn = callee_name(s.node)
            if re.search(r"Vec::push$", cn):
                continue
            for a in s.node["args"]:
                l = op_local(a)
                if l is None:
                    continue
                d = fn.def_rvalue(l)
                if d and d[0] == "rv" and d[1]["k"] == "ref" and d[1]["mut"] and d[1]["place"]["l"] == R and not d[1]["place"]["p"]:
                    if SAFE_MUT.search(cn):
                        continue
                    ctx.violate("C03.1", F, "other-mutation:" + cn.split("::")[-1], fn.relfile, s.line,
                                "%s takes &mut of the returned vector; only push may grow it" % cn)
    # cap tests
    tests = all_tests(fn)
    good_edges = []
    cap_consts = []
    n_tests = 0
    for T in tests:
        if T.kind != "cmp":
            continue
        sa, sb = call_site_of(fn, T.a), call_site_of(fn, T.b)
        ka, kb = const_of(fn, T.a), const_of(fn, T.b)
        len_site, K, op = None, None, T.op
        if sa is not None and LEN_RE.search(callee_name(sa.node)) and kb is not None:
            len_site, K = sa, kb
        elif sb is not None and LEN_RE.search(callee_name(sb.node)) and ka is not None:
            len_site, K = sb, ka
            op = {"Lt": "Gt", "Le": "Ge", "Gt": "Lt", "Ge": "Le", "Eq": "Eq", "Ne": "Ne"}[op]
        if len_site is None:
            continue
        if borrowed_local(fn, len_site.node["args"][0]) not in Rset:
            continue
        n_tests += 1
        # len read must flow directly into the test (no push between)
        between = fn.reachable_after(len_site.bb, removed_blocks=[T.bb]) & set(push_blocks)
        stale = len_site.bb != T.bb and not fn.dominates(len_site.bb, T.bb)
        if stale or (between and not fn.must_pass([len_site.bb], [T.bb], [], ()) and T.bb not in fn.succ[len_site.bb]):
            ctx.violate("C03.1", F, "stale-len", fn.relfile, len_site.line, "len() feeding the cap test is not read immediately before the test")
            continue
        # bound on the not-full edge: len <= bound
        if op == "Ge":      # len >= K true=full ; false => len <= K-1
            edge, bound = T.false_edge, K - 1
        elif op == "Gt":    # false => len <= K
            edge, bound = T.false_edge, K
        elif op == "Lt":    # true => len <= K-1
            edge, bound = T.true_edge, K - 1
        elif op == "Le":
            edge, bound = T.true_edge, K
        else:
            continue
        cap_consts.append(K)
        if bound + 1 <= cap:
            good_edges.append(edge)
            ctx.ok("C03.1", F, "cap test len %s %d: pass edge implies len <= %d" % (op, K, bound), fn.relfile, T.site.line if T.site else None)
        else:
            # not a violation by itself: another test may still guard every push
            ctx.note("cap test `len %s %d` at line %s admits a push at len = %d (not counted as a guard)" % (op, K, T.site.line if T.site else None, bound))
    ctx.floor("C03.1", "cap tests on the returned vector", n_tests, 1)
    for s, r in pushes:
        from_entry = s.bb in fn.reachable_from([0], removed_edges=good_edges)
        from_push = any(s.bb in fn.reachable_after(p.bb, removed_edges=good_edges) for p, _ in pushes)
        if from_entry or from_push:
            ctx.violate("C03.1", F, "push-not-capped", fn.relfile, s.line,
                        "a path reaches this push %s without passing the not-full edge of a cap test that bounds len <= %d" % ("from function entry" if from_entry else "from a previous push", cap - 1))
        else:
            ctx.ok("C03.1", F, "push is preceded (since entry and since every push) by a len < %d edge" % cap, fn.relfile, s.line)
    if cap_consts and max(cap_consts) != cap:
        pass
    try:
        k = facts.const_val("config::MAX_BATCH_ENTRIES")
        if k > cap:
            ctx.violate("C03.1", "config", "MAX_BATCH_ENTRIES", "src/wal/config.rs", None, "MAX_BATCH_ENTRIES evaluates to %d, the property states at most %d" % (k, cap))
        else:
            ctx.ok("C03.1", "config", "MAX_BATCH_ENTRIES = %d <= %d" % (k, cap), "src/wal/config.rs", None)
    except Exception:
        pass

    # ---------------- C03.2 ----------------------------------------------------
    max_arg = fn.arg_local("max_bytes")
    if max_arg is None:
        ctx.anchor_missing("C03.2", "argument max_bytes of " + F)
        return
    pass_edges = []
    budget_tests = []
    for T in tests:
        if T.kind == "cmp" and T.op in ("Gt", "Ge", "Lt", "Le"):
            a_is_max = op_local(T.a) == max_arg
            b_is_max = op_local(T.b) == max_arg
            if not (a_is_max or b_is_max):
                continue
            x = T.b if a_is_max else T.a
            op = T.op if b_is_max else {"Lt": "Gt", "Le": "Ge", "Gt": "Lt", "Ge": "Le"}[T.op]
            # x <op> max_bytes ; x must be sum(total, read_size)
            xs = call_site_of(fn, x)
            src, _, _ = origins(fn, x, stop_calls=[r"checked_add$", r"saturating_add$"])
            adds = [o for o in src if o.kind == "call" and re.search(r"(checked_add|saturating_add)$", o.what)]
            if not adds:
                continue  # planning-phase comparisons against max_bytes (planned_bytes) are not the payload budget
            add = adds[0].site
            a0, a1 = add.node["args"][0], add.node["args"][1]
            acc = op_local(fn.resolve_copy(a0))
            size_src, _, _ = origins(fn, a1)
            if not any(o.kind == "field" and o.what[1] == "read_size" for o in size_src):
                acc2 = op_local(fn.resolve_copy(a1))
                size_src, _, _ = origins(fn, a0)
                if any(o.kind == "field" and o.what[1] == "read_size" for o in size_src):
                    acc = acc2
                else:
                    continue
            xl = op_local(fn.resolve_copy(x))
            budget_tests.append((T, op, xl, acc, add))
    if not budget_tests:
        ctx.anchor_missing("C03.2", "budget test `total + read_size > max_bytes` in " + F)
        return
    for T, op, xl, acc, add in budget_tests:
        if op == "Gt":        # x > max : false edge = within budget
            pass_edges.append(T.false_edge)
        elif op == "Le":      # x <= max : true edge within budget
            pass_edges.append(T.true_edge)
        elif op == "Ge":      # x >= max false => x < max (stricter, fine)
            pass_edges.append(T.false_edge)
        elif op == "Lt":
            pass_edges.append(T.true_edge)
        ctx.ok("C03.2", F, "budget test next_total %s max_bytes found" % op, fn.relfile, T.site.line if T.site else None,
               "next_total=_%s acc=_%s" % (xl, acc))
    for T in tests:
        if T.kind == "call" and EMPTY_RE.search(T.callee) and borrowed_local(fn, T.args[0]) in Rset:
            pass_edges.append(T.true_edge)
            ctx.ok("C03.2", F, "at-least-one escape: R.is_empty() true edge", fn.relfile, T.site.line)
    for s, r in pushes:
        from_entry = s.bb in fn.reachable_from([0], removed_edges=pass_edges)
        from_push = any(s.bb in fn.reachable_after(p.bb, removed_edges=pass_edges) for p, _ in pushes)
        if from_entry or from_push:
            ctx.violate("C03.2", F, "push-not-budgeted", fn.relfile, s.line,
                        "a path reaches this push %s without passing `next_total <= max_bytes` or `entries.is_empty()`" % ("from function entry" if from_entry else "from a previous push"))
        else:
            ctx.ok("C03.2", F, "push is preceded by a budget pass edge or the at-least-one escape", fn.relfile, s.line)
    # accounting: acc only defined as 0 or next_total; stored after each push before next add
    for T, op, xl, acc, add in budget_tests:
        stores = []
        for site, kind, node in fn.defs.get(acc, []):
            if kind != "assign":
                ctx.violate("C03.2", F, "total-defined-by-call", fn.relfile, site.line, "running total is defined by a call")
                continue
            rv = node["rv"]
            o = fn.resolve_copy(rv["op"]) if rv["k"] == "use" else None
            if o is not None and o.get("k") == "const" and o.get("val") == 0:
                continue
            if o is not None and op_local(o) == xl:
                stores.append(site)
                continue
            ctx.violate("C03.2", F, "total-other-definition", fn.relfile, site.line, "running total is assigned something other than 0 or next_total")
        if not stores:
            ctx.violate("C03.2", F, "total-never-updated", fn.relfile, add.line, "the running total is never updated from next_total: the budget test always sees 0")
            continue
        store_blocks = [st.bb for st in stores]
        for s, r in pushes:
            if not fn.must_pass([s.bb], [add.bb], store_blocks):
                ctx.violate("C03.2", F, "push-not-accounted", fn.relfile, s.line, "a path from this push reaches the next budget computation without adding the entry's size to the running total")
            else:
                ctx.ok("C03.2", F, "every path push -> next budget computation stores next_total into the running total", fn.relfile, s.line)
        # the pushed entry's bytes are the ones sized by read_size of the same metadata
        for s, r in pushes:
            esrc, _, _ = origins(fn, s.node["args"][1])
            if any(o.kind == "field" and o.what[1] == "read_size" for o in esrc):
                ctx.ok("C03.2", F, "pushed payload is the slice sized by the accounted read_size", fn.relfile, s.line)
            else:
                ctx.violate("C03.2", F, "pushed-size-unrelated", fn.relfile, s.line, "the pushed entry's length does not derive from the read_size that the budget accounts")
    # max_bytes must not be reassigned
    for site, kind, node in fn.defs.get(max_arg, []):
        ctx.violate("C03.2", F, "max_bytes-reassigned", fn.relfile, site.line, "the budget argument is overwritten inside the function")


def check_budget_stop_ends_batch(ctx, facts, fn_name="batch_read_for_topic", rid="C03.4"):
    fn = facts.body(fn_name)
    F = common.short_fn(fn.name)
    Rs = returned_vec(fn)
    pushes = [s for s in fn.calls(re.compile(r"Vec::push$")) if borrowed_local(fn, s.node["args"][0]) in Rs]
    max_arg = fn.arg_local("max_bytes")
    tests = all_tests(fn)
    stops = []
    for T in tests:
        if T.kind == "cmp" and T.op in ("Gt", "Ge", "Lt", "Le") and (op_local(T.a) == max_arg or op_local(T.b) == max_arg):
            x = T.b if op_local(T.a) == max_arg else T.a
            src, _, _ = origins(fn, x, stop_calls=[r"checked_add$", r"saturating_add$"])
            if not any(o.kind == "call" and re.search(r"(checked_add|saturating_add)$", o.what) for o in src):
                continue
            op = T.op if op_local(T.b) == max_arg else {"Lt": "Gt", "Le": "Ge", "Gt": "Lt", "Ge": "Le"}[T.op]
            fail = T.true_edge if op in ("Gt", "Ge") else T.false_edge
            # the stop proper: budget failed AND the vector is not empty (the at-least-one escape goes on to push)
            stop_edges = []
            for T2 in tests:
                if T2.kind == "call" and EMPTY_RE.search(T2.callee) and borrowed_local(fn, T2.args[0]) in Rs and fn.edge_guards(fail, T2.bb):
                    stop_edges.append(T2.false_edge)
            stops.append((T, stop_edges or [fail]))
    if not stops or not pushes:
        ctx.anchor_missing(rid, "budget test / push in " + F)
        return
    # range-cut stops: the planned range ends in front of / inside an entry (`offset + needed > buffer.len()`),
    # where `offset` is the local the parse loop runs on (`offset < buffer.len()`)
    from .core.symexpr import expr, show, strip_refs
    loop_offs = set()
    for T in tests:
        if T.kind == "cmp" and T.op == "Lt":
            eb = strip_refs(expr(fn, T.b))
            la = op_local(fn.resolve_copy(T.a))
            if la is not None and eb[0] == "len" and fn.local_ty(la) == "usize" and any(fn.dominates(T.bb, p.bb) for p in pushes):
                loop_offs.add((la, show(eb, 6)))
    cuts = []
    for T in tests:
        if T.kind == "cmp" and T.op in ("Gt", "Ge"):
            ea, eb = strip_refs(expr(fn, T.a)), strip_refs(expr(fn, T.b))
            if ea[0] == "Add" and eb[0] == "len":
                for lo, blen in loop_offs:
                    nm = fn.local_name(lo)
                    if show(eb, 6) == blen and nm and nm in (show(strip_refs(ea[1]), 4), show(strip_refs(ea[2]), 4)):
                        cuts.append((T, [T.true_edge]))
    n = 0
    for T, edges in stops + cuts:
        is_cut = (T, edges) in cuts
        for e in edges:
            n += 1
            reach = fn.reachable_with_flags(e[1])
            hit = [p for p in pushes if p.bb in reach]
            if hit and is_cut:
                ctx.violate(rid, F, "push-reachable-after-range-cut", fn.relfile, fn.term(e[0]).get("line"),
                            "the planned range ends in front of or inside an entry (the budget cut it there), yet a later planned range is still parsed and its entries are pushed "
                            "(line %s): the cursor is committed past the block whose remaining entries were not delivered" % hit[0].line)
            elif hit:
                ctx.violate(rid, F, "push-reachable-after-budget-stop", fn.relfile, fn.term(e[0]).get("line"),
                            "after the parser has stopped at an entry that does not fit the byte budget, a later planned range is still parsed and its entries are pushed (line %s): "
                            "the cursor is then committed past the block that still holds the entry that did not fit, and that entry (and everything behind it in its block) is "
                            "never delivered" % hit[0].line)
            else:
                ctx.ok(rid, F, "no push is reachable after the budget stop", fn.relfile, fn.term(e[0]).get("line"))
    ctx.floor(rid, "budget stop edges", n, 1)
    ctx.floor(rid, "range-cut stop edges", len(cuts), 1)


def _value_only_under(b, local, value, edges, so_keys, depth=0, seen=None):
    """Sites at which bool `local` may receive `value` although none of `edges` guards the site.
    Follows copies and negations; a constant of the other value is harmless; the result of
    Option::is_some / is_none on the start_offset argument itself is the guard."""
    from .core.readflags import place_key
    seen = seen if seen is not None else set()
    if (local, value) in seen or depth > 8:
        return []
    seen.add((local, value))
    bad = []
    for site, kind, node in b.defs.get(local, []):
        guarded_ = any(b.edge_guards(e, site.bb) for e in edges)
        if kind == "assign":
            rv = node["rv"]
            if rv["k"] == "use" and rv["op"].get("k") == "const":
                if bool(rv["op"].get("val")) == value and not guarded_:
                    bad.append(site)
                continue
            if rv["k"] == "use":
                q = op_place(rv["op"])
                if q is not None and not q["p"]:
                    bad += _value_only_under(b, q["l"], value, edges, so_keys, depth + 1, seen)
                    continue
            if rv["k"] == "un" and rv["op"] == "Not":
                q = op_place(rv["a"])
                if q is not None and not q["p"]:
                    bad += _value_only_under(b, q["l"], not value, edges, so_keys, depth + 1, seen)
                    continue
            if not guarded_:
                bad.append(site)
        elif kind == "call":
            cn = strip_generics(node.get("callee") or "")
            m = re.search(r"Option::is_(none|some)$", cn)
            if m:
                l = borrowed_local(b, node["args"][0])
                if l is not None and place_key({"l": l, "p": []}) in so_keys:
                    # is_some() == true / is_none() == false  <=>  start_offset is Some
                    if (m.group(1) == "some") == value:
                        continue
            if not guarded_:
                bad.append(site)
    return bad


def check_first_entry_widening(ctx, facts, fn_name="batch_read_for_topic", rid="C03.3"):
    from .core.cond import classify_edge
    from .core.symexpr import expr, show, strip_refs
    from .core.readflags import flag_places, option_edges
    b = facts.body(fn_name)
    F = common.short_fn(b.name)
    mb = b.arg_local("max_bytes")
    if mb is None:
        ctx.anchor_missing(rid, "parameter max_bytes of " + F)
        return
    # planned-bytes local: compared `< max_bytes` and `== 0`
    t0 = None
    for T in all_tests(b):
        if T.kind == "cmp" and T.op == "Eq" and const_of(b, T.b) == 0:
            la = op_local(b.resolve_copy(T.a))
            if la is None:
                continue
            for T2 in all_tests(b):
                if T2.kind == "cmp" and T2.op == "Lt" and op_local(b.resolve_copy(T2.a)) == la and op_local(b.resolve_copy(T2.b)) == mb:
                    t0 = (T, la, T2)
    if t0 is None:
        ctx.anchor_missing(rid, "the `planned == 0` test of the planning loop in " + F)
        return
    T0, planned, Tloop = t0
    # want: cast of (max_bytes - planned)
    want = None
    for l, ld in enumerate(b.locals):
        for site, kind, node in b.defs.get(l, []):
            if kind == "assign" and node["rv"]["k"] == "cast":
                e = strip_refs(expr(b, node["rv"]["op"]))
                if e[0] == "Sub" and show(e, 4) == "Sub(%s, %s)" % (b.local_name(mb), b.local_name(planned)):
                    want = l
    if want is None:
        ctx.anchor_missing(rid, "the remaining-budget local (max_bytes - planned) in " + F)
        return
    # the widening: store into want guarded by Gt(R, want)
    widen = None
    for T in all_tests(b):
        if T.kind != "cmp" or T.op not in ("Gt", "Lt"):
            continue
        la, lb = op_local(b.resolve_copy(T.a)), op_local(b.resolve_copy(T.b))
        big, small = (la, lb) if T.op == "Gt" else (lb, la)
        if small != want or big is None:
            continue
        for site, kind, node in b.defs.get(want, []):
            if kind == "assign" and node["rv"]["k"] == "use" and op_local(b.resolve_copy(node["rv"]["op"])) == big and b.edge_guards(T.true_edge, site.bb):
                widen = (T, big, site)
    if widen is None:
        # `want = want.max(required)` / `cmp::max(want, required)`: the same widening without a branch
        class _Tw:
            pass
        for c in b.calls(re.compile(r"cmp::Ord::max$|cmp::max$|::max$")):
            if len(c.node["args"]) != 2 or c.node["dest"]["p"]:
                continue
            ls = [op_local(b.resolve_copy(a)) for a in c.node["args"]]
            if want not in ls:
                continue
            big = ls[1] if ls[0] == want else ls[0]
            if big is None:
                continue
            # the result must be what `want` holds afterwards
            dl = c.node["dest"]["l"]
            flows = dl == want or any(kind == "assign" and node["rv"]["k"] == "use" and op_local(b.resolve_copy(node["rv"]["op"])) == dl for site, kind, node in b.defs.get(want, []))
            if not flows:
                continue
            src_big, _, _ = origins(b, {"k": "copy", "place": {"l": big, "p": []}})
            if not any(o.kind == "field" and isinstance(o.what, tuple) and o.what[1] == "read_size" for o in src_big):
                continue   # e.g. want.max(first_end_hint - cur_off) on the offset-addressed arm
            tw = _Tw()
            tw.bb = c.bb
            widen = (tw, big, c)
    if widen is None:
        ctx.violate(rid, F, "no-first-entry-widening", b.relfile, b.term(T0.bb)["line"],
                    "the planned range is never widened to the size of the entry at the cursor: an entry larger than the byte budget can never be delivered")
        return
    Tw, req, wsite = widen
    src, _, _ = origins(b, {"k": "copy", "place": {"l": req, "p": []}})
    if any(o.kind == "field" and isinstance(o.what, tuple) and o.what[1] == "read_size" for o in src):
        ctx.ok(rid, F, "the widening target is computed from the peeked header's read_size", b.relfile, wsite.line)
    else:
        ctx.violate(rid, F, "widening-not-from-header", b.relfile, wsite.line, "the value the range is widened to does not derive from the header at the cursor")
    # the header must be the one at the position being planned in THIS iteration: the storage read that fills the
    # peeked buffer lies in the region of the `planned == 0` branch (a peek hoisted out of the loop looks at the
    # block the cursor started in, not at the block the planner has moved on to)
    rsrc, _, _ = origins(b, {"k": "copy", "place": {"l": req, "p": []}}, follow_all_calls=True)
    peeks = [o.site for o in rsrc if o.kind == "call" and o.site is not None and re.search(r"archived_root$|check_archived_root$|::deserialize$", strip_generics(o.what))]
    if not peeks:
        ctx.violate(rid, F, "widening-without-header-decode", b.relfile, wsite.line, "cannot find the header decode the range is widened from")
    else:
        outside = [c_ for c_ in peeks if not b.edge_guards(T0.true_edge, c_.bb)]
        if outside:
            ctx.violate(rid, F, "header-peeked-outside-the-planning-iteration", b.relfile, outside[0].line,
                        "the header whose size the first planned range is widened to is decoded outside the planning iteration that uses it: when the planner steps to another block "
                        "(cursor at the end of a sealed block) the range planned there is not widened to that block's first entry, is cut inside it and nothing - or the wrong "
                        "entries - are delivered")
        else:
            ctx.ok(rid, F, "the peeked header is decoded in the iteration that plans the range (%d decode site(s))" % len(peeks), b.relfile, peeks[0].line)
    # bypass edges within one iteration
    hdr = Tloop.bb
    start = T0.true_edge[1]
    target = Tw.bb

    def succ(u):
        return [v for v in b.succ[u] if v != hdr and v in b.live_blocks]
    can = {target}
    changed = True
    while changed:
        changed = False
        for u in b.live_blocks:
            if u not in can and any(v in can for v in succ(u)):
                can.add(u)
                changed = True
    if start not in can:
        ctx.violate(rid, F, "widening-unreachable-for-first-entry", b.relfile, wsite.line, "the widening is not reachable from the planned == 0 branch")
        return
    out, seen, work = [], set(), [start]
    while work:
        u = work.pop()
        if u in seen or u == target:
            continue
        seen.add(u)
        for v in succ(u):
            if v in can:
                work.append(v)
            elif b.term(v)["k"] != "unreachable":
                out.append((u, v))
    so_some = option_edges(b, flag_places(b, "start_offset"), want_none=False)
    P = facts.const_val("config::PREFIX_META_SIZE")
    n = 0

    def fit_edge_ok(T, edge):
        """the room test `cursor + header <= used` (in any spelling): the bypass edge may be taken only when the header really does
        not fit - slack d = used - cursor - header < 0.  Evaluated at d = -1, 0, 1; an edge that is also taken at d = 0 turns
        away a header that ends exactly at `used` (an empty entry that is the last of its block)"""
        if edge is None:
            return True
        ea, eb = show(strip_refs(expr(b, T.a)), 6), show(strip_refs(expr(b, T.b)), 6)
        used_left = ".used" in ea
        opf = {"Lt": lambda x, y: x < y, "Le": lambda x, y: x <= y, "Gt": lambda x, y: x > y, "Ge": lambda x, y: x >= y, "Eq": lambda x, y: x == y, "Ne": lambda x, y: x != y}.get(T.op)
        if opf is None:
            return False
        on_true = (edge == T.true_edge)

        def taken(d):
            c = opf(d, 0) if used_left else opf(0, d)
            return c if on_true else not c
        return taken(-1) and not taken(0) and not taken(1)

    def cmp_why(T, edge=None):
        if T is None or T.kind != "cmp":
            return None
        ea, eb = show(strip_refs(expr(b, T.a)), 6), show(strip_refs(expr(b, T.b)), 6)
        if ".used" in ea + eb and str(P) in ea + eb:
            if not fit_edge_ok(T, edge):
                return None
            return "header does not fit into the block's used bytes"
        if "BitOr(" in ea and (const_of(b, T.b) == 0 or eb in ("Sub(%d, 2)" % P, str(P - 2))):
            return "invalid header length"
        return None

    def none_defs(local, depth=0, seen=None):
        """sites that create the None that `local` may hold (through moves; an inlined helper's return value)"""
        seen = seen if seen is not None else set()
        if local in seen or depth > 6:
            return None
        seen.add(local)
        out_ = []
        for site, kind, node in b.defs.get(local, []):
            if kind == "call" and re.search(r"FromResidual.*::from_residual$|::from_residual$", callee_name(node)):
                out_.append(site)   # `?` on an Option: the None of the operand is passed on
                continue
            if kind != "assign":
                return None
            rv = node["rv"]
            if rv["k"] == "agg" and rv.get("akind") == "adt" and str(rv.get("name", "")).endswith("Option"):
                if rv.get("variant") in ("None", 0):
                    out_.append(site)
            elif rv["k"] == "use" and op_local(rv["op"]) is not None:
                sub = none_defs(op_local(rv["op"]), depth + 1, seen)
                if sub is None:
                    return None
                out_ += sub
            elif rv["k"] == "use" and rv["op"].get("k") == "const":
                out_.append(site)   # a constant Option (None)
            else:
                return None
        return out_

    def innermost_guard(bb):
        tests = []
        for T in all_tests(b):
            for e_ in [T.true_edge, T.false_edge] + list(T.variant_edges.values()):
                if e_ and b.edge_guards(e_, bb):
                    tests.append((T, e_))
        for T, e_ in tests:
            if all(e2 == e_ or b.edge_guards(e2, e_[0]) for _, e2 in tests):
                return T, e_
        return None, None

    for e in out:
        n += 1
        T, which = classify_edge(b, e)
        line = b.term(e[0]).get("line")
        why = None
        if so_some and any(b.edge_guards(se, e[0]) for se in so_some):
            why = "taken only by an offset-addressed read (start_offset = Some)"
        elif T is not None and T.kind == "discr" and not T.place["p"] and b.local_ty(T.place["l"]).startswith("std::option::Option"):
            # `if let Some(size) = <helper>(..)`: every None the helper can return must itself be one of the accepted reasons
            nd = none_defs(T.place["l"])
            if nd:
                reasons = []
                for site in nd:
                    Tg, eg = innermost_guard(site.bb)
                    r_ = cmp_why(Tg, eg)
                    if r_ is None and Tg is not None and Tg.kind == "discr":
                        dsrc, _, _ = origins(b, {"k": "copy", "place": Tg.place}, follow_all_calls=True)
                        if any(o.kind == "call" and re.search(r"::deserialize$", strip_generics(o.what)) for o in dsrc):
                            r_ = "header decode failed"
                    reasons.append(r_)
                if all(reasons):
                    why = "no usable header at the cursor (%s)" % "; ".join(sorted(set(reasons)))
        if why:
            pass
        elif T is not None and T.kind == "local" and which in ("false", "true"):
            fl = op_local(b.resolve_copy(T.operand))
            if fl is not None and b.local_ty(fl) == "bool":
                bad = _value_only_under(b, fl, which == "true", so_some, flag_places(b, "start_offset"))
                if bad:
                    ctx.violate(rid, F, "peek-disabled-outside-offset-reads", b.relfile, bad[0].line,
                                "the flag that enables the header peek can be false on a path that a cursor-addressed read can take (not under start_offset = Some): for that class of "
                                "budgets the planned range is not widened to the first entry, an entry larger than the range is cut in the middle and dropped by the parser")
                    continue
                else:
                    why = "peek flag off (possible only under start_offset = Some)"
        elif T is not None and T.kind == "cmp":
            ea, eb = show(strip_refs(expr(b, T.a)), 6), show(strip_refs(expr(b, T.b)), 6)
            if ".used" in ea + eb and str(P) in ea + eb:
                if fit_edge_ok(T, e):
                    why = "header does not fit into the block's used bytes"
            elif "BitOr(" in ea and (const_of(b, T.b) == 0 or eb in ("Sub(%d, 2)" % P, str(P - 2))):
                why = "invalid header length"
        elif T is not None and T.kind == "discr":
            cs = call_site_of(b, {"k": "copy", "place": T.place})
            if cs is not None and re.search(r"::deserialize$", callee_name(cs.node)):
                why = "header decode failed"
            else:
                # `deserialize(..).ok()?` and the like: the tested value derives from the decode's result
                dsrc, _, _ = origins(b, {"k": "copy", "place": {"l": T.place["l"], "p": []}}, follow_all_calls=True)
                calls_ = [strip_generics(o.what) for o in dsrc if o.kind == "call"]
                if any(re.search(r"::deserialize$", c_) for c_ in calls_) and all(re.search(r"::deserialize$|Try>::branch$|::ok$|::map_err$|::archived_root$|AlignedVec|::extend_from_slice$|::with_capacity$|Index|::index$|::deref$", c_) for c_ in calls_):
                    why = "header decode failed"
        if why:
            ctx.ok(rid, F, "widening bypass: " + why, b.relfile, line)
        else:
            desc = "?"
            if T is not None and T.kind == "cmp":
                desc = "%s %s %s is %s" % (show(strip_refs(expr(b, T.a)), 6)[:40], T.op, show(strip_refs(expr(b, T.b)), 6)[:40], which)
            elif T is not None:
                desc = "%s test is %s" % (T.kind, which)
            ctx.violate(rid, F, "first-entry-widening-skipped", b.relfile, line,
                        "when nothing is planned yet, the widening of the planned range to the first entry's size can be skipped when %s: the range may end inside the first entry" % desc)
    ctx.floor(rid, "bypass edges of the first-entry widening", n, 1)


def check_batch_error_reasons(ctx, facts, rid="C03.5", fn_name="walrus_read::batch_read_for_topic"):
    """A batch read FAILS (returns Err, delivering nothing and moving nothing) only for damage or a failed I/O completion: every
    comparison that decides an Err return is a test of an io_uring completion result or the checksum comparison.  An entry
    that runs past the end of its planned range is a budget cut - the planner cuts the last range by the remaining budget -
    and must end the batch (`break`), not fail it: a read that fails there discards what it parsed and never advances."""
    from .core.symexpr import expr, show, strip_refs
    b = facts.body(fn_name)
    ctx.saw_body(b)
    F = common.short_fn(b.name)
    okb = {site.bb for site, st in b.assigns() if st["place"]["l"] == 0 and not st["place"]["p"] and st["rv"]["k"] == "agg" and st["rv"].get("variant") == "Ok"}
    if not okb:
        ctx.anchor_missing(rid, "an Ok return of " + F)
        return
    n = 0
    seen = set()
    for T in all_tests(b):
        if T.kind not in ("cmp", "local"):
            continue
        for e in (T.true_edge, T.false_edge):
            if not e:
                continue
            reach = b.reachable_from([e[1]])
            rets = [r for r in b.return_blocks() if r in reach]
            if not rets or (reach & okb):
                continue
            if T.kind == "local":
                # a flag that decides the failure (`if plan.is_tail { break } else { return Err }`)
                key = (b.term(T.bb).get("line"), "flag")
                if key in seen:
                    continue
                seen.add(key)
                n += 1
                so = show(strip_refs(expr(b, T.operand)), 6)
                if re.match(r"^_\d+$", so):
                    n -= 1
                    continue        # a compiler temporary (drop flag) on the way out, not a condition of the source
                if "checksum" in so or re.search(r"\bresult\(|all_success|success", so):
                    ctx.ok(rid, F, "fails on a flag derived from completions / the checksum", b.relfile, b.term(T.bb).get("line"))
                else:
                    ctx.violate(rid, F, "batch-read-fails-on-untriaged-condition", b.relfile, b.term(T.bb).get("line"),
                                "the flag %s decides an Err return of the batch read: neither a completion result nor the checksum. An entry that is incomplete in its planned "
                                "range (the range was cut by the byte budget) is not damage; failing there discards the parsed entries and leaves the cursor where it was" % so[:60])
                continue
            key = (b.term(T.bb).get("line"), T.op)
            if key in seen:
                continue
            seen.add(key)
            n += 1
            sa, sb = show(strip_refs(expr(b, T.a)), 6), show(strip_refs(expr(b, T.b)), 6)
            if "checksum" in sa + sb:
                ctx.ok(rid, F, "fails on a checksum mismatch", b.relfile, b.term(T.bb).get("line"))
            elif re.search(r"\bresult\(", sa + sb):
                ctx.ok(rid, F, "fails on a failed / short io_uring completion", b.relfile, b.term(T.bb).get("line"))
            else:
                ctx.violate(rid, F, "batch-read-fails-on-untriaged-condition", b.relfile, b.term(T.bb).get("line"),
                            "the comparison %s %s %s decides an Err return of the batch read: neither a completion result nor the checksum. An entry that is incomplete in its "
                            "planned range (the range was cut by the byte budget) is not damage; failing there discards the parsed entries, leaves the cursor where it was, and "
                            "every later read fails the same way" % (sa[:50], T.op, sb[:50]))
    ctx.floor(rid, "comparisons that decide an Err return of the batch read", n, 1)


def run(ctx):
    for k, v in RULES.items():
        ctx.rule(k, v)
    facts = common.mir(ctx, "walrus_rust")
    check(ctx, facts)
    check_first_entry_widening(ctx, facts)
    check_budget_stop_ends_batch(ctx, facts)
    check_batch_error_reasons(ctx, facts)
    ctx.assume("rustc MIR construction and callee resolution; Vec::push grows by exactly one; std checked_add/saturating_add do not wrap")
    ctx.assume("of the progress clause (at least one entry whenever one is unconsumed) only C03.3's structural part is decided; the planner arithmetic over runtime sizes is not")
    return {
        "explanation": "must-pass-through analysis on the MIR CFG of batch_read_for_topic: pushes into the returned vector are cut off from entry and from each other when the "
                       "cap-test / budget-test pass edges are removed; plus def-use obligations on the running total. Decides the cap and budget clauses for every input; the progress clause is not decided.",
        "lemma": LEMMA,
    }
