"""C10 - with SyncEach, acknowledged appends and consumption survive power loss (partial)."""
import re
from .core import common
from .core.mir import op_local, op_place, strip_generics, callee_name
from .core.cond import all_tests, call_site_of, borrowed_local, const_of, result_edges
from .core.slicing import origins, origin_calls
from .core.effects import provenance
from .core.symexpr import expr, show, strip_refs
from .c04 import error_exits, _offset_stores, _install_sites
from .persistord import check_atomic_replace

RULES = {
    "C10.5": "what was synced is found again (= C06.1's rounding clause): the durable read position of a StrictlyAtOnce consumer in the tail names a block by id, and recovery "
             "re-derives ids by counting 10 MiB units; alloc_block therefore reserves exactly the request rounded up to whole units. One unit too many (`x / D + 1` for an exact "
             "multiple) shifts every later id after a restart: the synced position no longer names its block and consumed entries are delivered again",
    "C10.1": "sync before acknowledging (GB + MPT): in Writer::write, on the FsyncSchedule::SyncEach arm, every path from Block::write to `return Ok` passes SharedMmap::flush of the "
             "written block with its error propagated; the block being sealed is flushed before it is chained; in both batch paths the publish store is dominated by a flush loop over the "
             "same write plan whose error is propagated",
    "C10.2": "SharedMmap::flush reaches File::sync_all on the Fd backend and MmapMut::flush on the mmap backend (resolved call graph, exhaustive dispatch)",
    "C10.3": "new WAL files are durable before use (ORD in WalPathManager::create_new_file): File::create -> set_len -> sync_all(file) -> File::open(root) -> sync_all(dir) -> return, each step propagated with `?`",
    "C10.4": "atomic replace of the cursor index and the marker store (ORD + MPT): write tmp -> fsync tmp -> rename -> fsync of the parent directory before `return Ok`",
}


def check_single_append(ctx, facts):
    b = facts.body("writer::Writer::write")
    ctx.saw_body(b)
    F = "writer::Writer::write"
    # the match on fsync_schedule
    sync_edge = None
    for T in all_tests(b):
        if T.kind == "discr":
            fs = [e for e in T.place["p"] if isinstance(e, dict) and e.get("n") == "fsync_schedule"]
            if fs:
                # enum FsyncSchedule { Milliseconds(u64)=0, SyncEach=1, NoFsync=2 }
                adt = facts.adts.get("wal::config::FsyncSchedule")
                names = [v["name"] for v in adt["variants"]] if adt else []
                if "SyncEach" in names:
                    idx = names.index("SyncEach")
                    sync_edge = T.variant_edges.get(idx)
    if sync_edge is None:
        ctx.anchor_missing("C10.1", "match on fsync_schedule (SyncEach arm) in Writer::write")
        return
    writes = b.calls(re.compile(r"block::Block::write$"))
    flushes = [s for s in b.calls(re.compile(r"SharedMmap::flush$")) if b.edge_guards(sync_edge, s.bb)]
    ok_rets = [site.bb for site, st in b.assigns() if st["place"]["l"] == 0 and not st["place"]["p"] and st["rv"]["k"] == "agg" and st["rv"].get("variant") == "Ok"]
    if not writes:
        ctx.anchor_missing("C10.1", "Block::write in Writer::write")
        return
    if flushes and b.must_pass([sync_edge[0]], ok_rets, [s.bb for s in flushes], removed_edges=[e for e in [(sync_edge[0], t) for t in b.succ[sync_edge[0]]] if e != sync_edge]):
        ctx.ok("C10.1", F, "SyncEach arm: every path to Ok passes SharedMmap::flush", b.relfile, flushes[0].line)
    else:
        ctx.violate("C10.1", F, "sync-each-without-flush", b.relfile, b.term(sync_edge[0])["line"],
                    "with FsyncSchedule::SyncEach an append can return Ok without the written block having been flushed")
    for s in flushes:
        if error_exits(b, s):
            ctx.ok("C10.1", F, "flush failure is returned to the caller", b.relfile, s.line)
        else:
            ctx.violate("C10.1", F, "flush-error-dropped", b.relfile, s.line, "the result of the SyncEach flush is discarded: the append is acknowledged although the sync failed")
        # the flushed mapping belongs to the block that was written
        pr = provenance(b, s.node["args"][0])
        if any(o.kind == "field" and o.what[1] == "mmap" for o in pr):
            ctx.ok("C10.1", F, "the flushed mapping is the written block's", b.relfile, s.line)
        else:
            ctx.violate("C10.1", F, "flush-of-other-mapping", b.relfile, s.line, "the flushed mapping is not the mmap of the block written")
        # ... as it is AT the write: the handle flushed was read from the current block after the last time the function
        # replaced that block (the rotation `*block = new_block`); a handle taken at the top of the call still names the
        # sealed block's file when the append rolled over into a new one
        _o, _l, trav = origins(b, s.node["args"][0], follow_all_calls=True)
        loads = []
        for x in trav:
            nd = x.node
            if x.idx == "term":
                if nd.get("args") and ".mmap" in show(strip_refs(expr(b, nd["args"][0])), 8) and re.search(r"Clone>?::clone$", strip_generics(nd.get("callee") or "")):
                    loads.append(x)
            elif nd.get("k") == "assign" and nd["rv"]["k"] in ("use", "ref"):
                pl_ = op_place(nd["rv"]["op"]) if nd["rv"]["k"] == "use" else nd["rv"]["place"]
                if pl_ is not None and pl_["p"] and isinstance(pl_["p"][-1], dict) and pl_["p"][-1].get("n") == "mmap":
                    loads.append(x)
        swaps = [site for site, st in b.assigns() if st["place"]["p"] == ["*"] and b.local_ty(st["place"]["l"]).replace("&mut ", "").endswith("block::Block")]
        swaps += [c for c in b.calls(re.compile(r"^std::mem::(replace|swap)$")) if c.node["args"] and "Block" in b.local_ty(op_local(c.node["args"][0]) or 0)]

        def _ix(x):
            return 10 ** 9 if x.idx == "term" else x.idx

        def _leads(x, y):
            return (x.bb == y.bb and _ix(x) < _ix(y)) or (x.bb != y.bb and y.bb in b.reachable_after(x.bb))
        stale = [(l_, w_) for l_ in loads for w_ in swaps if _leads(l_, w_) and _leads(w_, s)]
        if stale:
            ctx.violate("C10.1", F, "flush-handle-taken-before-rotation", b.relfile, s.line,
                        "the mapping flushed at line %s was taken from the writer's block at line %s, before the block is replaced at line %s (rotation): when the rotation rolls over "
                        "into a new file the entry is written to the new file and the old one is synced - the append is acknowledged without its data being durable"
                        % (s.line, stale[0][0].line, stale[0][1].line))
        elif loads:
            ctx.ok("C10.1", F, "the flushed handle is read from the current block after any rotation", b.relfile, s.line)
        if all(b.dominates(w.bb, s.bb) for w in writes):
            ctx.ok("C10.1", F, "flush comes after Block::write", b.relfile, s.line)
        else:
            ctx.violate("C10.1", F, "flush-before-write", b.relfile, s.line, "the SyncEach flush is not dominated by the write it should make durable")
    # seal path: the sealed block is flushed before it is appended to the chain
    for fn in ("writer::Writer::write", "writer::Writer::batch_write"):
        bb_ = facts.body(fn)
        ctx.saw_body(bb_)
        for seal in bb_.calls(re.compile(r"Reader::append_block_to_chain$")):
            fl = [s for s in bb_.calls(re.compile(r"SharedMmap::flush$")) if bb_.dominates(s.bb, seal.bb) and error_exits(bb_, s)]
            # the flush must be of the sealed block (same clone)
            sl = op_local(seal.node["args"][2])
            sealed_locals = origins(bb_, seal.node["args"][2])[1]
            good = [s for s in fl if set(origins(bb_, s.node["args"][0])[1]) & set(sealed_locals)]
            if good:
                ctx.ok("C10.1", fn, "the block is flushed (error propagated) before it is sealed into the chain", bb_.relfile, seal.line)
            else:
                ctx.violate("C10.1", fn, "seal-without-flush", bb_.relfile, seal.line, "a block is sealed into the reader chain without having been flushed")


def check_batch_flush(ctx, facts):
    for fn in ("writer::Writer::batch_write", "writer::Writer::submit_batch_via_io_uring"):
        b = facts.body(fn)
        ctx.saw_body(b)
        pubs = [s for s, k, sh in _offset_stores(b) if k == "publish"]
        if not pubs:
            ctx.anchor_missing("C10.1", "publish store in " + fn)
            continue
        for p in pubs:
            fl = [s for s in b.calls(re.compile(r"SharedMmap::flush$")) if error_exits(b, s) and p.bb in b.reachable_after(s.bb)]
            # a flush loop: flush inside a loop whose exit dominates the publish, iterating the write plan
            good = None
            for s in fl:
                # loop: the flush block can reach itself
                if s.bb in b.reachable_after(s.bb):
                    # iterator over the plan
                    nxt = [n for n in b.calls(re.compile(r"Iterator>::next$|::next$")) if b.dominates(n.bb, s.bb) and b.dominates(n.bb, p.bb) and n.bb in b.reachable_after(s.bb)]
                    if nxt:
                        isrc, _, _ = origins(b, nxt[0].node["args"][0], follow_all_calls=True)
                        names = {o.what for o in isrc if o.kind == "arg"} | {b.local_name(l) for l in origins(b, nxt[0].node["args"][0], follow_all_calls=True)[1] if b.local_name(l)}
                        if "write_plan" in names or any("plan" in str(x) for x in names):
                            good = s
            iter_flush = None
            if not good:
                # the same loop written with an iterator: `<plan iterator>.try_for_each(|w| w.block.mmap.flush())?`
                for c_ in b.calls(re.compile(r"Iterator>?::try_for_each$")):
                    if not (b.dominates(c_.bb, p.bb) and error_exits(b, c_)):
                        continue
                    clo_ = None
                    for a_ in c_.node["args"]:
                        al_ = op_local(b.resolve_copy(a_))
                        d_ = b.def_rvalue(al_) if al_ is not None else None
                        if d_ and d_[0] == "rv" and d_[1]["k"] == "agg" and d_[1].get("akind") == "closure":
                            clo_ = facts.bodies.get(d_[1].get("name"))
                    if clo_ is None:
                        continue
                    fls = clo_.calls(re.compile(r"SharedMmap::flush$"))
                    returned = False
                    for f_ in fls:
                        # the flush's own result is what the closure returns
                        cur_, hops_ = {f_.node["dest"]["l"]}, 0
                        while hops_ < 5 and 0 not in cur_:
                            hops_ += 1
                            nx_ = {st_["place"]["l"] for s_, st_ in clo_.assigns() if st_["rv"]["k"] == "use" and op_local(st_["rv"]["op"]) in cur_ and not st_["place"]["p"]}
                            if not nx_ - cur_:
                                break
                            cur_ |= nx_
                        if 0 in cur_ or f_.node["dest"]["l"] == 0:
                            returned = True
                    isrc, ilocals, _ = origins(b, c_.node["args"][0], follow_all_calls=True)
                    names = {o.what for o in isrc if o.kind == "arg"} | {b.local_name(l) for l in ilocals if b.local_name(l)}
                    over_plan = "write_plan" in names or any("plan" in str(x) for x in names)
                    if returned and over_plan:
                        iter_flush = c_
                        # filters on the way may drop an element only when its file was already seen: every filter closure of
                        # the chain returns the verdict of HashSet::insert
                        bad_filter = None
                        for fc in b.calls(re.compile(r"Iterator>?::(filter|skip_while|take_while|skip|take|step_by|filter_map)$")):
                            if not any(o.kind == "call" and o.site is not None and (o.site.bb, o.site.idx) == (fc.bb, fc.idx) for o in isrc):
                                continue
                            okf = False
                            if callee_name(fc.node).endswith("::filter"):
                                for a_ in fc.node["args"]:
                                    al_ = op_local(b.resolve_copy(a_))
                                    d_ = b.def_rvalue(al_) if al_ is not None else None
                                    if d_ and d_[0] == "rv" and d_[1]["k"] == "agg" and d_[1].get("akind") == "closure":
                                        fb_ = facts.bodies.get(d_[1].get("name"))
                                        if fb_ is not None:
                                            rsrc_, _, _ = origins(fb_, {"l": 0, "p": []})
                                            if {o.what for o in rsrc_ if o.kind == "call"} == {"std::collections::HashSet::insert"}:
                                                okf = True
                            if not okf:
                                bad_filter = fc
                        if bad_filter is not None:
                            ctx.violate("C10.1", fn, "flush-loop-skips-files", b.relfile, bad_filter.line, "the iterator that drives the flushes drops elements by something other than `this file was already seen`")
                        else:
                            ctx.ok("C10.1", fn, "the flushing iterator drops a planned write only when its file was already seen (HashSet::insert)", b.relfile, c_.line)
            if iter_flush is not None:
                ctx.ok("C10.1", fn, "publish is preceded by a propagated try_for_each(flush) over the write plan", b.relfile, p.line)
            elif good:
                ctx.ok("C10.1", fn, "publish is preceded by a propagated flush loop over the write plan", b.relfile, p.line)
            else:
                ctx.violate("C10.1", fn, "batch-published-without-flush", b.relfile, p.line, "the batch is published (and acknowledged) without flushing every file it wrote")
            # the flush loop skips a file only if it was already flushed in this loop (HashSet filter)
            if good:
                skip_ok = False
                for T in all_tests(b):
                    if T.kind == "call" and re.search(r"HashSet::contains$", T.callee) and b.edge_guards(T.false_edge, good.bb):
                        # inserts into that set happen only after a successful flush
                        hs = borrowed_local(b, T.args[0])
                        ins = [i for i in b.calls(re.compile(r"HashSet::insert$")) if borrowed_local(b, i.node["args"][0]) == hs]
                        if ins and all(b.dominates(good.bb, i.bb) or not (p.bb in b.reachable_after(i.bb)) for i in ins):
                            skip_ok = True
                    if T.kind == "call" and re.search(r"HashSet::insert$", T.callee) and b.edge_guards(T.true_edge, good.bb):
                        skip_ok = True
                if skip_ok:
                    ctx.ok("C10.1", fn, "a file is skipped by the flush loop only after it was flushed in the same loop", b.relfile, good.line)
                else:
                    ctx.violate("C10.1", fn, "flush-loop-skips-files", b.relfile, good.line, "the flush loop can skip a file that has not been flushed")


def check_flush_reaches_sync(ctx, facts):
    fl = facts.body("storage::SharedMmap::flush")
    ctx.saw_body(fl)
    reach = facts.closure_reach(fl.name)
    names = set()
    for n in reach:
        for s in facts.bodies[n].calls():
            names.add(callee_name(s.node))
    if any(n.endswith("File::sync_all") or n.endswith("File::sync_data") for n in names):
        ctx.ok("C10.2", "storage::SharedMmap::flush", "reaches File::sync_all (Fd backend)", fl.relfile, fl.line)
    else:
        ctx.violate("C10.2", "storage::SharedMmap::flush", "fd-sync-unreachable", fl.relfile, fl.line, "SharedMmap::flush does not reach File::sync_all on the Fd backend")
    if any(n.endswith("MmapMut::flush") for n in names):
        ctx.ok("C10.2", "storage::SharedMmap::flush", "reaches MmapMut::flush (mmap backend)", fl.relfile, fl.line)
    else:
        ctx.violate("C10.2", "storage::SharedMmap::flush", "mmap-flush-unreachable", fl.relfile, fl.line, "SharedMmap::flush does not reach MmapMut::flush on the mmap backend")
    # each layer returns the inner result
    for fn in ("storage::SharedMmap::flush", "storage::StorageImpl::flush", "storage::FdBackend::flush"):
        b = facts.body(fn)
        ctx.saw_body(b)
        inner = [s for s in b.calls() if s.node["dest"]["l"] == 0 and not s.node["dest"]["p"]]
        if inner:
            ctx.ok("C10.2", fn, "returns the result of %s" % ", ".join(sorted({callee_name(s.node).split("::")[-2] + "::" + callee_name(s.node).split("::")[-1] for s in inner})), b.relfile, b.line)
        else:
            ctx.violate("C10.2", fn, "flush-result-not-returned", b.relfile, b.line, "%s does not return the result of the underlying sync" % fn)


def check_create_new_file(ctx, facts):
    b = facts.body("paths::WalPathManager::create_new_file")
    ctx.saw_body(b)
    F = "paths::WalPathManager::create_new_file"
    seq = []
    for pat in (r"fs::File::create$", r"fs::File::set_len$", r"fs::File::sync_all$", r"fs::File::open$", r"fs::File::sync_all$"):
        seq.append(pat)
    creates = b.calls(re.compile(r"fs::File::create$"))
    setlen = b.calls(re.compile(r"fs::File::set_len$"))
    syncs = sorted(b.calls(re.compile(r"fs::File::sync_all$")), key=lambda s: s.line)
    opens = b.calls(re.compile(r"fs::File::open$"))
    if len(creates) != 1 or len(setlen) != 1:
        ctx.anchor_missing("C10.3", "File::create / set_len in create_new_file")
        return
    c, sl = creates[0], setlen[0]
    # file sync: a sync_all on the created file, dominated by set_len
    cl = c.node["dest"]["l"]
    created_locals = set()
    # values derived from the create result (through `?`)
    for l in range(len(b.locals)):
        src, locs, _ = origins(b, l) if False else (None, None, None)
    file_sync = None
    dir_sync = None
    for s in syncs:
        fsrc, flocals, _ = origins(b, s.node["args"][0], follow_all_calls=True)
        calls = {o.what for o in fsrc if o.kind == "call"}
        if any(x.endswith("File::create") for x in calls) and b.dominates(sl.bb, s.bb):
            file_sync = s
        if any(x.endswith("File::open") for x in calls) and b.dominates(sl.bb, s.bb):
            # the same file opened again by its path (`File::open(&path)?.sync_all()`): fsync works on any handle of the file
            _, cpl, _ = origins(b, c.node["args"][0], follow_all_calls=True)
            cnamed = {l_ for l_ in (cpl or []) if b.local_name(l_)}
            for o in fsrc:
                if o.kind == "call" and o.what.endswith("File::open"):
                    _, opl, _ = origins(b, o.site.node["args"][0], follow_all_calls=True)
                    if cnamed and cnamed <= {l_ for l_ in (opl or []) if b.local_name(l_)} | {l_ for l_ in cnamed if b.local_name(l_) in ("self",)} and (cnamed - {l_ for l_ in cnamed if b.local_name(l_) == "self"}) & set(opl or []):
                        file_sync = file_sync or s
        if any(x.endswith("File::open") for x in calls):
            # opened from root
            for o in fsrc:
                if o.kind == "call" and o.what.endswith("File::open"):
                    osrc, _, _ = origins(b, o.site.node["args"][0])
                    if any(f.kind == "field" and f.what[1] == "root" for f in osrc):
                        dir_sync = s
    ok_rets = [site.bb for site, st in b.assigns() if st["place"]["l"] == 0 and not st["place"]["p"] and st["rv"]["k"] == "agg" and st["rv"].get("variant") == "Ok"]
    if file_sync is not None and b.dominates(c.bb, sl.bb):
        ctx.ok("C10.3", F, "File::create -> set_len -> sync_all(file)", b.relfile, file_sync.line)
    else:
        ctx.violate("C10.3", F, "new-file-not-synced", b.relfile, c.line, "the new WAL file's size/metadata is not synced before the file is used")
    if dir_sync is not None and file_sync is not None and b.dominates(file_sync.bb, dir_sync.bb) and all(b.dominates(dir_sync.bb, r) for r in ok_rets):
        ctx.ok("C10.3", F, "sync_all(root directory) dominates the Ok return", b.relfile, dir_sync.line)
    else:
        ctx.violate("C10.3", F, "directory-entry-not-synced", b.relfile, c.line, "the directory entry of the new WAL file is not synced before the path is handed out: the file can vanish on power loss")
    for s in [c, sl] + [x for x in (file_sync, dir_sync) if x is not None]:
        if error_exits(b, s):
            ctx.ok("C10.3", F, "failure of %s is returned" % callee_name(s.node).split("::")[-1], b.relfile, s.line)
        else:
            ctx.violate("C10.3", F, "error-dropped:" + callee_name(s.node).split("::")[-1], b.relfile, s.line, "the result of %s is not propagated" % callee_name(s.node))


def run(ctx):
    for k, v in RULES.items():
        ctx.rule(k, v)
    facts = common.mir(ctx, "walrus_rust")
    check_single_append(ctx, facts)
    check_batch_flush(ctx, facts)
    check_flush_reaches_sync(ctx, facts)
    check_create_new_file(ctx, facts)
    check_atomic_replace(ctx, "C10.4", "C10.4", facts, "index::WalIndex::persist")
    check_atomic_replace(ctx, "C10.4", "C10.4", facts, "topic_clean::CleanMarkerStore::persist_map")
    from .c06 import check_alloc_rounding
    check_alloc_rounding(ctx, facts, rid="C10.5")
    ctx.assume("power-loss model of the property: only explicitly synced data and directory entries survive; the check decides that the syncs exist, are ordered and are propagated on every "
               "path to an acknowledgement; replay of arbitrary subsets of unsynced writes is NOT decided")
    ctx.assume("that a StrictlyAtOnce consuming read reaches WalIndex::persist before returning is C09.1's obligation")
    return {
        "explanation": "ordering/must-pass-through rules on MIR: SyncEach arm of the single append, flush loops of both batch paths, the call-graph link from SharedMmap::flush to the kernel "
                       "sync of each backend, the creation protocol of new WAL files and the atomic-replace protocol (tmp, fsync, rename, directory fsync) of the two small stores.",
    }
