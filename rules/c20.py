"""C20 - metadata replicas converge, including via snapshot transfer."""
import re
from .core import ast as A
from .core import common
from .core.mir import callee_name, op_place, strip_generics as strip_g
from .core.effects import provenance
from .core.slicing import origins, origin_calls
from .core.symexpr import expr, show, strip_refs

STORAGE = "octopii/src/openraft/storage.rs"
METADATA = "distributed-walrus/src/metadata.rs"
SM = "octopii/src/state_machine.rs"

RULES = {
    "C20.1": "snapshot adapter (ASTPATH, octopii/src/openraft/storage.rs): in build_snapshot the bytes that flow into Snapshot{snapshot: Cursor::new(_)} and StoredSnapshot{data: _} "
             "are produced by the application state machine (self.sm.snapshot()); in install_snapshot the argument of self.sm.restore(_) is (a borrow of) the received bytes, not a "
             "re-serialisation of another value",
    "C20.2": "Metadata round trip (MIR through harness/dwshim + attributes): snapshot serialises the whole ClusterState behind the lock, restore deserialises the same type and replaces "
             "the state wholesale (*guard = recovered); no field of ClusterState / TopicState is skipped or renamed by serde, both derive Serialize and Deserialize",
    "C20.3": "same subsequent commands: in the adapter's apply loop every EntryPayload::Normal entry reaches self.sm.apply(&data.0) unconditionally and in stream order (no filter or "
             "continue before the match), and last_applied_log is assigned for every entry",
}


def _let_init(fn, ident):
    for s_ in A.walk(fn["body"]):
        if s_.get("k") == "let" and s_["pat"].replace("mut ", "").strip() == ident and s_.get("init") is not None:
            return s_
    return None


def run(ctx):
    for k, v in RULES.items():
        ctx.rule(k, v)
    files = A.load(ctx, [STORAGE, METADATA, SM])
    f = files[STORAGE]
    try:
        bs = f.fn("build_snapshot", ctx="RaftSnapshotBuilder")
        ins = f.fn("install_snapshot", ctx="RaftStateMachine")
        ap = f.fn("apply", ctx="RaftStateMachine")
    except A.AnchorMissingAst as e:
        ctx.anchor_missing("C20.anchor", str(e))
        return {"explanation": "anchor missing"}
    for nm, fn in (("MemStateMachine::build_snapshot", bs), ("MemStateMachine::install_snapshot", ins), ("MemStateMachine::apply", ap)):
        ctx.saw_fn(nm, STORAGE, len(list(A.walk(fn["body"]))))
    # ---- C20.1 build_snapshot ---------------------------------------------------------
    F = "MemStateMachine::build_snapshot"
    snaps = [n for n in A.walk(bs["body"]) if n.get("k") == "struct" and n["path"].split("::")[-1] == "Snapshot"]
    if len(snaps) != 1:
        ctx.anchor_missing("C20.1", "Snapshot{..} construction in build_snapshot")
    else:
        fld = {x["name"]: x["e"] for x in snaps[0]["fields"]}
        t = A.text(fld.get("snapshot") or {})
        m = re.match(r"^Cursor::new\((\w+)(?:\.clone\(\))?\)$", t)
        src_ok = False
        ident = m.group(1) if m else None
        if ident is None:
            # built from the stored snapshot: `Cursor::new(<stored>.data.clone())` with `<stored> = StoredSnapshot { data: <ident>, .. }`
            m2 = re.match(r"^Cursor::new\((\w+)\.data(?:\.clone\(\))?\)$", t)
            if m2:
                sl = _let_init(bs, m2.group(1))
                sn = [x for x in A.walk(sl["init"]) if x.get("k") == "struct" and x["path"].split("::")[-1] == "StoredSnapshot"] if sl is not None else []
                if sn:
                    dtxt = {x["name"]: A.text(x["e"]) for x in sn[0]["fields"]}.get("data", "")
                    m3 = re.match(r"^(\w+)(?:\.clone\(\))?$", dtxt)
                    ident = m3.group(1) if m3 else None
        li = _let_init(bs, ident) if ident else None
        if li is not None:
            it = A.text(li["init"])
            if re.search(r"self\.sm\.snapshot\(\)", it):
                src_ok = True
        if src_ok:
            ctx.ok("C20.1", F, "snapshot bytes come from the application state machine (self.sm.snapshot())", STORAGE, li["line"])
        else:
            ctx.violate("C20.1", F, "snapshot-bytes-not-from-application-state", STORAGE, (li or snaps[0])["line"],
                        "the snapshot payload `%s` is built from `%s`, not from self.sm.snapshot(): the adapter snapshots its own `data` map, which apply() never writes, so a "
                        "follower that catches up by snapshot receives an empty application state" % (ident, A.text(li["init"])[:80] if li else "?"))
        stored = [n for n in A.walk(bs["body"]) if n.get("k") == "struct" and n["path"].split("::")[-1] == "StoredSnapshot"]
        if stored:
            sd = {x["name"]: A.text(x["e"]) for x in stored[0]["fields"]}
            if ident and re.match(r"^%s(\.clone\(\))?$" % re.escape(ident), sd.get("data", "")):
                ctx.ok("C20.1", F, "the stored snapshot holds the same bytes that are returned", STORAGE, stored[0]["line"])
            else:
                ctx.violate("C20.1", F, "stored-snapshot-differs", STORAGE, stored[0]["line"], "StoredSnapshot.data is %s, the returned snapshot is %s" % (sd.get("data"), ident))
    # ---- C20.1 install_snapshot -------------------------------------------------------
    F = "MemStateMachine::install_snapshot"
    rest = [n for n in A.walk(ins["body"]) if A.is_mcall(n, "restore") and A.text(n["recv"]) == "self.sm"]
    if len(rest) != 1:
        ctx.violate("C20.1", F, "application-state-not-restored", STORAGE, ins["line"], "install_snapshot does not call self.sm.restore exactly once (%d)" % len(rest))
    else:
        arg = A.text(rest[0]["args"][0])
        recv_param = [p["name"] for p in ins["params"] if p["name"] not in ("self", "&mut self", "meta")][-1] if ins["params"] else "snapshot"
        ok = False
        m = re.match(r"^&(\w+)(\.\w+)?$", arg)
        if m:
            base = m.group(1)
            li = _let_init(ins, base)
            if li is None and base == recv_param:
                ok = True
            elif li is not None:
                it = A.text(li["init"])
                if re.search(r"\b%s\.into_inner\(\)" % re.escape(recv_param), it) and "serialize" not in it:
                    ok = True
        if ok:
            ctx.ok("C20.1", F, "the application state machine restores the received bytes", STORAGE, rest[0]["line"], arg)
        else:
            li = _let_init(ins, m.group(1)) if m else None
            ctx.violate("C20.1", F, "restore-argument-not-the-received-bytes", STORAGE, rest[0]["line"],
                        "self.sm.restore(%s) receives `%s`, a re-serialisation of the adapter's own map, not the bytes of the installed snapshot" % (arg, A.text(li["init"])[:80] if li else "?"))
    # ---- C20.3 apply loop --------------------------------------------------------------
    F = "MemStateMachine::apply"
    loops = [n for n in A.walk(ap["body"]) if n.get("k") in ("while", "for", "loop")]
    if len(loops) != 1:
        ctx.anchor_missing("C20.3", "entry loop of the adapter's apply")
    else:
        lp = loops[0]
        stmts = lp["body"]["stmts"]
        mi = None
        for i, st in enumerate(stmts):
            for n in A.walk(st):
                if n.get("k") == "match" and "payload" in A.text(n["e"]):
                    if mi is None:
                        mi = (i, n)
        if mi is None:
            ctx.anchor_missing("C20.3", "`match entry.payload` in the apply loop")
        else:
            i, m_ = mi
            before = stmts[:i]
            bad = [st for st in before for n in A.walk(st) if n.get("k") in ("if", "continue", "break", "match", "return")]
            if bad:
                ctx.violate("C20.3", F, "entry-filtered-before-dispatch", STORAGE, bad[0]["line"], "an entry can be skipped before it is dispatched to the application state machine")
            else:
                ctx.ok("C20.3", F, "every entry of the stream reaches the payload dispatch", STORAGE, m_["line"])
            la = [st for st in before if st.get("k") == "expr" and st["e"].get("k") == "assign" and A.text(st["e"]["lhs"]).endswith("last_applied_log")]
            if la and re.search(r"Some\(\w+\.log_id\)", A.text(la[0]["e"]["rhs"])):
                ctx.ok("C20.3", F, "last_applied_log is set for every entry", STORAGE, la[0]["line"])
            else:
                ctx.violate("C20.3", F, "last-applied-not-tracked", STORAGE, lp["line"], "last_applied_log is not assigned for every entry before dispatch")
            normal = [a for a in m_["arms"] if a["pat"].replace(" ", "").startswith("EntryPayload::Normal(")]
            if len(normal) == 1:
                b_ = normal[0]["body"]
                calls = [n for n in A.walk(b_) if A.is_mcall(n, "apply") and A.text(n["recv"]).replace("\n", "") == "self.sm"]
                conds = [n for n in A.walk(b_) if n.get("k") in ("if", "match", "continue", "return")]
                mm = re.match(r"^EntryPayload::Normal\((?:ref)?(\w+)\)$", normal[0]["pat"].replace(" ", "").replace("refmut", "ref"))
                dv = mm.group(1) if mm else "data"
                if len(calls) == 1 and not conds and A.text(calls[0]["args"][0]) == "&%s.0" % dv:
                    ctx.ok("C20.3", F, "Normal entries are applied to the application state machine unconditionally (self.sm.apply(&%s.0))" % dv, STORAGE, calls[0]["line"])
                else:
                    ctx.violate("C20.3", F, "normal-entry-not-applied", STORAGE, normal[0]["line"], "a Normal entry does not unconditionally reach self.sm.apply(&%s.0)" % dv)
            else:
                ctx.violate("C20.3", F, "normal-arm-missing", STORAGE, m_["line"], "the payload match has %d arms for EntryPayload::Normal" % len(normal))
    # ---- C20.2 Metadata round trip (MIR) -----------------------------------------------
    facts = common.mir(ctx, "dwshim")
    snap = rest_b = None
    for name, b in facts.bodies.items():
        if name.endswith("StateMachineTrait>::snapshot"):
            snap = b
        if name.endswith("StateMachineTrait>::restore"):
            rest_b = b
    if snap is None or rest_b is None:
        ctx.anchor_missing("C20.2", "Metadata::snapshot / restore")
    else:
        ctx.saw_body(snap)
        ctx.saw_body(rest_b)
        ser = snap.calls(re.compile(r"^bincode::serialize$"))
        if len(ser) == 1:
            g = ser[0].node.get("callee_generic") or ""
            pr = origins(snap, ser[0].node["args"][0], follow_all_calls=True)[0]
            whole = "ClusterState" in g and any(o.kind == "field" and o.what[1] == "state" for o in pr)
            if whole:
                ctx.ok("C20.2", "Metadata::snapshot", "serialises the whole ClusterState read under the lock", snap.relfile, ser[0].line, g[-60:])
            else:
                ctx.violate("C20.2", "Metadata::snapshot", "snapshot-not-whole-state", snap.relfile, ser[0].line, "snapshot serialises %s" % g[-80:])
        else:
            ctx.violate("C20.2", "Metadata::snapshot", "snapshot-serialize-sites", snap.relfile, snap.line, "%d serialize calls" % len(ser))
        # what snapshot returns is the encoding of the state as it is NOW: every value it returns comes out of the serialize
        # call of this invocation - or, if it may hand out bytes kept in another field of the state machine (a cache), that
        # field is reset on every way out of apply / restore that lies behind a change to the state
        from .core.readflags import _value_defs
        from .core.mir import op_local as _ol

        def _fields_read(body, start):
            src_ = origins(body, start, follow_all_calls=True)[0]
            return {o.what[1] for o in src_ if o.kind == "field" and str(o.what[0]).endswith("metadata::Metadata")}, {o.what for o in src_ if o.kind == "call"}
        caches = set()
        for vsite, vrv in _value_defs(snap, 0):
            if vrv["k"] == "call":
                node = vrv["node"]
                flds, calls_ = set(), {strip_g(node.get("callee") or "")}
                for a_ in node.get("args", []):
                    f2, c2 = _fields_read(snap, a_)
                    flds |= f2
                    calls_ |= c2
            elif vrv["k"] == "use":
                flds, calls_ = _fields_read(snap, vrv["op"])
            else:
                flds, calls_ = set(), set()
            if "bincode::serialize" not in calls_:
                caches |= (flds - {"state"}) or {"?"}
        ap_b = next((b_ for n_, b_ in facts.bodies.items() if n_.endswith("StateMachineTrait>::apply")), None)
        if not caches:
            ctx.ok("C20.2", "Metadata::snapshot", "every value snapshot returns is encoded from the state in that call", snap.relfile, snap.line)
        elif "?" in caches or ap_b is None:
            ctx.violate("C20.2", "Metadata::snapshot", "snapshot-returns-bytes-not-encoded-in-this-call", snap.relfile, snap.line,
                        "snapshot can return a value that does not come out of its own serialisation of the state")
        else:
            bad = None
            for body in (ap_b, rest_b):
                muts = []
                for site, st in body.assigns():
                    p_ = st["place"]
                    if any(e == "*" for e in p_["p"]) and ((p_["p"] and isinstance(p_["p"][-1], dict) and re.search(r"(TopicState|ClusterState)$", str(p_["p"][-1].get("o") or ""))) or (p_["p"] == ["*"] and "ClusterState" in body.local_ty(p_["l"]))):
                        muts.append(site)
                for c in body.calls(re.compile(r"(HashMap|BTreeMap|HashSet|Vec)(::<[^>]*>)?::(insert|push|remove|retain|clear|extend)$")):
                    pr_ = provenance(body, c.node["args"][0]) if c.node["args"] else set()
                    if any(o.kind == "field" and re.search(r"(TopicState|ClusterState)$", str(o.what[0])) for o in pr_):
                        muts.append(c)
                resets = set()
                for site, st in body.assigns():
                    pr_ = provenance(body, {"k": "copy", "place": {"l": st["place"]["l"], "p": []}}) if st["place"]["p"] else set()
                    if any(o.kind == "field" and o.what[1] in caches for o in pr_):
                        resets.add(site.bb)
                # the reset takes the cache's own lock first: reaching that acquisition counts (a poisoned lock aside)
                for c in body.calls(re.compile(r"(Mutex|RwLock)(::<[^>]*>)?::(lock|write)$")):
                    pr_ = provenance(body, c.node["args"][0]) if c.node["args"] else set()
                    if any(o.kind == "field" and o.what[1] in caches for o in pr_) and resets:
                        resets.add(c.bb)
                for c in body.calls(re.compile(r"::(take|clear|replace)$")):
                    pr_ = provenance(body, c.node["args"][0]) if c.node["args"] else set()
                    if any(o.kind == "field" and o.what[1] in caches for o in pr_):
                        resets.add(c.bb)
                for m_ in muts:
                    if not body.must_pass([m_.bb], body.return_blocks(), resets):
                        bad = bad or (body, m_)
            if bad:
                ctx.violate("C20.2", "Metadata::snapshot", "cached-snapshot-survives-a-state-change", bad[0].relfile, bad[1].line,
                            "snapshot can hand out bytes kept in %s, and %s can change the state (line %s) and return without resetting it: a snapshot built afterwards carries the "
                            "state as of an earlier snapshot, and the replica that installs it diverges from the sender" % (sorted(caches), common.short_fn(bad[0].name), bad[1].line))
            else:
                ctx.ok("C20.2", "Metadata::snapshot", "bytes kept in %s are reset behind every change to the state in apply and restore" % sorted(caches), snap.relfile, snap.line)
        de = rest_b.calls(re.compile(r"^bincode::deserialize$"))
        if len(de) == 1 and "ClusterState" in (de[0].node.get("callee_generic") or ""):
            ctx.ok("C20.2", "Metadata::restore", "deserialises a ClusterState", rest_b.relfile, de[0].line)
        else:
            ctx.violate("C20.2", "Metadata::restore", "restore-type", rest_b.relfile, rest_b.line, "restore does not deserialise a ClusterState")
        whole_store = False
        for site, st in rest_b.assigns():
            p = st["place"]
            if p["p"] == ["*"] and "ClusterState" in rest_b.local_ty(p["l"]) and st["rv"]["k"] == "use":
                src = origins(rest_b, st["rv"]["op"])[0]
                if any(o.kind == "call" and o.what == "bincode::deserialize" for o in src):
                    whole_store = True
                    ctx.ok("C20.2", "Metadata::restore", "replaces the state wholesale with the decoded value (*guard = recovered)", rest_b.relfile, site.line)
        # ... and unchanged: nothing edits the decoded value (or the state) in restore - a receiver that drops or rewrites
        # part of what the sender encoded no longer holds the sender's state
        edits = []
        for c_ in rest_b.calls(re.compile(r"(HashMap|BTreeMap|HashSet|BTreeSet|Vec|VecDeque)(::<[^>]*>)?::(retain|insert|remove|clear|entry|extend|push|pop|drain|truncate|sort\w*|dedup\w*|get_mut|iter_mut|values_mut|remove_entry|split_off|append)$")):
            pr_ = provenance(rest_b, c_.node["args"][0]) if c_.node["args"] else set()
            if any(o.kind == "field" and re.search(r"(TopicState|ClusterState)$", str(o.what[0])) for o in pr_):
                edits.append(c_)
        for site, st in rest_b.assigns():
            p_ = st["place"]
            if p_["p"] and isinstance(p_["p"][-1], dict) and re.search(r"(TopicState|ClusterState)$", str(p_["p"][-1].get("o") or "")):
                edits.append(site)
        if edits:
            ctx.violate("C20.2", "Metadata::restore", "restored-state-edited", rest_b.relfile, edits[0].line,
                        "restore changes the decoded state before (or after) installing it (%d edit(s), first at line %s): the receiver then differs from the sender in exactly what was "
                        "edited - e.g. sealed segments with a count of 0 dropped by a `normalisation` - and the difference survives every later command" % (len(edits), edits[0].line))
        else:
            ctx.ok("C20.2", "Metadata::restore", "the decoded state is installed as it was decoded (no edit of it in restore)", rest_b.relfile, rest_b.line)
        if not whole_store:
            # merging calls?
            merges = [callee_name(s.node).split("::")[-1] for s in rest_b.calls(re.compile(r"HashMap::(extend|insert|entry)$"))]
            ctx.violate("C20.2", "Metadata::restore", "restore-does-not-replace-state", rest_b.relfile, rest_b.line,
                        "restore does not assign the decoded ClusterState over the old one%s: state that exists only on the receiver survives the snapshot" % (" (it calls %s)" % merges if merges else ""))
    # serde attributes
    mf = files[METADATA]
    for sn in ("ClusterState", "TopicState"):
        try:
            it = mf.item("struct", sn)
        except A.AnchorMissingAst as e:
            ctx.anchor_missing("C20.2", str(e))
            continue
        der = " ".join(it["attrs"])
        if "Serialize" in der and "Deserialize" in der:
            ctx.ok("C20.2", "metadata::" + sn, "derives Serialize and Deserialize", METADATA, it["line"])
        else:
            ctx.violate("C20.2", "metadata::" + sn, "missing-serde-derive", METADATA, it["line"], "%s does not derive both Serialize and Deserialize" % sn)
        bad = []
        for fld in it["fields"]:
            for a in fld["attrs"]:
                a2 = a.replace(" ", "")
                if a2.startswith("#[serde(") and not re.match(r"^#\[serde\(default(=\"[\w:]+\")?\)\]$", a2):
                    bad.append((fld["name"], a2))
        if bad:
            ctx.violate("C20.2", "metadata::" + sn, "field-not-round-tripped", METADATA, it["line"], "serde attributes change what is transferred: %s" % bad)
        else:
            ctx.ok("C20.2", "metadata::" + sn, "no field is skipped, renamed or custom-serialised (%d fields)" % len(it["fields"]), METADATA, it["line"])
    # trait contract in octopii
    sm = files[SM]
    tf = [it for it in sm.items if it["k"] == "traitfn" and it["ctx"] == "trait StateMachineTrait"]
    names = {t["name"] for t in tf}
    if {"apply", "snapshot", "restore"} <= names:
        ctx.ok("C20.1", "octopii::StateMachineTrait", "the application contract offers apply / snapshot / restore", SM, tf[0]["line"])
    else:
        ctx.violate("C20.1", "octopii::StateMachineTrait", "contract", SM, None, "StateMachineTrait lacks snapshot/restore")
    ctx.assume("the Raft snapshot transport itself (chunking, ordering) is NOT decided; octopii cannot be type-checked offline, the adapter is analysed on its syntax tree")
    return {
        "explanation": "dataflow obligations on the syntax tree of the openraft state-machine adapter (where the snapshot bytes come from, what restore receives, unconditional in-order "
                       "forwarding of Normal entries) and type/whole-state obligations on the MIR of Metadata::snapshot/restore plus serde attribute checks.",
    }
