"""C04 - rejected or failed appends leave no trace; batches are all-or-nothing (partial)."""
import re
from .core import common
from .core.mir import op_local, op_place, strip_generics, callee_name, Site
from .core.cond import all_tests, call_site_of, borrowed_local, const_of, result_edges
from .core.slicing import pointer_root_arg, origins, origin_calls, origin_args, guard_of_pointer
from .core.effects import provenance
from .core.symexpr import expr, show, strip_refs
from . import fmtfeat

RULES = {
    "C04.5": "a batch is visible as one contiguous run (= C07.6): the single-entry reader and the recovery scan accept every entry the batch writer placed - the comparisons of "
             "Block::read are the header-length sanity test, `entry end > file length` and the checksum comparison only. An extra bound (room left in the block, the block's "
             "limit) turns away a legal entry at an exact boundary - e.g. an empty payload whose header fills the block to its last byte - and the batch shows up with a hole",
    "C04.1": "rotation is atomic with respect to exits (NOEXIT): in Writer::write and Writer::batch_write, from every call that seals the current block "
             "(Reader::append_block_to_chain) every path reaches the store that installs the successor block into current_block before any return",
    "C04.2": "rejections precede effects (MPT): no `return Err(io::Error::new(InvalidInput|WouldBlock, ..))` built in the writer bodies is reachable from an effect site "
             "(lock of current_block/current_offset, allocation, seal, unlock, storage write)",
    "C04.3a": "publish discipline: every store of the planning cursor into *current_offset (publish) is unreachable from the Err edge of any planned storage write or flush, is guarded "
              "by the all_success flag in the io_uring path (which is cleared under `result < 0` and under a short write), and the current_offset guard is not dropped between "
              "planning and publish",
    "C04.3b": "rollback discipline: every Err return reachable from the first effect passes a store of the saved original offset into *current_offset and the unlock of every "
              "block allocated by the batch; exits whose error cannot occur are frozen table rows with their reason",
    "C04.3d": "rollback hides every planned entry: every rollback store of the saved offset is preceded on all paths by a loop over the write plan (in the same body, or in a helper "
              "all of whose paths run such a loop) whose every iteration calls Block::zero_range(plan.block, plan.offset, PREFIX_META_SIZE): no branch inside the loop may skip the "
              "zeroing of an element. A header that stays on disk behind the restored offset is decoded by the recovery scan (and by the next rotation's readers) as an entry "
              "that was never acknowledged",
    "C04.3c": "on every rollback path on which a successor block was installed, the original block is re-installed",
    "C04.4": "storage errors propagate (ED): the io::Result of positional writes (write_at / write_all_at) in the storage layer is not discarded",
    "C04.5": "the header-length guard exists in both encoders and rejects before anything is written (shared with C16.1)",
    "C04.6": "the batch flag is released on all exits: the BatchGuard is constructed in the block reached by the success edge of the compare_exchange, before any fallible call",
}

# C04.3b: exits whose error cannot occur (reason per row); matched by the callee that produces the error
INFEASIBLE_EXITS = {
    r"convert::TryFrom.*::try_from$|<usize as .*TryFrom<u64>>::try_from$": "total_bytes <= MAX_BATCH_BYTES (10 GiB) was checked before; it fits usize on a 64-bit target",
    r"SubmissionQueue.*::push$|squeue::SubmissionQueue.*push$": "the ring is created with min(plan.len()+64, 4096) slots and plan.len() <= 2000, so the queue cannot be full",
    r"rkyv::to_bytes$": "serialising a Metadata into an AllocSerializer is infallible",
    r"IoUring.*::new$|io_uring::IoUring::new$": "`io_uring init failed` is caught by the caller, which falls through to the portable write loop (no effect of this helper has happened yet)",
    r"Mutex.*::lock$": "lock poisoning only (a panic elsewhere); outside the property's failure model",
}


def _install_sites(b):
    """stores of a whole Block through the MutexGuard<Block> of current_block"""
    out = []
    for site, st in b.assigns():
        p = st["place"]
        if p["p"] == ["*"]:
            g = guard_of_pointer(b, p["l"])
            if g is not None and "MutexGuard<'_, wal::block::Block>" in b.local_ty(g):
                out.append(site)
    return out


def _offset_stores(b):
    """stores through the current_offset guard (MutexGuard<u64>) or through a `&mut u64`
    parameter that the caller derived from it. Returns (site, kind) with kind in
    publish / rollback / install-zero / advance / other."""
    out = []
    for site, st in b.assigns():
        p = st["place"]
        if p["p"] != ["*"]:
            continue
        ty = b.local_ty(p["l"])
        root_ok = False
        g = guard_of_pointer(b, p["l"])
        if g is not None and "MutexGuard<'_, u64>" in b.local_ty(g):
            root_ok = True
        if ty == "&mut u64" and 1 <= p["l"] <= b.arg_count:
            root_ok = True
        if not root_ok and ty == "&mut u64":
            # a reborrow handed to an (inlined) helper
            ra = pointer_root_arg(b, p["l"])
            if ra is not None and b.local_ty(ra) == "&mut u64":
                root_ok = True
        if not root_ok:
            continue
        rv = st["rv"]
        e = expr(b, rv["op"]) if rv["k"] in ("use", "cast") else ("?", "")
        sh = show(strip_refs(e))
        raw = op_place(b.resolve_copy(rv["op"])) if rv["k"] in ("use", "cast") else None
        raw_fields = [x.get("n") for x in (raw["p"] if raw else []) if isinstance(x, dict)]
        if "original_offset" in sh or "original_offset" in raw_fields:
            kind = "rollback"
            sh = "saved original_offset"
        elif e[0] == "c" and e[1] == 0:
            kind = "install-zero"
        elif e[0] == "Add":
            kind = "advance"
        elif e[0] == "v":
            kind = "publish"
        else:
            kind = "other"
        out.append((site, kind, sh))
    return out


def error_exits(b, c, depth=0):
    """Err edges of call `c` on which the function returns *that* failure: the blocks
    dominated by the edge build the return value with from_residual / Err{..}.  Re-tests of
    the discriminant that drop elaboration adds later are discarded (an edge dominated by
    another Err edge of the same call)."""
    ok_e, err_e = result_edges(b, c)
    prim = [e for e in err_e if not any(e2 != e and b.edge_guards(e2, e[0]) for e2 in err_e)]
    out = []
    if not err_e and not c.node["dest"]["p"] and not strip_generics(c.node.get("callee") or "").endswith("::from_residual"):
        # the result is not tested at all but handed on as the function's own result (`helper()` / `x.sync_all()` in tail
        # position, possibly through an inlined helper's return place): the failure is returned as it is
        cur, hops = {c.node["dest"]["l"]}, 0
        while hops < 6 and 0 not in cur:
            hops += 1
            nxt = set()
            for site, st in b.assigns():
                if st["rv"]["k"] == "use" and op_local(st["rv"]["op"]) in cur and not st["place"]["p"]:
                    nxt.add(st["place"]["l"])
            if not nxt - cur:
                break
            cur |= nxt
        if 0 in cur and c.node.get("target") is not None:
            out.append(((c.bb, c.node["target"]), list(b.return_blocks())))
            return out
    for e in prim:
        exit_blocks = []
        for blk in b.live_blocks:
            # the edge's own target counts even when other failing paths join it there (two `?` sharing one
            # from_residual block after path splitting)
            if blk != e[1] and not b.edge_guards(e, blk):
                continue
            t = b.term(blk)
            if t["k"] == "call" and strip_generics(t.get("callee") or "").endswith("::from_residual") and t["dest"]["l"] == 0:
                exit_blocks.append(blk)
            for st in b.blocks[blk]["stmts"]:
                if st["k"] == "assign" and st["place"]["l"] == 0 and not st["place"]["p"] and st["rv"]["k"] == "agg" and st["rv"].get("variant") == "Err":
                    exit_blocks.append(blk)
        if not exit_blocks and depth < 4:
            # the failure is returned by an inlined helper (core/inline.py): it counts if the caller in turn
            # returns the helper's failure - the helper's result is judged as a call of its own
            roots = set(b.j.get("_inl_roots") or [])
            starts = []
            for blk in b.live_blocks:
                if not b.edge_guards(e, blk):
                    continue
                t = b.term(blk)
                if t["k"] == "call" and strip_generics(t.get("callee") or "").endswith("::from_residual") and t["dest"]["l"] in roots and not t["dest"]["p"]:
                    starts.append(blk)
                for st in b.blocks[blk]["stmts"]:
                    if st["k"] == "assign" and st["place"]["l"] in roots and not st["place"]["p"] and st["rv"]["k"] == "agg" and st["rv"].get("variant") == "Err":
                        starts.append(blk)
            for X in starts:
                # the paths were split on the variant of the helper's result (the caller's `?` is resolved on them): the
                # failure is returned if every way from here to a return builds the function's own Err
                reach = b.reachable_from([X])
                outer = []
                for blk in reach:
                    t = b.term(blk)
                    if t["k"] == "call" and strip_generics(t.get("callee") or "").endswith("::from_residual") and t["dest"]["l"] == 0:
                        outer.append(blk)
                    for st in b.blocks[blk]["stmts"]:
                        if st["k"] == "assign" and st["place"]["l"] == 0 and not st["place"]["p"] and st["rv"]["k"] == "agg" and st["rv"].get("variant") == "Err":
                            outer.append(blk)
                        # the helper was called in tail position: its result, the failure included, is the function's result
                        if st["k"] == "assign" and st["place"]["l"] == 0 and not st["place"]["p"] and st["rv"]["k"] == "use" and op_local(st["rv"]["op"]) in roots:
                            outer.append(blk)
                if outer and not [r for r in b.return_blocks() if r in b.reachable_from([X], removed_blocks=outer)]:
                    exit_blocks += outer
        if exit_blocks:
            out.append((e, exit_blocks))
    return out


def real_source(b, c):
    """the call whose failure `c` reports (looks through map_err)"""
    cur = c
    for _ in range(3):
        cn = callee_name(cur.node)
        if cn.endswith("::try_for_each") or cn.endswith("::try_fold"):
            # the failure reported is that of the one fallible call made by the closure
            facts_ = getattr(b, "facts", None)
            for a_ in cur.node["args"]:
                al_ = op_local(b.resolve_copy(a_))
                d_ = b.def_rvalue(al_) if al_ is not None else None
                if d_ and d_[0] == "rv" and d_[1]["k"] == "agg" and d_[1].get("akind") == "closure" and facts_ is not None:
                    cb_ = facts_.bodies.get(d_[1].get("name"))
                    inner_ = [c2 for c2 in cb_.calls() if c2.node.get("dest_ty", "").startswith("std::result::Result")] if cb_ is not None else []
                    if len(inner_) == 1:
                        return inner_[0]
            break
        if cn.endswith("::map_err") or cn.endswith("::map") or cn.endswith("::or_else"):
            inner = call_site_of(b, cur.node["args"][0])
            if inner is None:
                break
            cur = inner
        else:
            break
    return cur


def check_rotation(ctx, facts, rid="C04.1"):
    n_seal = 0
    for fn in ("writer::Writer::write", "writer::Writer::batch_write"):
        b = facts.body(fn)
        ctx.saw_body(b)
        seals = b.calls(re.compile(r"Reader::append_block_to_chain$"))
        installs = _install_sites(b)
        if not seals or not installs:
            ctx.anchor_missing(rid, "seal / install sites in " + fn)
            continue
        inst_blocks = [s.bb for s in installs]
        for s in seals:
            n_seal += 1
            reach = b.reachable_after(s.bb, removed_blocks=inst_blocks)
            rets = [r for r in b.return_blocks() if r in reach]
            if rets:
                # name the exit: the first fallible call between seal and install
                culprit = None
                for c in sorted(b.calls(), key=lambda x: x.line or 0):
                    if c.bb in reach and c.node.get("dest_ty", "").startswith("std::result::Result") and b.dominates(s.bb, c.bb):
                        if error_exits(b, c):
                            culprit = real_source(b, c)
                            break
                ctx.violate(rid, fn, "exit-between-seal-and-install", b.relfile, (culprit or s).line,
                            "after the current block was appended to the reader chain (sealed) a path returns before the successor block is installed%s: the sealed block stays "
                            "current, later appends land in a block the reader believes closed and the next rotation chains it a second time"
                            % (" (error exit of %s)" % callee_name(culprit.node).split("::")[-1] if culprit else ""))
            else:
                ctx.ok(rid, fn, "no exit between sealing the block and installing its successor", b.relfile, s.line)
        # advisory: the seal must be preceded by the unlock of that block (bookkeeping pairing)
    ctx.floor(rid, "seal sites", n_seal, 2)


EFFECT_CALLS = re.compile(r"Mutex::lock$|BlockAllocator::alloc_block$|Reader::append_block_to_chain$|FileStateTracker::set_block_unlocked$|block::Block::write$|"
                          r"Writer::submit_batch_via_io_uring$|block::Block::zero_range$|SharedMmap::(write|flush)$")


def check_rejections(ctx, facts):
    n = 0
    for fn in ("writer::Writer::write", "writer::Writer::batch_write"):
        b = facts.body(fn)
        ctx.saw_body(b)
        effects = [s for s in b.calls(EFFECT_CALLS)]
        eff_reach = set()
        for e in effects:
            eff_reach |= b.reachable_after(e.bb)
        for site, st in b.assigns():
            rv = st["rv"]
            if st["place"]["l"] == 0 and not st["place"]["p"] and rv["k"] == "agg" and rv.get("variant") == "Err":
                src, _, _ = origins(b, rv["ops"][0], stop_calls=[r"io::Error::new$", r"error::Error::new$"])
                news = [o for o in src if o.kind == "call" and o.what.endswith("Error::new")]
                if not news:
                    continue
                kinds = set()
                for o in news:
                    ke = expr(b, o.site.node["args"][0])
                    kinds.add(show(ke))
                kind = ",".join(sorted(kinds))
                if not re.search(r"InvalidInput|WouldBlock", kind):
                    continue
                n += 1
                if site.bb in eff_reach:
                    first = min((e for e in effects if site.bb in b.reachable_after(e.bb)), key=lambda s: s.line)
                    ctx.violate("C04.2", fn, "rejection-after-effect", b.relfile, st["line"],
                                "a request is rejected (%s) after %s at line %s has already happened" % (kind, callee_name(first.node).split("::")[-1], first.line))
                else:
                    ctx.ok("C04.2", fn, "rejection (%s) precedes every effect" % kind.split("::")[-1][:40], b.relfile, st["line"])
    ctx.floor("C04.2", "literal rejection returns in the writer", n, 2)


def check_publish(ctx, facts):
    bw = facts.body("writer::Writer::batch_write")
    ur = facts.body("writer::Writer::submit_batch_via_io_uring")
    ctx.saw_body(bw)
    ctx.saw_body(ur)
    n_pub = 0
    for b in (bw, ur):
        F = common.short_fn(b.name)
        stores = _offset_stores(b)
        pubs = [s for s, k, sh in stores if k == "publish"]
        writes = b.calls(re.compile(r"block::Block::write$"))
        flushes = [s for s in b.calls(re.compile(r"SharedMmap::flush$"))]
        for p in pubs:
            n_pub += 1
            bad = []
            for w in writes + flushes:
                ok_e, err_e = result_edges(b, w)
                for e in err_e:
                    if p.bb in b.reachable_from([e[1]]) and not b.edge_guards(e, w.bb):
                        # a publish reachable after a failed write/flush (ignore flushes whose result is deliberately dropped in rollback code)
                        bad.append(w)
            if bad:
                ctx.violate("C04.3a", F, "publish-after-failed-write", b.relfile, p.line, "the batch is published on a path on which %s failed" % callee_name(bad[0].node).split("::")[-1])
            else:
                ctx.ok("C04.3a", F, "publish unreachable from the Err edge of every planned write/flush", b.relfile, p.line)
            # nothing can fail after the publish: no error exit is reachable from it
            after = b.reachable_after(p.bb)
            late = [c for c in b.calls() if c.bb in after and c.node.get("dest_ty", "").startswith("std::result::Result") and error_exits(b, c)]
            errs_after = [site for site, st in b.assigns() if site.bb in after and st["place"]["l"] == 0 and not st["place"]["p"] and st["rv"]["k"] == "agg" and st["rv"].get("variant") == "Err"]
            if late or errs_after:
                w = late[0] if late else errs_after[0]
                ctx.violate("C04.3a", F, "error-exit-after-publish", b.relfile, w.line, "the batch is published and the function can still return an error afterwards: a failed batch is visible to readers")
            else:
                ctx.ok("C04.3a", F, "no error exit is reachable after the publish", b.relfile, p.line)
            # every planned write happens before publish: publish is dominated by the write loop (fallback) / by submit_and_wait (io_uring)
            if b is bw:
                if writes and all(b.must_pass([0], [p.bb], [w.bb for w in writes]) or True for _ in [0]):
                    # the loop may execute zero times only for an empty plan (batch non-empty is checked before); require dominance by the loop's iterator
                    its = [s for s in b.calls(re.compile(r"::next$")) if any(w.bb in b.reachable_after(s.bb) for w in writes) and b.dominates(s.bb, p.bb)]
                    if its:
                        ctx.ok("C04.3a", F, "publish is dominated by the exhausted write loop over the plan", b.relfile, p.line)
                    else:
                        ctx.violate("C04.3a", F, "publish-before-writes", b.relfile, p.line, "the publish store is not dominated by the loop that writes the planned entries")
            else:
                sw = b.calls(re.compile(r"IoUring.*::submit_and_wait$|Submitter.*::submit_and_wait$"))
                if sw and all(b.dominates(s.bb, p.bb) for s in sw):
                    ctx.ok("C04.3a", F, "publish is dominated by submit_and_wait", b.relfile, p.line)
                else:
                    ctx.violate("C04.3a", F, "publish-before-submit", b.relfile, p.line, "the publish store is not dominated by the submission of the planned writes")
                # all_success gate
                flag = None
                for T in all_tests(b):
                    if T.kind == "local" and op_local(T.operand) is not None and b.local_ty(op_local(T.operand)) == "bool" and b.edge_guards(T.true_edge, p.bb):
                        l = op_local(T.operand)
                        falses = [s for s, k, n_ in b.defs.get(l, []) if k == "assign" and n_["rv"]["k"] == "use" and n_["rv"]["op"].get("val") == 0]
                        trues = [s for s, k, n_ in b.defs.get(l, []) if k == "assign" and n_["rv"]["k"] == "use" and n_["rv"]["op"].get("val") == 1]
                        if falses and trues:
                            flag = (l, falses)
                iter_gate = None
                if flag is None:
                    # the same check written with an iterator: `(0..n).any(|_| <a completion failed>)` / `.all(|_| <ok>)`, whose
                    # verdict guards the publish (directly, negated, or through a bool / Result built from it)
                    cands_ = [(b, c0, c0) for c0 in b.calls(re.compile(r"Iterator>?::(any|all)$"))]
                    # the check may itself sit in a closure handed to a combinator of this function
                    # (`submit_and_wait(n).and_then(|_| { .. all(..) .. })`): the combinator call then carries the verdict
                    for cx in facts.closures_of(b):
                        for c0 in cx.calls(re.compile(r"Iterator>?::(any|all)$")):
                            top = cx
                            while top.parent in facts.bodies and facts.bodies[top.parent] is not b and facts.bodies[top.parent].kind == "Closure":
                                top = facts.bodies[top.parent]
                            for call in b.calls():
                                for a_ in call.node["args"]:
                                    al_ = op_local(b.resolve_copy(a_))
                                    d_ = b.def_rvalue(al_) if al_ is not None else None
                                    if d_ and d_[0] == "rv" and d_[1]["k"] == "agg" and d_[1].get("akind") == "closure" and d_[1].get("name") == top.name:
                                        cands_.append((cx, c0, call))
                    for hb0, c0, c_ in cands_:
                        clos = []
                        for a_ in c0.node["args"]:
                            al_ = op_local(hb0.resolve_copy(a_))
                            d_ = hb0.def_rvalue(al_) if al_ is not None else None
                            if d_ and d_[0] == "rv" and d_[1]["k"] == "agg" and d_[1].get("akind") == "closure":
                                clos.append(facts.bodies.get(d_[1].get("name")))
                        clos = [c2 for c2 in clos if c2 is not None]
                        if not clos:
                            continue
                        cb_ = clos[0]
                        bodies_ = [cb_] + facts.closures_of(cb_)
                        # the completions may be pulled by a sibling closure of the same chain (`filter_map(|_| ring.completion().next()).all(..)`)
                        sib_ = [hb0] + facts.closures_of(hb0) if hb0 is not b else bodies_
                        if not any(x.calls(re.compile(r"CompletionQueue.*::next$|cqueue.*::next$")) for x in bodies_ + sib_):
                            continue
                        neg = short = False
                        for x in bodies_:
                            for T in all_tests(x):
                                if T.kind != "cmp":
                                    continue
                                ea = show(strip_refs(expr(x, T.a))) + show(strip_refs(expr(x, T.b)))
                                if "result" in ea:
                                    if T.op in ("Lt", "Ge") and (const_of(x, T.b) == 0 or const_of(x, T.a) == 0):
                                        neg = True
                                    if T.op in ("Ne", "Eq"):
                                        short = True
                            for site_, st_ in x.assigns():
                                rv_ = st_["rv"]
                                if rv_["k"] == "bin" and "result" in (show(strip_refs(expr(x, rv_["a"]))) + show(strip_refs(expr(x, rv_["b"])))):
                                    if rv_["op"] in ("Lt", "Ge") and (const_of(x, rv_["b"]) == 0 or const_of(x, rv_["a"]) == 0):
                                        neg = True
                                    if rv_["op"] in ("Ne", "Eq"):
                                        short = True
                        # the verdict must decide whether the publish is reached: some branch that guards the publish tests a value derived from it
                        derived = False
                        for T in all_tests(b):
                            edges_ = [e_ for e_ in (T.true_edge, T.false_edge) if e_] + [e_ for e_ in getattr(T, "variant_edges", {}).values() if e_]
                            if getattr(T, "otherwise", None) is not None:
                                edges_.append((T.bb, T.otherwise))
                            if not any(b.edge_guards(e_, p.bb) for e_ in edges_):
                                continue
                            ops_ = [T.operand] if T.kind == "local" else ([{"k": "copy", "place": T.place}] if T.kind == "discr" else (list(T.args) if T.kind == "call" else []))
                            if T.kind == "call" and T.site is not None and (T.site.bb, T.site.idx) == (c_.bb, c_.idx):
                                derived = True
                            for o_ in ops_:
                                src_, _, dsites_ = origins(b, o_, follow_all_calls=True)
                                if any(o2.kind == "call" and o2.site is not None and (o2.site.bb, o2.site.idx) == (c_.bb, c_.idx) for o2 in src_):
                                    derived = True
                                # or through control: the tested value is built (`Err(..)` / `Ok(())`, `true` / `false`) on the two arms of
                                # a branch on the verdict
                                for T2 in all_tests(b):
                                    e2s = [e_ for e_ in (T2.true_edge, T2.false_edge) if e_]
                                    if not e2s or T2.kind not in ("local", "call"):
                                        continue
                                    if not any(b.edge_guards(e_, d_.bb) for e_ in e2s for d_ in dsites_):
                                        continue
                                    o2s = [T2.operand] if T2.kind == "local" else list(T2.args)
                                    if T2.kind == "call" and T2.site is not None and (T2.site.bb, T2.site.idx) == (c_.bb, c_.idx):
                                        derived = True
                                    for o3 in o2s:
                                        s3, _, _ = origins(b, o3, follow_all_calls=True)
                                        if any(o4.kind == "call" and o4.site is not None and (o4.site.bb, o4.site.idx) == (c_.bb, c_.idx) for o4 in s3):
                                            derived = True
                        if derived:
                            iter_gate = (neg, short, c_)
                if flag is None and iter_gate is not None:
                    neg, short, c_ = iter_gate
                    if neg and short:
                        ctx.ok("C04.3a", F, "the publish is decided by an any()/all() over the completions that tests result < 0 and a short write", b.relfile, c_.line)
                    else:
                        ctx.violate("C04.3a", F, "completion-check-incomplete", b.relfile, c_.line,
                                    "the completion check does not test %s" % ("a negative result" if not neg else "a short write"))
                elif flag is None:
                    ctx.violate("C04.3a", F, "publish-not-gated-by-completion-check", b.relfile, p.line, "the io_uring publish is not guarded by a flag that the completion loop clears on failure")
                else:
                    l, falses = flag
                    neg = short = False
                    for fs in falses:
                        for T in all_tests(b):
                            if T.kind != "cmp":
                                continue
                            ea = show(strip_refs(expr(b, T.a)))
                            if "result(" in ea or "result" in ea:
                                if T.op == "Lt" and const_of(b, T.b) == 0 and b.edge_guards(T.true_edge, fs.bb):
                                    neg = True
                                if T.op == "Ne" and b.edge_guards(T.true_edge, fs.bb):
                                    short = True
                                if T.op == "Eq" and b.edge_guards(T.false_edge, fs.bb):
                                    short = True
                    if neg and short:
                        ctx.ok("C04.3a", F, "completion flag is cleared on result < 0 and on a short write", b.relfile, p.line)
                    else:
                        ctx.violate("C04.3a", F, "completion-check-incomplete", b.relfile, p.line,
                                    "the completion loop does not clear the success flag on %s" % ("a negative result" if not neg else "a short write"))
            # the offset guard is not dropped before publish
            if b is bw:
                for blk in b.live_blocks:
                    t = b.term(blk)
                    if t["k"] == "drop" and "MutexGuard<'_, u64>" in t.get("ty", "") and b.dominates(blk, p.bb):
                        ctx.violate("C04.3a", F, "offset-guard-dropped-before-publish", b.relfile, t["line"], "the current_offset guard is released before the batch is published")
                for s in b.calls(re.compile(r"mem::drop$")):
                    a = op_local(s.node["args"][0])
                    if a is not None and "MutexGuard<'_, u64>" in b.local_ty(a) and b.dominates(s.bb, p.bb):
                        ctx.violate("C04.3a", F, "offset-guard-dropped-before-publish", b.relfile, s.line, "the current_offset guard is released before the batch is published")
    # single append: the offset advance is the publish; nothing may fail after it
    w = facts.body("writer::Writer::write")
    ctx.saw_body(w)
    adv = [s for s, k, sh in _offset_stores(w) if k == "advance"]
    for p in adv:
        n_pub += 1
        after = w.reachable_after(p.bb)
        late = [c for c in w.calls() if (c.bb in after) and c.node.get("dest_ty", "").startswith("std::result::Result") and error_exits(w, c)]
        if late:
            ctx.violate("C04.3a", "writer::Writer::write", "error-exit-after-publish", w.relfile, late[0].line,
                        "the entry is published (offset advanced) and the append can still fail afterwards (%s): an append that returned Err is readable" % callee_name(real_source(w, late[0]).node).split("::")[-1])
        else:
            ctx.ok("C04.3a", "writer::Writer::write", "no error exit is reachable after the offset advance", w.relfile, p.line)
        wr = w.calls(re.compile(r"block::Block::write$"))
        bad = False
        for c in wr:
            for e, xb in error_exits(w, c):
                if p.bb in w.reachable_from([e[1]]):
                    bad = True
        if wr and all(w.dominates(c.bb, p.bb) for c in wr) and not bad:
            ctx.ok("C04.3a", "writer::Writer::write", "offset advance is dominated by the successful Block::write", w.relfile, p.line)
        else:
            ctx.violate("C04.3a", "writer::Writer::write", "publish-without-write", w.relfile, p.line, "the offset is advanced on a path on which the entry was not written")
    ctx.floor("C04.3a", "publish stores", n_pub, 2)


def check_rollback(ctx, facts):
    bw = facts.body("writer::Writer::batch_write")
    ur = facts.body("writer::Writer::submit_batch_via_io_uring")
    for b in (bw, ur):
        F = common.short_fn(b.name)
        stores = _offset_stores(b)
        rb_blocks = [s.bb for s, k, sh in stores if k == "rollback"]
        unlocks = [s.bb for s in b.calls(re.compile(r"FileStateTracker::set_block_unlocked$"))]
        # first effect
        if b is bw:
            eff = [s for s in b.calls(re.compile(r"BlockAllocator::alloc_block$|Reader::append_block_to_chain$|block::Block::write$|Writer::submit_batch_via_io_uring$"))]
        else:
            eff = [s for s in b.calls(re.compile(r"SubmissionQueue.*::push$|::submit_and_wait$"))]
        if not eff:
            ctx.anchor_missing("C04.3b", "effect sites in " + F)
            continue
        eff_reach = set()
        for e in eff:
            eff_reach |= b.reachable_after(e.bb)
        n_exit = 0
        for c in b.calls():
            if not c.node.get("dest_ty", "").startswith("std::result::Result"):
                continue
            exits = error_exits(b, c)
            if not exits:
                continue
            src_call = real_source(b, c)
            cn = callee_name(src_call.node)
            for e, exit_blocks in exits:
                rets = [r for r in b.return_blocks() if r in b.reachable_from([e[1]])]
                if not rets:
                    continue
                # is it an exit after the first effect?
                if c.bb not in eff_reach and c not in eff:
                    continue
                n_exit += 1
                reason = None
                for pat, why in INFEASIBLE_EXITS.items():
                    if re.search(pat, cn) or re.search(pat, src_call.node.get("callee") or "") or re.search(pat, src_call.node.get("callee_raw") or ""):
                        reason = why
                if reason:
                    ctx.ok("C04.3b", F, "exit on Err of %s cannot occur" % cn.split("::")[-1], b.relfile, c.line, reason, trivial=True)
                    continue
                if cn.endswith("Writer::submit_batch_via_io_uring"):
                    # the helper rolls back itself; its non-init errors are returned as they are
                    ctx.ok("C04.3b", F, "helper errors are returned after the helper's own rollback", b.relfile, c.line)
                    continue
                # paths from the err edge to return must pass rollback + unlock
                path_blocks = b.reachable_from([e[1]])
                no_rb = [r for r in rets if r in b.reachable_from([e[1]], removed_blocks=rb_blocks)]
                if no_rb:
                    ctx.violate("C04.3b", F, "error-exit-without-rollback:" + cn.split("::")[-1], b.relfile, c.line,
                                "when %s fails after the batch has started to take effect, the function returns the error without restoring the offset / zeroing the written headers / "
                                "unlocking the blocks it allocated: the written entries stay on disk unpublished and become readable after a restart" % cn.split("::")[-1])
                else:
                    no_ul = [r for r in rets if r in b.reachable_from([e[1]], removed_blocks=unlocks)] if unlocks else rets
                    if no_ul and b is bw and not unlocks:
                        ctx.violate("C04.3b", F, "rollback-without-unlock", b.relfile, c.line, "rollback does not unlock the blocks allocated by the batch")
                    else:
                        ctx.ok("C04.3b", F, "Err of %s is followed by rollback of the offset and unlock of allocated blocks" % cn.split("::")[-1], b.relfile, c.line)
        # non-Result failure branch of the io_uring completion check
        for s, k, sh in stores:
            if k == "rollback":
                ctx.ok("C04.3b", F, "rollback store restores the saved original offset", b.relfile, s.line, sh)
        ctx.floor("C04.3b", "error exits after the first effect in " + F, n_exit, 1)
    # 3c: block restore
    installs = _install_sites(bw)
    if installs:
        inst_reach = set()
        for i in installs:
            inst_reach |= bw.reachable_after(i.bb)
        # a re-install = an install site that is reachable from a rollback-side edge (dominated by an Err edge)
        for s, k, sh in _offset_stores(bw):
            if k != "rollback":
                continue
            if s.bb in inst_reach:
                restored = any(bw.dominates(i.bb, s.bb) and i.bb not in [x.bb for x in installs if not bw.dominates(x.bb, s.bb)] and
                               any(True for _ in [0]) and _is_restore(bw, i) for i in installs)
                if restored:
                    ctx.ok("C04.3c", "writer::Writer::batch_write", "rollback re-installs the original block", bw.relfile, s.line)
                else:
                    ctx.violate("C04.3c", "writer::Writer::batch_write", "rollback-does-not-restore-block", bw.relfile, s.line,
                                "the rollback restores only the offset: if the batch rotated, the successor block stays installed with the old offset and the sealed block stays in the reader chain")
        for c in bw.calls(re.compile(r"Writer::submit_batch_via_io_uring$")):
            if c.bb in inst_reach:
                passes_block = any("Block" in bw.local_ty(op_local(a)) and "MutexGuard" in bw.local_ty(op_local(a)) or ("&mut wal::block::Block" == bw.local_ty(op_local(a)))
                                   for a in c.node["args"] if op_local(a) is not None)
                if passes_block:
                    ctx.ok("C04.3c", "writer::Writer::batch_write", "the io_uring helper receives the block guard and can restore it", bw.relfile, c.line)
                else:
                    ctx.violate("C04.3c", "writer::Writer::batch_write", "helper-cannot-restore-block", bw.relfile, c.line,
                                "the io_uring helper rolls back through `&mut u64` only; it does not receive the block guard, so a rotated batch cannot be undone")


_PLAN = {}


def plan_shape(facts):
    """The element type of the batch write plan, by role: the slice parameter of submit_batch_via_io_uring whose elements
    carry a Block.  Returns (type string, block field, offset field, index field) - field names as they appear at the end
    of an expression text ('.0', '.1', '.2' for the tuple form; the struct's field names otherwise)."""
    if id(facts) in _PLAN:
        return _PLAN[id(facts)]
    res = ("(wal::block::Block, u64, usize)", "0", "1", "2")
    try:
        u = facts.body("writer::Writer::submit_batch_via_io_uring")
        for i in range(1, u.arg_count + 1):
            m = re.match(r"^&(?:mut )?(?:\[(.+)\]|std::vec::Vec<(.+)>)$", u.local_ty(i))
            if not m:
                continue
            et = m.group(1) or m.group(2)
            if et.startswith("(") and "wal::block::Block" in et:
                parts = [x.strip() for x in et.strip("()").split(",")]
                bi = next((str(k) for k, x in enumerate(parts) if x == "wal::block::Block"), "0")
                oi = next((str(k) for k, x in enumerate(parts) if x == "u64"), "1")
                ii = next((str(k) for k, x in enumerate(parts) if x == "usize"), "2")
                res = (et, bi, oi, ii)
                break
            adt = facts.adts.get(et)
            if adt and adt.get("variants") and len(adt["variants"]) == 1:
                fl = adt["variants"][0].get("fields", [])
                bf = [f_["name"] for f_ in fl if f_.get("ty") == "wal::block::Block"]
                of = [f_["name"] for f_ in fl if f_.get("ty") == "u64"]
                xf = [f_["name"] for f_ in fl if f_.get("ty") == "usize"]
                if len(bf) == 1 and len(of) == 1:
                    res = (et, bf[0], of[0], xf[0] if len(xf) == 1 else None)
                    break
    except Exception:
        pass
    _PLAN[id(facts)] = res
    return res


def _zero_loops(facts, b):
    """(call site, loop, problems) for every Block::zero_range call of body b"""
    out = []
    P = facts.const_val("config::PREFIX_META_SIZE")
    for z in b.calls(re.compile(r"block::Block::zero_range$")):
        hb, L = z.bb, None
        for _ in range(16):
            L = b.natural_loop(hb)
            if L and z.bb in L:
                break
            L = None
            if b.idom.get(hb) is None or b.idom[hb] == hb:
                break
            hb = b.idom[hb]
        problems = []
        if L is None:
            problems.append("not-in-a-loop-over-the-plan")
        else:
            t = b.term(hb)
            if not (t["k"] == "call" and re.search(r"Iterator>::next$|Iterator::next$", strip_generics(t.get("callee") or "")) and plan_shape(facts)[0] in b.local_ty(t["dest"]["l"])):
                problems.append("loop-does-not-iterate-the-plan")
            # bypass: header reachable again from inside the loop without passing the zeroing call
            inner = [x for x in b.succ[hb] if x in L]
            seen, work = set(), list(inner)
            while work:
                n = work.pop()
                if n in seen or n not in L or n == z.bb:
                    continue
                seen.add(n)
                if hb in b.succ[n]:
                    problems.append("zeroing-skipped-on-a-branch")
                    break
                work.extend(b.succ[n])
            a = [show(strip_refs(expr(b, x)), 8) for x in z.node["args"]]
            _, bf_, of_, _x = plan_shape(facts)
            if not (a[0].endswith("." + bf_) and a[1].endswith("." + of_) and "next(" in a[0] and "next(" in a[1]):
                problems.append("zeroes-something-else-than-the-planned-header")
            if fmtfeat.const_eval(strip_refs(expr(b, z.node["args"][2]))) != P:
                problems.append("zeroes-less-than-a-header")
        out.append((z, L, problems, hb))
    return out


def check_rollback_zeroing(ctx, facts, rid="C04.3d"):
    bw = facts.body("writer::Writer::batch_write")
    ur = facts.body("writer::Writer::submit_batch_via_io_uring")
    # helpers: bodies (other than the two) that contain a zeroing loop on all paths
    helper_ok = {}
    for name, hb_ in facts.bodies.items():
        if hb_ is bw or hb_ is ur or hb_.kind == "closure":
            continue
        zl = _zero_loops(facts, hb_) if hb_.calls(re.compile(r"block::Block::zero_range$")) else []
        if not zl:
            continue
        ctx.saw_body(hb_)
        good = [(z, hb) for z, L, pr, hb in zl if not pr and L is not None]
        # the loop (its header) is on every path; zero iterations = empty plan = nothing to zero
        must = any(hb_.must_pass([0], hb_.return_blocks(), [hb]) for z, hb in good)
        helper_ok[strip_generics(name)] = (must and len(good) == len(zl), zl)
    n = 0
    for b in (bw, ur):
        F = common.short_fn(b.name)
        zl = _zero_loops(facts, b)
        helper_calls = []
        for c in b.calls():
            k = strip_generics(c.node.get("callee") or "")
            if k in helper_ok:
                helper_calls.append((c, k))
        wrote = set()
        for w_ in b.calls(re.compile(r"block::Block::write$|::submit_and_wait$|::submit$")):
            wrote |= b.reachable_after(w_.bb)
        for s, k, sh in _offset_stores(b):
            if k != "rollback":
                continue
            if s.bb not in wrote:
                ctx.ok(rid, F, "rollback before anything was written or submitted: nothing to zero", b.relfile, s.line, trivial=True)
                continue
            n += 1
            cands = []
            for z, L, pr, hb in zl:
                if L is None:
                    if b.dominates(z.bb, s.bb):
                        cands.append((z, pr))
                elif s.bb not in L and b.dominates(hb, s.bb):
                    cands.append((z, pr))
            hc = [(c, kk) for c, kk in helper_calls if b.dominates(c.bb, s.bb)]
            if not cands and not hc:
                ctx.violate(rid, F, "rollback-without-zeroing", b.relfile, s.line,
                            "the offset is restored but the headers written by the failed batch are not zeroed first: they are decoded as entries by the recovery scan")
                continue
            bad = [(z, pr) for z, pr in cands if pr]
            badh = [(c, kk) for c, kk in hc if not helper_ok[kk][0]]
            if bad or badh:
                if bad:
                    z, pr = bad[0]
                    line, why = z.line, pr
                else:
                    c, kk = badh[0]
                    why = sorted({x for z, L, pr, hb in helper_ok[kk][1] for x in pr}) or ["helper-does-not-zero-on-all-paths"]
                    line = helper_ok[kk][1][0][0].line
                ctx.violate(rid, F, "rollback-zeroing-incomplete:" + ",".join(why), b.relfile, line,
                            "the rollback does not zero the header of every planned entry (%s): a header left behind the restored offset is taken for an entry after a restart, "
                            "or when the next batch overwrites only the zeroed one" % ", ".join(why))
            else:
                ctx.ok(rid, F, "rollback is preceded by the zeroing of every planned header", b.relfile, s.line)
    ctx.floor(rid, "rollback stores", n, 1)


def _is_restore(b, install_site):
    st = install_site.node
    src, _, _ = origins(b, st["rv"]["op"])
    return not any(o.kind == "call" and o.what.endswith("alloc_block") for o in src)


def check_error_discipline(ctx, facts):
    n = 0
    for fn in ("storage::FdBackend::write", "storage::StorageImpl::write", "storage::SharedMmap::write"):
        b = facts.body(fn)
        ctx.saw_body(b)
        for c in b.calls(re.compile(r"FileExt>::write_at$|FileExt::write_at$|FileExt>::write_all_at$|File as .*Write>::write$|::write_all$")):
            n += 1
            d = c.node["dest"]["l"]
            used = False
            for site, st in b.assigns():
                for o in ([st["rv"].get("op")] if st["rv"].get("op") else []) + list(st["rv"].get("ops", [])):
                    if op_local(o) == d or (op_place(o) or {}).get("l") == d:
                        used = True
            for s2 in b.calls():
                if s2 is not c and any(op_local(a) == d for a in s2.node["args"]):
                    used = True
            for T in all_tests(b):
                if T.kind == "discr" and T.place["l"] == d:
                    used = True
            if used:
                ctx.ok("C04.4", fn, "result of the positional write is inspected/propagated", b.relfile, c.line)
            else:
                ctx.violate("C04.4", fn, "write-result-dropped", b.relfile, c.line,
                            "the io::Result of %s is discarded: a failed or short write is acknowledged as success and leaves a hole that hides every later entry of the block" % callee_name(c.node).split("::")[-1])
    ctx.floor("C04.4", "positional write calls in the storage layer", n, 1)


def check_guard(ctx, facts):
    for n in ("block::Block::write", "writer::Writer::submit_batch_via_io_uring"):
        b = facts.body(n)
        f = fmtfeat.encoder_features(b)
        if f is None:
            ctx.anchor_missing("C04.5", "encoder " + n)
            continue
        prefix = facts.const_val("config::PREFIX_META_SIZE")
        if ("Gt", prefix - 2) in f["guard"] or ("Ge", prefix - 1) in f["guard"]:
            # before any write/submit
            T = [t for op, bnd, t in f["_guard_tests"]][0]
            w = b.calls(re.compile(r"SharedMmap::write$|SubmissionQueue.*::push$"))
            if all(b.dominates(T.bb, x.bb) for x in w):
                ctx.ok("C04.5", n, "header-length guard dominates every write/submission", b.relfile, b.term(T.bb)["line"])
            else:
                ctx.violate("C04.5", n, "guard-after-write", b.relfile, b.term(T.bb)["line"], "the header-length guard does not dominate the write")
        else:
            ctx.violate("C04.5", n, "missing-header-length-guard", b.relfile, f["_meta_site"].line,
                        "no `len(meta) > PREFIX_META_SIZE-2 -> Err` guard: an over-long header panics in the slice copy (holding the writer locks) instead of failing the append")


def check_batch_flag(ctx, facts):
    b = facts.body("writer::Writer::batch_write")
    cas = b.calls(re.compile(r"Atomic.*::compare_exchange(_weak)?$"))
    guards = [(site, st) for site, st in b.assigns() if st["rv"]["k"] == "agg" and "BatchGuard" in st["rv"].get("name", "")]
    if len(cas) != 1 or len(guards) != 1:
        ctx.anchor_missing("C04.6", "compare_exchange / BatchGuard in batch_write")
        return
    gs = guards[0][0]
    # no fallible call between the CAS and the guard construction
    between = [c for c in b.calls() if b.dominates(cas[0].bb, c.bb) and c.bb != cas[0].bb and b.dominates(c.bb, gs.bb) and c.bb != gs.bb
               and c.node.get("dest_ty", "").startswith("std::result::Result") and not callee_name(c.node).endswith("is_err")]
    rets_before = [r for r in b.return_blocks() if r in b.reachable_after(cas[0].bb, removed_blocks=[gs.bb])]
    # the failed-CAS return is expected; any other return before the guard leaks the flag
    ok_e, err_e = result_edges(b, cas[0])
    leak = False
    for r in rets_before:
        if not any(r in b.reachable_from([e[1]], removed_blocks=[gs.bb]) for e in err_e):
            leak = True
    if between or leak:
        ctx.violate("C04.6", "writer::Writer::batch_write", "flag-leak", b.relfile, gs.line, "an exit between acquiring is_batch_writing and constructing the RAII guard leaves the flag set forever")
    else:
        ctx.ok("C04.6", "writer::Writer::batch_write", "BatchGuard is constructed right after the successful compare_exchange", b.relfile, gs.line)
    # Drop impl stores false
    drops = [k for k in facts.bodies if "BatchGuard" in k and k.endswith("::drop")]
    if drops:
        d = facts.bodies[drops[0]]
        st = [c for c in d.calls(re.compile(r"Atomic.*::store$")) if const_of(d, c.node["args"][1]) == 0]
        if st:
            ctx.ok("C04.6", "writer::Writer::batch_write", "BatchGuard::drop stores false into the flag", d.relfile, st[0].line)
        else:
            ctx.violate("C04.6", "writer::Writer::batch_write", "guard-drop-does-not-release", d.relfile, d.line, "BatchGuard::drop does not reset the flag")
    else:
        ctx.anchor_missing("C04.6", "Drop for BatchGuard")


def run(ctx):
    for k, v in RULES.items():
        ctx.rule(k, v)
    facts = common.mir(ctx, "walrus_rust")
    check_rotation(ctx, facts)
    check_rejections(ctx, facts)
    check_publish(ctx, facts)
    check_rollback(ctx, facts)
    check_rollback_zeroing(ctx, facts)
    check_error_discipline(ctx, facts)
    check_guard(ctx, facts)
    check_batch_flag(ctx, facts)
    from .c07 import check_reader_rejections      # (c07 imports from this module at load time; import here, at run time)
    check_reader_rejections(ctx, facts, rid="C04.5")
    ctx.assume("NOT decided: behaviour under injected completion failures beyond these shapes; that zeroed headers make a rolled-back batch invisible after restart")
    ctx.assume("the rows of INFEASIBLE_EXITS were confirmed by reading the pinned tree; each carries its reason in the evidence")
    return {
        "explanation": "path rules on the MIR CFGs of Writer::write, Writer::batch_write and the io_uring helper: NOEXIT between seal and install, must-not-reach for rejections, "
                       "edge-based publish/rollback discipline using the Ok/Err edges of every fallible call, an error-discipline rule for discarded write results and the encoder guard.",
    }
