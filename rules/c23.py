"""C23 - a segment is never written after the node holding it applied its sealing (partial, syntax tree)."""
import re
from .core import ast as A

BUCKET = "distributed-walrus/src/bucket.rs"
INTERNAL = "distributed-walrus/src/controller/internal.rs"
CTRL = "distributed-walrus/src/controller/mod.rs"

RULES = {
    "C23.1": "check and act in one critical section (ASTPATH): the lease test that authorises a write and the engine append must be atomic with respect to lease updates. Accepted idioms: "
             "(a) a read guard on the lease set is bound to a variable that is still live across the engine append, or (b) the lease test is executed after the per-key mutex was "
             "acquired AND update_leases acquires that same per-key mutex before removing a key. Check-then-lock-then-write with the lease guard released after the check is a violation",
    "C23.3": "the lease set pushed to the bucket is current: in NodeController::update_leases nothing is awaited between reading the applied metadata (owned_topics) and "
             "self.bucket.update_leases(..).await. A set computed before an await can be applied after a concurrent refresh has already revoked a lease for a segment whose "
             "sealing was applied in between; the stale set grants it again",
    "C23.4": "the bucket's lease set becomes exactly the set handed in (ASTPATH over Storage::update_leases): a path may return without touching the set only on the true branch "
             "of a test that the two sets are EQUAL; every other path must drop the leases that are not expected (retain by membership in the expected set, or a wholesale replacement) "
             "and add every expected one (a loop over the expected set whose every iteration inserts, or extend). A subset test on the fast path keeps a revoked lease alive: the node "
             "goes on writing into a segment it has sealed or handed over",
    "C23.2": "every engine write of distributed-walrus goes through Storage::append_by_key (who-may-call on append_for_topic / batch_append_for_topic), append_by_key takes the bucket "
             "guard first, and forward_append refreshes the leases before appending",
}


def check_expected_set_fresh(ctx, files, rid="C23.3"):
    """NodeController::update_leases: nothing may be awaited between reading the applied metadata (owned_topics) and handing
    the resulting lease set to the bucket"""
    f = files[CTRL]
    try:
        ul = f.fn("update_leases")
    except A.AnchorMissingAst as e:
        ctx.anchor_missing(rid, str(e))
        return
    ctx.saw_fn("NodeController::update_leases", CTRL, len(list(A.walk(ul["body"]))))
    try:
        paths = A.block_paths(ul["body"])
    except A.TooManyPaths:
        ctx.violate(rid, "NodeController::update_leases", "too-many-paths", CTRL, ul["line"], "too many paths: fail closed")
        return
    n = 0
    bad = None
    for p in paths:
        read_at = None
        awaits_since = []
        for k, node in p.events:
            if k == "mcall" and node["method"] == "owned_topics":
                read_at = node
                awaits_since = []
            elif k == "await" and read_at is not None:
                inner = A.unwrap(node)
                if isinstance(inner, dict) and inner.get("k") == "mcall" and inner["method"] == "update_leases" and "bucket" in A.text(inner["recv"]):
                    n += 1
                    if awaits_since and bad is None:
                        bad = (read_at, awaits_since[0])
                    read_at = None
                else:
                    awaits_since.append(node)
    if n == 0:
        ctx.anchor_missing(rid, "owned_topics(..) followed by self.bucket.update_leases(..).await in NodeController::update_leases")
    elif bad:
        ctx.violate(rid, "NodeController::update_leases", "lease-set-stale-when-applied", CTRL, bad[1]["line"],
                    "the lease set is computed from the applied metadata (line %s) and only handed to the bucket after `%s` has been awaited: a rollover applied in between - and "
                    "already acted on by a concurrent refresh - is undone, the sealed segment's lease is granted again and the next append is written into it"
                    % (bad[0]["line"], A.text(bad[1])[:60]))
    else:
        ctx.ok(rid, "NodeController::update_leases", "the lease set is handed to the bucket without awaiting anything after it was read from the applied metadata", CTRL, ul["line"])


def _norm_set(t):
    return re.sub(r"[\s\*&()]", "", t)


def check_lease_set_exact(ctx, files, rid="C23.4"):
    b = files[BUCKET]
    try:
        ul = b.fn("update_leases")
    except A.AnchorMissingAst as e:
        ctx.anchor_missing(rid, str(e))
        return
    F = "Storage::update_leases"
    ctx.saw_fn(F, BUCKET, len(list(A.walk(ul["body"]))))
    exp = None
    for p_ in ul.get("params") or []:
        if isinstance(p_, dict) and "HashSet" in (p_.get("ty") or ""):
            exp = p_["name"]
    if exp is None:
        ctx.anchor_missing(rid, "the expected-set parameter of Storage::update_leases")
        return
    try:
        paths = A.block_paths(ul["body"])
    except A.TooManyPaths:
        ctx.violate(rid, F, "too-many-paths", BUCKET, ul["line"], "too many paths: fail closed")
        return
    # names bound to the lease set's guards
    guards = set()
    for n in A.walk(ul["body"]):
        if isinstance(n, dict) and n.get("k") == "let" and n.get("init") is not None and "active_leases" in A.text(n["init"]):
            guards.add(re.sub(r"^mut\s+", "", (n.get("pat") or "").strip()))
    if not guards:
        ctx.anchor_missing(rid, "a guard of active_leases in Storage::update_leases")
        return
    named = {}
    for n in A.walk(ul["body"]):
        if isinstance(n, dict) and n.get("k") == "let" and n.get("init") is not None and re.match(r"^\w+$", (n.get("pat") or "").strip()):
            named[n["pat"].strip()] = n["init"]

    def cond_text(c):
        t = _norm_set(A.text(c))
        if t in named:      # a named bool: `let in_sync = *leases == *expected; if in_sync { return; }`
            t = _norm_set(A.text(named[t]))
        # the lease set read in place: `*self.active_leases.read().await == *expected`
        t = re.sub(r"self\.active_leases\.(read|write)\.await", "LEASES", t)
        for g in guards:
            t = re.sub(r"\b%s\b" % re.escape(g), "LEASES", t)
        return t
    n_fast = n_slow = 0
    for p in paths:
        muts = [nd for k, nd in p.events if k == "mcall" and A.text(nd["recv"]).lstrip("*") in guards and nd["method"] in ("retain", "insert", "extend", "clear", "remove", "drain")]
        assigns = [nd for k, nd in p.events if k == "assign" and _norm_set(A.text(nd.get("left") or nd.get("l") or {})) in guards]
        if not muts and not assigns:
            # the set is left as it is: only under `leases == expected`
            n_fast += 1
            eq = False
            for c, br in p.conds:
                if c.get("k") == "if" and br == "then":
                    t = cond_text(c["cond"])
                    if t in ("LEASES==%s" % exp, "%s==LEASES" % exp):
                        eq = True
                if c.get("k") == "if" and br == "else":
                    t = cond_text(c["cond"])
                    if t in ("LEASES!=%s" % exp, "%s!=LEASES" % exp):
                        eq = True
            if eq:
                ctx.ok(rid, F, "the set is left untouched only when it equals the expected set", BUCKET, ul["line"])
            else:
                conds = [A.text(c["cond"])[:70] + ":" + str(br) for c, br in p.conds if c.get("k") == "if"]
                ctx.violate(rid, F, "lease-set-kept-without-equality", BUCKET, ul["line"],
                            "update_leases can return without changing the lease set on a path that has not established that the set equals the expected one (path conditions: %s): "
                            "a lease that is no longer expected - the segment was sealed or handed over - stays active and appends into that segment are still admitted" % (conds or "none"))
            continue
        n_slow += 1
        replaced = any(_norm_set(A.text(nd.get("right") or nd.get("r") or {})).startswith(exp + ".clone") for nd in assigns)
        drops = replaced
        for nd in muts:
            if nd["method"] == "retain":
                a0 = nd["args"][0] if nd.get("args") else None
                if isinstance(a0, dict) and a0.get("k") == "closure" and isinstance(a0.get("body"), dict):
                    bd = a0["body"]
                    if bd.get("k") == "block" and len(bd.get("stmts", [])) == 1 and isinstance(bd["stmts"][0].get("e"), dict):
                        bd = bd["stmts"][0]["e"]
                    ct = re.sub(r"\s", "", A.text(bd))
                    par = re.escape(str((a0.get("inputs") or ["?"])[0]).lstrip("&"))
                    # exactly the membership test on the closure's own parameter
                    if re.match(r"^%s\.contains\(&?\*?%s\)$" % (exp, par), ct):
                        drops = True
            if nd["method"] == "clear":
                drops = True
        adds = replaced
        for nd in muts:
            if nd["method"] == "extend" and nd.get("args") and re.match(r"^%s(\.iter\(\)|\.into_iter\(\))?(\.cloned\(\)|\.map\(\|\w+\|\w+\.clone\(\)\))?$|^%s\.clone\(\)$" % (exp, exp), re.sub(r"\s", "", A.text(nd["args"][0]))):
                adds = True
        # a loop over the expected set whose every iteration inserts
        for k, nd in p.events:
            if k == "loop-iter" and nd.get("k") == "for" and re.match(r"^&?%s(\.iter\(\)|\.into_iter\(\))?$" % exp, re.sub(r"\s", "", A.text(nd.get("iter") or {}))):
                body_paths = A.block_paths(nd["body"])
                if body_paths and all(any(k2 == "mcall" and n2["method"] == "insert" and A.text(n2["recv"]).lstrip("*") in guards for k2, n2 in bp.events) for bp in body_paths):
                    adds = True
        if any(k == "loop-skip" and nd.get("k") == "for" and re.match(r"^&?%s(\.iter\(\)|\.into_iter\(\))?$" % exp, re.sub(r"\s", "", A.text(nd.get("iter") or {}))) for k, nd in p.events):
            continue        # the zero-iteration twin of the insert loop: judged on the one-iteration path
        if drops and adds:
            ctx.ok(rid, F, "unexpected leases are dropped and every expected one is added", BUCKET, ul["line"])
        else:
            ctx.violate(rid, F, "lease-set-not-made-exact:%s" % ("no-drop" if not drops else "no-add"), BUCKET, ul["line"],
                        "a path of update_leases changes the lease set without %s: afterwards the set is not the expected one"
                        % ("removing the leases that are not expected" if not drops else "adding every expected lease"))
    # who may write the lease set: update_leases only.  A lease granted anywhere else (a `grant_lease` used by a retry path)
    # is granted without the judgement of the applied metadata that update_leases' caller makes for the whole set
    writers = []
    for it in b.items:
        if it.get("k") != "fn" or not isinstance(it.get("body"), dict):
            continue
        for n in A.walk(it["body"]):
            if isinstance(n, dict) and n.get("k") == "mcall" and n.get("method") in ("write", "try_write", "blocking_write") and "active_leases" in A.text(n.get("recv") or {}):
                writers.append((it["name"], n.get("line")))
    others = [w for w in writers if w[0] != "update_leases"]
    if others:
        ctx.violate(rid, "Storage::%s" % others[0][0], "lease-set-written-outside-update_leases", BUCKET, others[0][1],
                    "%s takes the write lock of the lease set: leases are granted or dropped outside update_leases, i.e. not as the set computed from the applied metadata - a lease "
                    "for a sealed segment can come back (e.g. on an append retry) and the node writes into the segment it has sealed" % others[0][0])
    elif writers:
        ctx.ok(rid, F, "the lease set is written only by update_leases", BUCKET, writers[0][1])
    ctx.floor(rid, "paths of Storage::update_leases that leave the set untouched", n_fast, 1)
    ctx.floor(rid, "paths of Storage::update_leases that rewrite the set", n_slow, 1)


def check_lease_refresh(ctx, files, rid):
    """every path of forward_append that reaches the append has executed update_leases().await before it"""
    fa = files[INTERNAL].fn("forward_append")
    ctx.saw_fn("NodeController::forward_append", INTERNAL, len(list(A.walk(fa["body"]))))
    try:
        paths = A.block_paths(fa["body"])
    except A.TooManyPaths:
        ctx.violate(rid, "NodeController::forward_append", "too-many-paths", INTERNAL, fa["line"], "forward_append has too many paths to enumerate: fail closed")
        return
    n = 0
    bad = None
    for p in paths:
        seen_refresh = False
        for k, node in p.events:
            if k == "mcall" and A.is_mcall(node, "update_leases") and A.text(node["recv"]) == "self":
                seen_refresh = True
            elif k == "mcall" and node["method"] in ("append_with_retry", "append_by_key"):
                n += 1
                if not seen_refresh and bad is None:
                    bad = (node, [A.text(c["cond"])[:60] + ":" + str(br) for c, br in p.conds if c.get("k") == "if"])
    if n == 0:
        ctx.anchor_missing(rid, "the append (append_with_retry) in forward_append")
    elif bad:
        ctx.violate(rid, "NodeController::forward_append", "no-lease-refresh-before-append", INTERNAL, bad[0]["line"],
                    "forward_append can reach the append without having refreshed the leases from the applied metadata (path conditions: %s): a lease for a segment whose sealing "
                    "this node has already applied stays trusted until the periodic lease tick, so an append routed by a lagging node is written into the sealed segment and "
                    "acknowledged" % (bad[1] or "none"))
    else:
        ctx.ok(rid, "NodeController::forward_append", "leases are refreshed from the applied metadata on every path before the append (%d path(s))" % n, INTERNAL, fa["line"])


def check_lease_critical_section(ctx, files, rid):
    b = files[BUCKET]
    try:
        abk = b.fn("append_by_key")
        try:
            lock = b.fn("lock", ctx="BucketGuard")
        except A.AnchorMissingAst:
            # by role: the one function of bucket.rs (other than ensure_lease) that tests the lease and takes the key mutex
            cands = [it for it in b.items if it["k"] == "fn" and it["name"] != "ensure_lease" and any(A.is_mcall(n_, "ensure_lease") for n_ in A.walk(it["body"]))
                     and any(A.is_mcall(n_, "lock_owned") or A.is_mcall(n_, "lock_for_key") for n_ in A.walk(it["body"]))]
            # a candidate that only contains another candidate's code (inlined helper) is dropped
            names_ = {c_["name"] for c_ in cands}
            cands = [c_ for c_ in cands if not any(n_.get("k") == "inlined" and n_.get("name") in names_ - {c_["name"]} for n_ in A.walk(c_["body"]))]
            if len(cands) != 1:
                raise
            lock = cands[0]
        ens = b.fn("ensure_lease")
        upd = b.fn("update_leases")
    except A.AnchorMissingAst as e:
        ctx.anchor_missing(rid, str(e))
        return
    for n_, f_ in (("Storage::append_by_key", abk), ("BucketGuard::lock", lock), ("Storage::ensure_lease", ens), ("Storage::update_leases", upd)):
        ctx.saw_fn(n_, BUCKET, len(list(A.walk(f_["body"]))))
    # ---- C23.1 -----------------------------------------------------------------------
    # where is the lease tested, relative to the per-key lock acquisition?
    lock_stmts = lock["body"]["stmts"]
    idx_ensure = idx_lockowned = None
    for i, st in enumerate(lock_stmts):
        for n in A.walk(st):
            if A.is_mcall(n, "ensure_lease") and idx_ensure is None:
                idx_ensure = i
            if (A.is_mcall(n, "lock_owned") or A.is_mcall(n, "lock")) and idx_lockowned is None and "lock_for_key" not in A.text(n):
                idx_lockowned = i
    # idiom (a): a lease read guard bound in append_by_key / BucketGuard and live across the engine call
    idiom_a = False
    for fn in (abk, lock):
        for st in fn["body"]["stmts"]:
            if st.get("k") == "let" and st.get("init") is not None and re.search(r"active_leases\.read\(\)\.await", A.text(st["init"])) and not st["pat"].strip().startswith("_ ") and st["pat"].strip() != "_":
                # bound to a named variable in the function that performs the append (or stored in the guard struct)
                if fn is abk:
                    idiom_a = True
    guard_struct = [it for it in b.items if it["k"] == "struct" and it["name"] == "BucketGuard"]
    if guard_struct and any("RwLockReadGuard" in fld["ty"] or "OwnedRwLockReadGuard" in fld["ty"] for fld in guard_struct[0]["fields"]):
        idiom_a = True
    # idiom (b): ensure after lock + update_leases takes per-key locks
    upd_takes_key_lock = any(A.is_mcall(n, "lock_for_key") or A.is_mcall(n, "lock_owned") for n in A.walk(upd["body"]))
    idiom_b = idx_ensure is not None and idx_lockowned is not None and idx_ensure > idx_lockowned and upd_takes_key_lock
    # does ensure_lease return while still holding the read guard? (it cannot: the guard is a local)
    ens_guard_local = any(st.get("k") == "let" and re.search(r"active_leases\.read\(\)\.await", A.text(st.get("init") or {})) for st in ens["body"]["stmts"])
    if idiom_a:
        ctx.ok(rid, "BucketGuard::lock", "the lease read guard is held across the engine append", BUCKET, lock["line"])
    elif idiom_b:
        ctx.ok(rid, "BucketGuard::lock", "the lease is re-checked under the per-key mutex, which update_leases also takes", BUCKET, lock["line"])
    else:
        order = "ensure_lease (statement %s) before the key mutex (statement %s)" % (idx_ensure, idx_lockowned) if idx_ensure is not None and idx_lockowned is not None else "?"
        ctx.violate(rid, "BucketGuard::lock", "lease-check-outside-the-write-critical-section", BUCKET, lock["line"],
                    "the lease is tested in ensure_lease, whose read guard is a local that is released when it returns (%s), then the per-key mutex is taken and the engine is written; "
                    "update_leases only takes the lease set's write lock%s. Schedule: T1 passes ensure_lease for segment k; the node applies the rollover and the lease refresh removes "
                    "k; T1 takes the key mutex and appends into the sealed segment" % (order, "" if not upd_takes_key_lock else " (and a key mutex)"))
    # ensure_lease really tests membership and rejects
    tests = [n for n in A.walk(ens["body"]) if n.get("k") == "if" and "contains" in A.text(n["cond"])]
    rejects = [n for n in A.walk(ens["body"]) if A.is_macro(n, "bail") or (n.get("k") == "return" and "Err" in A.text(n.get("e") or {}))]
    # by paths: a path that ends Ok has taken the `contains` branch; a path on which the key is absent ends in a rejection
    ok_form = False
    try:
        eps = A.block_paths(ens["body"])
        verdicts = []
        for p_ in eps:
            has = None
            for cn, br in p_.conds:
                if cn.get("k") == "if" and "contains" in A.text(cn["cond"]):
                    neg = A.text(cn["cond"]).startswith("!")
                    has = (br == "then") != neg
            rejected = p_.exit == "err" or any(k_ == "macro" and A.is_macro(nd_, "bail") for k_, nd_ in p_.events) or any(k_ == "return" and "Err" in A.text(nd_.get("e") or {}) for k_, nd_ in p_.events)
            if has is not None:
                verdicts.append((has, rejected))
        ok_form = bool(verdicts) and all(rej == (not has) for has, rej in verdicts) and any(not has for has, rej in verdicts)
    except A.TooManyPaths:
        ok_form = False
    if tests and rejects and ok_form:
        ctx.ok(rid, "Storage::ensure_lease", "a key that is not in the lease set is rejected", BUCKET, tests[0]["line"])
    else:
        ctx.violate(rid, "Storage::ensure_lease", "lease-test-missing", BUCKET, ens["line"], "ensure_lease does not reject keys that are absent from the lease set")
    # update_leases removes keys that are no longer expected
    if any(A.is_mcall(n, "retain") for n in A.walk(upd["body"])) or any(A.is_mcall(n, "clear") for n in A.walk(upd["body"])):
        ctx.ok(rid, "Storage::update_leases", "leases that are no longer expected are dropped", BUCKET, upd["line"])
    else:
        ctx.violate(rid, "Storage::update_leases", "stale-leases-kept", BUCKET, upd["line"], "update_leases never removes a lease: a sealed segment stays writable")


def run(ctx):
    for k, v in RULES.items():
        ctx.rule(k, v)
    files = A.load(ctx, [BUCKET, INTERNAL, CTRL])
    b = files[BUCKET]
    try:
        abk = b.fn("append_by_key")
        try:
            lock = b.fn("lock", ctx="BucketGuard")
        except A.AnchorMissingAst:
            # by role: the one function of bucket.rs (other than ensure_lease) that tests the lease and takes the key mutex
            cands = [it for it in b.items if it["k"] == "fn" and it["name"] != "ensure_lease" and any(A.is_mcall(n_, "ensure_lease") for n_ in A.walk(it["body"]))
                     and any(A.is_mcall(n_, "lock_owned") or A.is_mcall(n_, "lock_for_key") for n_ in A.walk(it["body"]))]
            # a candidate that only contains another candidate's code (inlined helper) is dropped
            names_ = {c_["name"] for c_ in cands}
            cands = [c_ for c_ in cands if not any(n_.get("k") == "inlined" and n_.get("name") in names_ - {c_["name"]} for n_ in A.walk(c_["body"]))]
            if len(cands) != 1:
                raise
            lock = cands[0]
        ens = b.fn("ensure_lease")
        upd = b.fn("update_leases")
        lfk = b.fn("lock_for_key")
    except A.AnchorMissingAst as e:
        ctx.anchor_missing("C23.anchor", str(e))
        return {"explanation": "anchor missing"}
    for n_, f_ in (("Storage::append_by_key", abk), ("BucketGuard::lock", lock), ("Storage::ensure_lease", ens), ("Storage::update_leases", upd)):
        ctx.saw_fn(n_, BUCKET, len(list(A.walk(f_["body"]))))
    check_lease_critical_section(ctx, files, "C23.1")
    # ---- C23.2 -----------------------------------------------------------------------
    first = abk["body"]["stmts"][0] if abk["body"]["stmts"] else None
    lock_names = {"BucketGuard::lock", lock["name"]}
    init_nodes = list(A.walk(first.get("init") or {})) if first is not None and first.get("k") == "let" else []
    takes_guard = any("BucketGuard::lock" in A.text(n_) for n_ in init_nodes[:1]) or any(
        (n_.get("k") == "inlined" and n_.get("name") in lock_names) or (n_.get("k") == "mcall" and n_["method"] in lock_names) or (n_.get("k") == "call" and n_["f"].get("k") == "path" and n_["f"]["p"].split("::")[-1] in lock_names)
        for n_ in init_nodes)
    if first is not None and first.get("k") == "let" and takes_guard and first["pat"].strip() not in ("_",):
        # the guard must be bound to a name (a `_` pattern would drop it immediately)
        ctx.ok("C23.2", "Storage::append_by_key", "takes the bucket guard first and keeps it bound (`%s`) across the append" % first["pat"].strip(), BUCKET, first["line"])
    else:
        ctx.violate("C23.2", "Storage::append_by_key", "append-without-bucket-guard", BUCKET, abk["line"], "append_by_key does not hold the bucket guard across the engine append")
    eng = [n for n in A.walk(abk["body"]) if A.is_mcall(n, "batch_append_for_topic") or A.is_mcall(n, "append_for_topic")]
    if eng and first is not None and eng[0]["line"] > first["line"]:
        ctx.ok("C23.2", "Storage::append_by_key", "the engine append happens after the guard is taken", BUCKET, eng[0]["line"])
    # who may write the engine
    n_writers = 0
    for rel, f in files.items():
        for it in f.items:
            if it["k"] != "fn":
                continue
            for n in A.walk(it["body"]):
                if (A.is_mcall(n, "batch_append_for_topic") or (A.is_mcall(n, "append_for_topic") and re.search(r"engine|walrus|wal\b", A.text(n["recv"])))):
                    n_writers += 1
                    if rel == BUCKET and it["name"] == "append_by_key":
                        continue
                    ctx.violate("C23.2", it["name"], "engine-write-outside-append_by_key", rel, n["line"], "%s writes the engine directly, bypassing the lease check" % it["name"])
    if n_writers >= 1:
        ctx.ok("C23.2", "distributed-walrus", "the only engine write is in Storage::append_by_key", BUCKET, abk["line"])
    check_lease_refresh(ctx, files, "C23.2")
    check_expected_set_fresh(ctx, files, "C23.3")
    check_lease_set_exact(ctx, files, "C23.4")
    ctx.assume("distributed-walrus cannot be type-checked offline: syntax-tree analysis of bucket.rs / controller; tokio RwLock/Mutex semantics assumed")
    ctx.assume("NOT decided: the gap between applying the rollover in the metadata state machine and the next lease refresh on other schedules")
    return {
        "explanation": "structural check of the two accepted idioms for making the lease test and the engine append one critical section, who-may-call for engine writes and ordering "
                       "obligations on the append entry points.",
    }
