"""C14 - a namespace key always maps to a private directory strictly inside the data dir.

Decided for *all* key strings by abstract interpretation of the sanitizer (CHARABS) plus
who-may-push rules on the path construction (WMC/SLICE)."""
import re
from .core import common
from .core.mir import AnchorMissing, op_place, op_local, strip_generics, callee_name, Site
from .core.absint import char_closure_image, Undecided, Sym, Interp, char_call_model, char_sym_binop, char_sym_switch, char_atoms
from .core.slicing import origins, origin_calls, origin_args

SEPARATORS = {ord("/"): "'/'", ord("\\"): "'\\\\'", 0: "NUL"}
DOT = ord(".")

RULES = {
    "C14.1": "CHARABS: exact image of the sanitizer's char->char mapping over a finite partition of char (128 ASCII singletons + 5 non-ASCII classes); '/', '\\\\' and NUL must not be in the image",
    "C14.2": "fallback discipline: if '.' is in the image then the emptiness test that selects the fallback must trim '.' (otherwise the dot-only keys '.' and '..' are returned verbatim); the fallback value starts with a literal that is neither '.' nor a separator and contains no separator; every path on the 'looks empty' edge reaches the fallback assignment before returning",
    "C14.3": "who-may-push: every PathBuf::push / Path::join in the crate is inside the path manager (src/wal/paths.rs) and its operand is the unchanged result of sanitize_namespace (views and copies only - any further transformation is reported), now_millis_str (digits), a literal, or in index_path a literal-suffixed name whose callers pass literals; each of the three constructors reaches a sanitised push; WalPathManager.root is written only by the constructors",
}

LEMMA = ("If the returned string is non-empty, contains none of '/', '\\\\', NUL and is not made of dots only, it is exactly one "
         "normal path component, so root.push(result) names a directory strictly inside root (not root itself, not a parent). "
         "C14.1 gives the character condition for the mapped string; C14.2 gives non-emptiness and not-dot-only (a string all of "
         "whose chars are in the trim set takes the fallback, whose value starts with a literal free of dots and separators); "
         "C14.3 gives that no path component reaches the filesystem without passing through the sanitizer.")


def find_map_closure(facts, fn):
    """closure passed to Iterator::map in sanitize fn whose result is collected and returned"""
    for s in fn.calls(re.compile(r"Iterator::map$")):
        for a in s.node["args"]:
            l = op_local(a)
            if l is None:
                continue
            d = fn.def_rvalue(l)
            if d and d[0] == "rv" and d[1]["k"] == "agg" and d[1].get("akind") == "closure":
                return facts.bodies.get(d[1]["name"]), s
        # `.map(sanitize_char)`: a named function handed over as the mapping
        for a in s.node["args"][1:]:
            a = fn.resolve_copy(a)
            if a.get("k") == "const" and a.get("fn"):
                hb = facts.bodies.get(a["fn"]) or next((bb_ for nn, bb_ in facts.bodies.items() if strip_generics(nn) == strip_generics(str(a["fn"])) or nn.endswith("::" + str(a["fn"]).split("::")[-1])), None)
                if hb is not None and hb.arg_count == 1 and hb.local_ty(1) == "char":
                    _FN_MAPPERS.add(hb.name)
                    return hb, s
    return None, None


_FN_MAPPERS = set()


def trim_set_of(facts, fn, trim_site):
    """The set of atoms trimmed by a `trim_matches(pat)` call: pat may be a char constant,
    an array/slice of char constants, or a char->bool closure."""
    pat = trim_site.node["args"][1]
    if pat.get("k") == "const" and "val" in pat:
        return {pat["val"]}
    l = op_local(pat)
    if l is not None:
        d = fn.def_rvalue(l)
        # follow refs/copies
        hops = 0
        while d and d[0] == "rv" and d[1]["k"] in ("ref", "use", "cast") and hops < 6:
            hops += 1
            if d[1]["k"] == "ref":
                nl = d[1]["place"]["l"]
            else:
                nl = op_local(d[1]["op"])
                if nl is None:
                    break
            d = fn.def_rvalue(nl)
        if d and d[0] == "rv" and d[1]["k"] == "agg":
            if d[1].get("akind") == "array":
                vals = set()
                for o in d[1]["ops"]:
                    if o.get("k") == "const" and "val" in o:
                        vals.add(o["val"])
                    else:
                        raise Undecided("non-constant char in trim array")
                return vals
            if d[1].get("akind") == "closure":
                cb = facts.bodies.get(d[1]["name"])
                if cb is None:
                    raise Undecided("trim closure body not found")
                img = char_closure_image(cb)
                return {a for a, r in img.items() if r is True}
    raise Undecided("unrecognised trim pattern operand")


def find_push_loop(ctx, facts, fn, F):
    """the sanitizer written as a loop: `for c in key.chars() { out.push(<f(c)>) }` with `out` the returned String.
    Returns the image atom -> pushed value, or None if the function has no such loop."""
    from .core.absint import char_region_image
    from .core.cond import all_tests, borrowed_local
    pushes = fn.calls(re.compile(r"string::String::push$|String::push$"))
    nexts = []
    for c_ in fn.calls(re.compile(r"Chars.*Iterator>::next$|str::Chars.*::next$|Iterator::next$")):
        rsrc, _, _ = origins(fn, c_.node["args"][0])
        chars_calls = [o for o in rsrc if o.kind == "call" and re.search(r"str>?::chars$", o.what)]
        if len(chars_calls) == 1:
            src2, _, _ = origins(fn, chars_calls[0].site.node["args"][0])
            if (not origin_calls(src2)) and len(origin_args(src2)) == 1:
                nexts.append(c_)
    if len(pushes) != 1 or len(nexts) != 1:
        return None
    push, nxt = pushes[0], nexts[0]
    N = nxt.node["dest"]["l"]
    some_edge = None
    for T in all_tests(fn):
        if T.kind == "discr" and not T.place["p"] and T.place["l"] == N:
            some_edge = T.variant_edges.get(1) or ((T.bb, T.otherwise) if T.otherwise is not None and 0 in T.variant_edges else None)
    if some_edge is None or not fn.edge_guards(some_edge, push.bb):
        return None
    # the String pushed into is the one returned, it starts empty and nothing else writes it
    S = borrowed_local(fn, push.node["args"][0])
    ret_locals = {op_local(st_["rv"]["op"]) for s_, st_ in fn.assigns() if st_["place"]["l"] == 0 and not st_["place"]["p"] and st_["rv"]["k"] == "use"} - {None}
    if S is None or S not in ret_locals:
        ctx.violate("C14.1", F, "loop-result-not-returned", fn.relfile, push.line, "the string the sanitising loop fills is not the one sanitize_namespace returns")
        return None
    inits = [callee_name(n_) for s_, k_, n_ in fn.defs.get(S, []) if k_ == "call"]
    others = [c_ for c_ in fn.calls(re.compile(r"String::(push_str|insert|insert_str|extend|push)$|::write_str$|::write_fmt$")) if c_ is not push and (c_.bb, c_.idx) != (push.bb, push.idx) and borrowed_local(fn, c_.node["args"][0]) == S]
    if not inits or not all(re.search(r"String::(new|with_capacity)$", i_) for i_ in inits) or others:
        ctx.violate("C14.1", F, "loop-result-has-other-writers", fn.relfile, push.line, "the sanitised string is also written outside the per-character push (initialised by %s, %d other writer(s))" % (inits, len(others)))
        return None
    # flags carried round the loop (`only_filler = only_filler && ..`) are read before the push: the mapping is evaluated for
    # each value of such a bool, and must not depend on it
    carried = {}
    img = None
    for _ in range(4):
        combos = [dict()]
        for l_ in carried:
            combos = [dict(list(c_.items()) + [(l_, v_)]) for c_ in combos for v_ in (False, True)]
        try:
            imgs = [char_region_image(fn, some_edge[1], lambda a, c_=c_: dict([(N, {"__discr": 1, "0": a}), (1, ("key",))] + list(c_.items())), r"String::push$") for c_ in combos]
        except Undecided as e:
            m_ = re.search(r"read of unset local _(\d+)", str(e))
            if m_ and fn.local_ty(int(m_.group(1))) == "bool" and int(m_.group(1)) not in carried and len(carried) < 3:
                carried[int(m_.group(1))] = True
                continue
            ctx.violate("C14.1", F, "closure-undecided", fn.relfile, push.line, "the sanitising loop body cannot be interpreted over the char partition (%s): fail closed" % e)
            return None
        if any(i_ != imgs[0] for i_ in imgs[1:]):
            ctx.violate("C14.1", F, "closure-undecided", fn.relfile, push.line, "what the loop pushes for a character depends on a flag carried from earlier characters: fail closed")
            return None
        img = imgs[0]
        break
    if img is None:
        ctx.violate("C14.1", F, "closure-undecided", fn.relfile, push.line, "the sanitising loop body cannot be interpreted over the char partition: fail closed")
        return None
    ctx.ok("C14.1", F, "the sanitiser is a loop over key.chars() that pushes one mapped character per input character into the returned string", fn.relfile, push.line)
    return img


def check_sanitizer(ctx, facts, fn_name="wal::config::sanitize_namespace"):
    fn = facts.body(fn_name)
    ctx.saw_body(fn)
    F = common.short_fn(fn.name)
    clo, map_site = find_map_closure(facts, fn)
    mapfn = fn
    if clo is None:
        # the character mapping may live in a helper that sanitize_namespace calls with its key
        for c_ in fn.calls():
            hb = facts.bodies.get(c_.node.get("callee") or "") or next((bb_ for nn, bb_ in facts.bodies.items() if strip_generics(nn) == strip_generics(c_.node.get("callee") or "")), None)
            if hb is None or hb.j.get("derived") or not str(hb.j.get("ret_ty", "")).endswith("String"):
                continue
            hclo, hsite = find_map_closure(facts, hb)
            if hclo is None:
                continue
            asrc, _, _ = origins(fn, c_.node["args"][0]) if c_.node["args"] else (set(), None, None)
            if origin_calls(asrc) or len(origin_args(asrc)) != 1:
                ctx.violate("C14.1", F, "map-source", fn.relfile, c_.line, "the mapping helper %s is not applied to the key argument itself" % common.short_fn(hb.name))
            clo, map_site, mapfn = hclo, hsite, hb
            ctx.saw_body(hb)
            break
    loop_img = None
    if clo is None:
        loop_img = find_push_loop(ctx, facts, fn, F)
    if clo is None and loop_img is None:
        ctx.anchor_missing("C14.1", "sanitizer map closure", "sanitize_namespace no longer maps its characters through a closure passed to Iterator::map (itself or in a helper it calls); CHARABS has nothing to interpret")
        return
    fn_outer = fn
    if loop_img is not None:
        img = loop_img
        clo = fn            # reports below name the function that holds the loop
    else:
        ctx.saw_body(clo)
        # the mapped iterator must be the chars() of the key argument and the result collect()ed
        fn = mapfn
        src, _, _ = origins(fn, map_site.node["args"][0])
        chars_calls = [o for o in src if o.kind == "call" and re.search(r"str>?::chars$", o.what)]
        ok_src = False
        if len(chars_calls) == 1 and len(origin_calls(src)) == 1:
            src2, _, _ = origins(fn, chars_calls[0].site.node["args"][0])
            ok_src = (not origin_calls(src2)) and len(origin_args(src2)) == 1
        if not ok_src:
            ctx.violate("C14.1", F, "map-source", fn.relfile, map_site.line, "the mapped iterator is not `<the key argument>.chars()`")
        else:
            ctx.ok("C14.1", F, "mapped iterator is key.chars()", fn.relfile, map_site.line)
        # the collected string must be the map's result (no filter/chain in between that could re-introduce characters)
        for s in fn.calls(re.compile(r"Iterator::collect$")):
            csrc, _, _ = origins(fn, s.node["args"][0])
            if origin_calls(csrc) != {"std::iter::Iterator::map"}:
                ctx.violate("C14.1", F, "collect-source", fn.relfile, s.line, "collect() is fed by %s, expected the mapped iterator only" % sorted(origin_calls(csrc)))
            else:
                ctx.ok("C14.1", F, "collect() is fed by the mapped iterator", fn.relfile, s.line)
        try:
            img = char_closure_image(clo, 1 if clo.name in _FN_MAPPERS else 2)
        except Undecided as e:
            ctx.violate("C14.1", F, "closure-undecided", clo.relfile, clo.line, "sanitizer closure cannot be interpreted over the char partition (%s): fail closed" % e)
            return
    image = set()
    for a, r in img.items():
        if isinstance(r, bool):
            ctx.violate("C14.1", F, "closure-type", clo.relfile, clo.line, "closure returns bool, expected char")
            return
        image.add(r)
    kept = sorted(chr(a) for a, r in img.items() if isinstance(a, int) and r == a)
    ctx.note("sanitizer keeps (identity): %r; everything else maps to %r" % ("".join(kept), sorted({(chr(r) if isinstance(r, int) else r.name) for a, r in img.items() if r != a})))
    for cp, nm in SEPARATORS.items():
        if cp in image:
            srcs = [a for a, r in img.items() if r == cp]
            ctx.violate("C14.1", F, "image-contains-%s" % nm.strip("'"), clo.relfile, clo.line,
                        "the sanitizer can emit %s (from input class %s): the result may contain a path separator" % (nm, srcs[:3]))
        else:
            ctx.ok("C14.1", F, "image excludes %s" % nm, clo.relfile, clo.line, "decided over %d atoms" % len(img))
    nonascii_ok = all((not isinstance(r, Sym)) or True for r in image)
    fn = fn_outer
    # C14.2 ---------------------------------------------------------------------------
    ret_local = None
    # find the local returned: `_0 = move _X`
    for site, st in fn.assigns():
        if st["place"]["l"] == 0 and not st["place"]["p"] and st["rv"]["k"] == "use":
            ret_local = op_local(st["rv"]["op"])
    if ret_local is None:
        ctx.anchor_missing("C14.2", "returned local of sanitize_namespace")
        return
    # the emptiness test: switch on is_empty(trim_matches(&ret_local, PAT)) (or is_empty(&ret_local))
    tests = []
    for s in fn.calls(re.compile(r"str>?::is_empty$|String::is_empty$")):
        # which switch consumes it
        dl = s.node["dest"]["l"]
        for b in fn.live_blocks:
            t = fn.term(b)
            if t["k"] == "switch" and op_local(fn.resolve_copy(t["discr"])) == dl:
                tests.append((s, b))
    # or: `<result>.chars().all(|c| <c is a filler or a dot>)` - the same question asked per character
    all_sites = set()
    for s in fn.calls(re.compile(r"Iterator::all$")):
        rsrc, _, _ = origins(fn, s.node["args"][0])
        if not any(o.kind == "call" and re.search(r"str>?::chars$", o.what) for o in rsrc):
            continue
        dl = s.node["dest"]["l"]
        for b in fn.live_blocks:
            t = fn.term(b)
            if t["k"] == "switch" and op_local(fn.resolve_copy(t["discr"])) == dl:
                tests.append((s, b))
                all_sites.add((s.bb, s.idx))
    if not tests:
        if DOT in image or True:
            ctx.violate("C14.2", F, "no-emptiness-test", fn.relfile, fn.line,
                        "no `is_empty()` test selects a fallback: the empty key (and dot-only keys) would be returned verbatim")
        return
    for is_empty_site, sw_bb in tests:
        arg_src, _, _ = origins(fn, is_empty_site.node["args"][0], stop_calls=[r"trim_matches$", r"trim_start_matches$", r"trim_end_matches$"])
        trims = [o for o in arg_src if o.kind == "call" and re.search(r"trim_matches$", o.what)]
        try:
            if (is_empty_site.bb, is_empty_site.idx) in all_sites:
                T = trim_set_of(facts, fn, is_empty_site)      # the characters for which the predicate holds
            elif trims:
                T = trim_set_of(facts, fn, trims[0].site)
            else:
                T = set()
        except Undecided as e:
            ctx.violate("C14.2", F, "trim-set-undecided", fn.relfile, is_empty_site.line, "cannot determine the trim set (%s): fail closed" % e)
            continue
        Tn = sorted((chr(x) if isinstance(x, int) else x.name) for x in T)
        if DOT in image and DOT not in T:
            ctx.violate("C14.2", F, "dot-only-key-verbatim", fn.relfile, is_empty_site.line,
                        "'.' is in the sanitizer's image but not in the trim set %r of the fallback test: the keys \".\" and \"..\" are returned verbatim, "
                        "so the instance directory is the data dir itself or its parent" % (Tn,))
        else:
            ctx.ok("C14.2", F, "dot-only keys take the fallback", fn.relfile, is_empty_site.line, "trim set %r, '.' in image: %s" % (Tn, DOT in image))
        # fallback edge: 'true' successor of the switch -> all paths to return pass an assignment
        # of the returned local from a format!/String literal
        t = fn.term(sw_bb)
        true_tgt = t["otherwise"]
        fb_blocks = []
        fb_sites = []
        # the fallback may be assigned to the returned local or returned directly (`return format!(..)`)
        ret_locals = {op_local(st_["rv"]["op"]) for s_, st_ in fn.assigns() if st_["place"]["l"] == 0 and not st_["place"]["p"] and st_["rv"]["k"] == "use"} - {None}
        for rl in sorted(ret_locals):
            for site, kind, node in fn.defs.get(rl, []):
                if fn.dominates(true_tgt, site.bb) and not fn.is_cleanup(site.bb):
                    fb_blocks.append(site.bb)
                    if kind == "assign":
                        fb_sites.append((site, node))
                    else:
                        # defined by a call (std::fmt::format): judge the call's own operands
                        fb_sites.append((site, {"rv": {"k": "use", "op": {"k": "copy", "place": {"l": rl, "p": []}}}, "line": node.get("line")}))
        for c_ in fn.calls():
            if c_.node["dest"]["l"] == 0 and not c_.node["dest"]["p"] and fn.dominates(true_tgt, c_.bb) and not fn.is_cleanup(c_.bb):
                fb_blocks.append(c_.bb)
                fb_sites.append((c_, {"rv": {"k": "use", "op": {"k": "copy", "place": {"l": 0, "p": []}}}, "line": c_.line}))
        rets = fn.return_blocks()
        if not fb_blocks or not fn.must_pass([sw_bb], rets, fb_blocks, removed_edges=[(sw_bb, x[1]) for x in t["targets"]]):
            ctx.violate("C14.2", F, "fallback-not-assigned", fn.relfile, t["line"],
                        "a path from the 'looks empty' edge reaches the return without replacing the result by the fallback value")
            continue
        ctx.ok("C14.2", F, "looks-empty edge always assigns the fallback", fn.relfile, t["line"])
        for site, node in fb_sites:
            src, _, dsites = origins(fn, node["rv"]["op"], passthrough_extra=[r"^std::fmt::format$", r"fmt::Arguments.*::new"], stop_calls=[r"Argument.*::new_"])
            tmpl = [common.bytes_const(o.extra) for o in src if o.kind == "const" and o.extra is not None]
            tmpl = [x for x in tmpl if x is not None]
            strs = [o.what for o in src if o.kind == "const" and o.extra is not None and "str" in o.extra]
            lit = None
            if tmpl:
                pieces = common.fmt_template_pieces(tmpl[0])
                if pieces is None:
                    ctx.violate("C14.2", F, "fallback-template-undecided", fn.relfile, site.line, "format template uses an encoding the rule does not know: fail closed")
                    continue
                lit = pieces
            elif strs:
                lit = [s.encode() for s in strs]
            # string constants handed to the template as `{}` arguments (`format!("{}{:x}", PREFIX, n)`) are literals too
            const_args = {}
            for o in src:
                if o.kind == "call" and "Argument" in o.what and re.search(r"new_display$", o.what):
                    asrc, _, _ = origins(fn, o.site.node["args"][0])
                    cs_ = [x for x in asrc if x.kind == "const" and x.extra is not None and "str" in x.extra and str(x.extra.get("ty", "")).endswith("&str")]
                    al_ = op_local(o.site.node["args"][0])
                    # the slice over the argument tuple is not field-sensitive: the operand's own type decides which
                    # of the tuple's origins it is
                    if len(cs_) == 1 and al_ is not None and re.match(r"^&+(\'static )?str$", fn.local_ty(al_)) and not origin_args(asrc):
                        const_args[(o.site.bb, o.site.idx)] = cs_[0].extra["str"].encode()
            if lit and (lit[0] is None or len(lit[0]) == 0) and const_args and tmpl:
                # the template starts with an argument: accept when every Display argument is a string constant, and take
                # the first of them (in call order) as the prefix
                disp = [o for o in src if o.kind == "call" and "Argument" in o.what and re.search(r"new_display$", o.what)]
                if all((o.site.bb, o.site.idx) in const_args for o in disp):
                    firsts = sorted(const_args.items())
                    lit = [firsts[0][1]] + [v for k_, v in firsts[1:]] + [p_ for p_ in lit if p_]
            if not lit or lit[0] is None or len(lit[0]) == 0:
                ctx.violate("C14.2", F, "fallback-prefix", fn.relfile, site.line, "the fallback value does not start with a literal prefix")
                continue
            first = lit[0]
            bad = [c for piece in lit if piece for c in piece if c in SEPARATORS]
            if first[0] == DOT or first[0] in SEPARATORS or bad:
                ctx.violate("C14.2", F, "fallback-literal", fn.relfile, site.line, "fallback literal %r starts with '.'/separator or contains a separator" % (first,))
                continue
            # formatted arguments must be integers rendered by hex/display
            fmts = {o.what for o in src if o.kind == "call" and "Argument" in o.what}
            okf = all(re.search(r"new_(lower_hex|upper_hex|display|octal|binary)$", f) for f in fmts)
            argtys_ok = True
            for o in src:
                if o.kind == "call" and "Argument" in o.what:
                    if (o.site.bb, o.site.idx) in const_args:
                        continue      # a string constant, judged as part of the literal text above
                    a0 = o.site.node["args"][0]
                    p = op_place(a0)
                    ty = fn.local_ty(p["l"]) if p else ""
                    if not re.match(r"^&+(u8|u16|u32|u64|u128|usize|i8|i16|i32|i64|i128|isize)$", ty):
                        argtys_ok = False
            if not okf or not argtys_ok:
                ctx.violate("C14.2", F, "fallback-args", fn.relfile, site.line, "fallback formats a non-integer argument (could contain separators)")
                continue
            ctx.ok("C14.2", F, "fallback value is a safe component", fn.relfile, site.line, "literal prefix %r + integer formatting" % (first,))


# frozen table: the bodies that may build paths, and what each push/join operand must come from
PATH_BUILDERS = {
    "paths::WalPathManager::default": {"push": ["sanitize"]},            # env/thread namespace key, sanitised
    "paths::WalPathManager::for_key": {"push": ["sanitize"]},            # explicit key, sanitised
    "paths::WalPathManager::with_data_dir": {"push": ["sanitize"]},      # builder key, sanitised
    "paths::WalPathManager::index_path": {"join": ["index-name"]},       # "<literal>_index.db"
    "paths::WalPathManager::create_new_file": {"join": ["millis"]},      # WAL file name: decimal digits
}
PUSH_RE = re.compile(r"^std::path::(PathBuf::push|Path::join|PathBuf::set_file_name|PathBuf::set_extension|Path::with_file_name|Path::with_extension)$")


def classify_component(facts, body, op):
    src, _, _ = origins(body, op, passthrough_extra=[r"^std::fmt::format$", r"fmt::Arguments.*::new", r"Argument.*::new_display$"])
    calls = origin_calls(src)
    # `opt.map(sanitize_namespace)` applies the sanitizer to the payload: count it as the sanitizer's result
    mapped = set()
    for o in src:
        if o.kind == "call" and re.search(r"Option(::<[^>]*>)?::map$", strip_generics(o.what)) and o.site is not None and len(o.site.node["args"]) == 2:
            f = o.site.node["args"][1]
            if f.get("k") == "const" and str(f.get("fn", "")).endswith("config::sanitize_namespace"):
                mapped.add(o.what)
    if mapped:
        calls = {c for c in calls if c not in mapped} | {"wal::config::sanitize_namespace"}
    if calls and all(re.search(r"config::sanitize_namespace$", c) for c in calls):
        # every way the value is produced goes through the sanitizer: nothing of the caller's (an argument, a capture, a
        # field) may reach the operand around it (`if looks_plain(key) { key } else { sanitize_namespace(key) }`)
        direct, _, _ = origins(body, op, passthrough_extra=[r"^std::fmt::format$", r"fmt::Arguments.*::new", r"Argument.*::new_display$"], stop_calls=[r"config::sanitize_namespace$"])
        raw = sorted(str(o.what) for o in direct if o.kind in ("arg", "upvar", "static"))
        if raw:
            return "other:the key itself (%s) on a path around sanitize_namespace" % ",".join(raw), src
        return "sanitize", src
    if calls and all(re.search(r"config::now_millis_str$", c) for c in calls):
        return "millis", src
    if not calls:
        args = origin_args(src)
        tm = [common.bytes_const(o.extra) for o in src if o.kind == "const" and o.extra is not None]
        tm = [x for x in tm if x]
        if args and tm:
            return "index-name", src
        if not args:
            return "literal", src
    return "other:" + ",".join(sorted(calls) or sorted(str(a) for a in origin_args(src))), src


def check_path_builders(ctx, facts):
    n_sites = 0
    by_class = {}
    sanitize_pushers = set()
    sanitize_sites = []
    for name, body in facts.bodies.items():
        if body.j["derived"]:
            continue
        F = common.short_fn(name)
        sites = [s for s in body.calls() if PUSH_RE.match(callee_name(s.node))]
        if not sites:
            continue
        ctx.saw_body(body)
        in_paths = body.relfile.endswith("wal/paths.rs")
        for s in sites:
            n_sites += 1
            kind = "push" if "push" in callee_name(s.node) else "join"
            if not in_paths:
                ctx.violate("C14.3", F, "path-built-outside-WalPathManager", body.relfile, s.line,
                            "%s is called in %s, outside the path manager (src/wal/paths.rs); a path component could bypass the sanitizer" % (callee_name(s.node), F))
                continue
            cls, src = classify_component(facts, body, s.node["args"][1])
            # a component is safe when it is the sanitizer's result *unchanged* (views and copies only),
            # a decimal timestamp, a literal, or - in index_path only, whose callers are checked below -
            # a literal-suffixed name
            ok_cls = cls in ("sanitize", "millis", "literal") or (cls == "index-name" and F == "paths::WalPathManager::index_path")
            if ok_cls:
                by_class[cls] = by_class.get(cls, 0) + 1
                if cls == "sanitize":
                    sanitize_pushers.add(name)
                    sanitize_sites.append((body, s))
                ctx.ok("C14.3", F, "%s operand from %s" % (kind, cls), body.relfile, s.line)
            else:
                ctx.violate("C14.3", F, "unsanitised-%s" % kind, body.relfile, s.line,
                            "the operand of %s is not the unchanged result of sanitize_namespace, a timestamp or a literal (it comes from %s): a transformation applied after the "
                            "sanitizer (trimming, slicing, concatenation) can re-introduce an empty, dot-only or separator-bearing component" % (callee_name(s.node), cls[:120]))
    for cls, least in (("sanitize", 1), ("millis", 1), ("index-name", 1)):
        ctx.floor("C14.3", "path components of class " + cls, by_class.get(cls, 0), least)
    # a key that was supplied is always appended: within the body that pushes the sanitised key, the push can
    # be bypassed only by "there is no key" - a discriminant test of a parameter or of the direct result of a
    # key source (thread_namespace(), env::var(..)); a test of anything computed from the key (filter, trim,
    # is_empty ...) lets some keys map to the data directory itself
    from .core.cond import bypass_edges, classify_edge, call_site_of
    for body, s_ in sanitize_sites:
        F = common.short_fn(body.name)
        pushes = [x.bb for b2, x in sanitize_sites if b2 is body]
        for e in bypass_edges(body, 0, pushes):
            if body.term(e[1])["k"] == "unreachable":
                continue
            T, which = classify_edge(body, e)
            ok_b = False
            if T is not None and T.kind == "discr" and not T.place["p"]:
                ok_b = _is_key_presence(facts, body, T.place["l"])
            if ok_b:
                ctx.ok("C14.3", F, "the sanitised push is skipped only when no key was supplied", body.relfile, body.term(e[0]).get("line"))
            else:
                desc = "a test that is not `no key supplied`"
                if T is not None and T.kind == "discr":
                    cs = call_site_of(body, {"k": "copy", "place": T.place})
                    if cs is not None:
                        desc = "the result of %s" % strip_generics(callee_name(cs.node)).split("::", 1)[-1]
                ctx.violate("C14.3", F, "supplied-key-not-appended", body.relfile, body.term(e[0]).get("line"),
                            "the namespace directory is skipped depending on %s: for some supplied keys nothing is appended and the instance's files are created in the data "
                            "directory itself (shared with every other instance)" % desc)
    # each constructor reaches a sanitised push (itself or through a helper of paths.rs)
    for w in ("paths::WalPathManager::default", "paths::WalPathManager::for_key", "paths::WalPathManager::with_data_dir"):
        b = facts.body(w)
        reach = facts.closure_reach(b.name) | {b.name}
        if reach & sanitize_pushers:
            ctx.ok("C14.3", w, "appends the key through sanitize_namespace", b.relfile, b.line)
        else:
            ctx.violate("C14.3", w, "constructor-without-sanitised-push", b.relfile, b.line, "%s does not append a sanitised key to the root" % w)
    # index_path callers must pass string literals (instance files); WalIndex::new is the
    # separately public, user-named index and is out of scope
    idx = facts.body("paths::WalPathManager::index_path")
    n_lit = 0
    for name, body in facts.bodies.items():
        for s in body.calls(re.compile(r"paths::WalPathManager::index_path$")):
            ctx.saw_body(body)
            src, _, _ = origins(body, s.node["args"][1])
            strs = [o for o in src if o.kind == "const" and o.extra is not None and "str" in o.extra]
            args = origin_args(src)
            F = common.short_fn(name)
            if strs and not args and not origin_calls(src):
                n_lit += 1
                ctx.ok("C14.3", F, "index name is a literal", body.relfile, s.line, repr(strs[0].what))
                continue
            # parameter: check this function's callers
            callers_ok = True
            found = 0
            for n2, b2 in facts.bodies.items():
                for s2 in b2.calls(re.compile(re.escape(strip_generics(name)) + "$")):
                    found += 1
                    argi = None
                    for i, a in enumerate(s.node["args"]):
                        pass
                    # position of the forwarded parameter
                    pnames = [x for x in args]
                    pos = None
                    for vd in body.j["var_debug"]:
                        if vd.get("arg") is not None and vd["name"] in pnames:
                            pos = vd["arg"] - 1
                    if pos is None:
                        callers_ok = False
                        continue
                    src2, _, _ = origins(b2, s2.node["args"][pos])
                    strs2 = [o for o in src2 if o.kind == "const" and o.extra is not None and "str" in o.extra]
                    F2 = common.short_fn(n2)
                    if strs2 and not origin_args(src2) and not origin_calls(src2):
                        n_lit += 1
                        bad = [c for c in strs2[0].what.encode() if c in SEPARATORS] or strs2[0].what.startswith(".")
                        if bad:
                            ctx.violate("C14.3", F2, "index-name-literal", b2.relfile, s2.line, "index file name literal %r contains a separator" % strs2[0].what)
                        else:
                            ctx.ok("C14.3", F2, "index name is a literal", b2.relfile, s2.line, repr(strs2[0].what))
                    elif F2 in ("index::WalIndex::new",):
                        ctx.ok("C14.3", F2, "public user-named index (out of scope: not an instance file)", b2.relfile, s2.line, trivial=True)
                    else:
                        ctx.violate("C14.3", F2, "index-name-not-literal", b2.relfile, s2.line,
                                    "index file name passed to %s is not a string literal" % F)
            if not found and F not in ("index::WalIndex::new",):
                ctx.ok("C14.3", F, "index_path caller without callers", body.relfile, s.line, trivial=True)
    ctx.floor("C14.3", "literal index names", n_lit, 2)
    # writers of WalPathManager.root
    writers = set()
    for name, body in facts.bodies.items():
        if body.j["derived"]:
            continue
        for site, st in body.assigns():
            rv = st["rv"]
            if rv["k"] == "agg" and rv.get("akind") == "adt" and rv.get("name", "").endswith("paths::WalPathManager"):
                writers.add(common.short_fn(name))
            for (o, n) in [(e.get("o"), e.get("n")) for e in st["place"]["p"] if isinstance(e, dict) and "f" in e]:
                if o and o.endswith("paths::WalPathManager") and n == "root":
                    writers.add(common.short_fn(name))
            if rv["k"] in ("ref", "rawptr") and rv.get("mut"):
                for e in rv["place"]["p"]:
                    if isinstance(e, dict) and e.get("n") == "root" and (e.get("o") or "").endswith("paths::WalPathManager"):
                        writers.add(common.short_fn(name))
    allowed_w = {"paths::WalPathManager::default", "paths::WalPathManager::for_key", "paths::WalPathManager::with_data_dir"}
    for w in sorted(writers):
        if w in allowed_w:
            ctx.ok("C14.3", w, "constructs WalPathManager.root", None, None)
        else:
            ctx.violate("C14.3", w, "root-written-outside-constructors", None, None, "%s writes WalPathManager.root; only the three constructors may" % w)
    # (a constructor may delegate to another one: at least one of them builds the value)
    ctx.floor("C14.3", "WalPathManager constructors", len(writers & allowed_w), 1)


from .core.cond import call_site_of as _csof


KEY_SOURCE = re.compile(r"(config|paths)::thread_namespace$|^std::env::var$|::thread_namespace$")
SOME_PRESERVING = re.compile(r"Option::(map|as_deref|as_ref|as_mut|copied|cloned|inspect)$|Result::(ok|map|as_ref|as_deref)$")


def _is_key_presence(facts, body, l, depth=0):
    """the Option / Result held in local l is Some / Ok exactly when a namespace key was supplied: a parameter, the direct
    result of a key source (thread_namespace(), env::var(..)), a Some-preserving adaptor of one, or `a.or_else(|| b)` /
    `a.or(b)` of two of them"""
    seen_l = set()
    while l is not None and l not in seen_l and depth < 8:
        seen_l.add(l)
        if 1 <= l <= body.arg_count:
            return True
        cs = _csof(body, {"k": "copy", "place": {"l": l, "p": []}})
        if cs is not None:
            cn = strip_generics(callee_name(cs.node))
            if SOME_PRESERVING.search(cn) and cs.node["args"]:
                l = op_local(body.resolve_copy(cs.node["args"][0]))
                continue
            if re.search(r"Option::(or_else|or)$", cn) and len(cs.node["args"]) == 2:
                r0 = op_local(body.resolve_copy(cs.node["args"][0]))
                if r0 is None or not _is_key_presence(facts, body, r0, depth + 1):
                    return False
                a1 = cs.node["args"][1]
                l1 = op_local(body.resolve_copy(a1))
                if cn.endswith("::or"):
                    return l1 is not None and _is_key_presence(facts, body, l1, depth + 1)
                # or_else(closure): what the closure returns
                sd = body.single_def(l1) if l1 is not None else None
                if sd and sd[1] == "assign" and sd[2]["rv"]["k"] == "agg" and sd[2]["rv"].get("akind") == "closure":
                    clo = facts.bodies.get(sd[2]["rv"].get("name"))
                    if clo is not None:
                        src, _, _ = origins(clo, {"k": "copy", "place": {"l": 0, "p": []}}, follow_all_calls=True)
                        calls_ = [strip_generics(o.what) for o in src if o.kind == "call"]
                        return bool(calls_) and all(KEY_SOURCE.search(c_) or SOME_PRESERVING.search(c_) for c_ in calls_) and any(KEY_SOURCE.search(c_) for c_ in calls_)
                return False
            return bool(KEY_SOURCE.search(cn))
        sd = body.single_def(l)
        if sd is not None and sd[1] == "assign" and sd[2]["rv"]["k"] in ("use", "cast"):
            q = op_place(sd[2]["rv"]["op"])
            l = q["l"] if q is not None and not q["p"] else None
        elif sd is not None and sd[1] == "assign" and sd[2]["rv"]["k"] == "ref" and not sd[2]["rv"]["place"]["p"]:
            l = sd[2]["rv"]["place"]["l"]     # a borrow of the Option (`key.as_deref()`)
        elif sd is not None and sd[1] == "assign" and sd[2]["rv"]["k"] == "agg" and sd[2]["rv"].get("akind") == "adt" and sd[2]["rv"].get("variant") == "Some" \
                and str(sd[2]["rv"].get("name", "")).startswith("std::option::Option"):
            return True     # `helper(dir, Some(key))` inlined: a key is always supplied here, the other arm cannot be taken
        else:
            l = None
    return False


def run(ctx):
    for k, v in RULES.items():
        ctx.rule(k, v)
    facts = common.mir(ctx, "walrus_rust")
    check_sanitizer(ctx, facts)
    check_path_builders(ctx, facts)
    ctx.assume("rustc MIR construction and callee resolution are correct; std::path::PathBuf::push semantics: pushing one normal component stays inside the base")
    ctx.assume("symlinks placed inside the data directory are outside the property")
    ctx.assume("only the linux cfg of the crate is analysed")
    return {
        "explanation": "CHARABS abstract interpretation of sanitize_namespace's mapping closure over an exact 133-class partition of char, "
                       "fallback-discipline obligations on the emptiness test, and who-may-push / operand-origin rules over every "
                       "PathBuf::push / Path::join in the crate (MIR, resolved callees). Decides the property for all key strings at the level of path components.",
        "lemma": LEMMA,
    }
