#!/usr/bin/env python3
"""tools/mkmut.py <prop> <name> <expect-rules> [about...]  < spec
spec (stdin): one or more edits
  @@ <path relative to repo>
  <old text>
  ====
  <new text>
  @@ ...
Each old text must occur exactly once in the file.  Writes mutants/<prop>/<name>.patch."""
import os
import subprocess
import sys
sys.path.insert(0, os.path.dirname(os.path.abspath(__file__)))
import mutants  # noqa

prop, name, expect = sys.argv[1], sys.argv[2], sys.argv[3]
about = " ".join(sys.argv[4:])
spec = sys.stdin.read()
edits = []
cur = None
for line in spec.split("\n"):
    if line.startswith("@@ "):
        cur = {"file": line[3:].strip(), "old": [], "new": [], "side": "old"}
        edits.append(cur)
    elif line.strip() == "====" and cur is not None:
        cur["side"] = "new"
    elif cur is not None:
        cur[cur["side"]].append(line)
sname = "mk-%s-%s" % (prop, name)
dst = mutants.scratch(sname)
try:
    for e in edits:
        p = os.path.join(dst, e["file"])
        s = open(p).read()
        old = "\n".join(e["old"]).strip("\n")
        new = "\n".join(e["new"]).strip("\n")
        if s.count(old) != 1:
            sys.exit("edit in %s: old text occurs %d times" % (e["file"], s.count(old)))
        s = s.replace(old, new)
        open(p, "w").write(s)
    d = os.path.join(mutants.VERIF, "mutants", prop)
    os.makedirs(d, exist_ok=True)
    path = os.path.join(d, name + ".patch")
    with open(path, "w") as f:
        f.write("# expect: %s\n# about: %s\n" % (expect, about))
    mutants.mkdiff(sname, prop, name)
finally:
    mutants.drop(sname)
