#!/usr/bin/env python3
"""Regenerates rules/known_functions.json: the functions of the reviewed tree, per analysed crate.

A function that is not in this list has no rule anchored on it; rules/core/inline.py replaces every call of it, in each
caller, by its body, so that an extracted helper is judged through the functions that use it.  Run this only after the
tree it is run on has been reviewed (all checks pass, findings triaged): from then on its functions are `known`."""
import json, os, sys
V = os.path.dirname(os.path.dirname(os.path.abspath(__file__)))
sys.path.insert(0, V)
os.environ["VERIF_NO_INLINE"] = "1"
from rules.core import common, inline
from rules.core.report import Ctx

ctx = Ctx("C01")
out = {}
for crate in ("walrus_rust", "oshim", "dwshim"):
    f = common.mir(ctx, crate)
    out[crate] = sorted({inline._sg(k) for k, b in f.bodies.items() if b.kind != "Closure"})
    print(crate, len(out[crate]))
json.dump(out, open(os.path.join(V, "rules", "known_functions.json"), "w"), indent=0)
